#!/venv/bin/python
"""Regenerate MANIFEST.json from the table below (keeps it schema-valid)."""

import json
import sys
from pathlib import Path

VERIF = Path(__file__).resolve().parent.parent
sys.path.insert(0, str(VERIF))

from aeicverif.registry import CHECKS, NOT_YET  # noqa: E402

props = [json.loads(line) for line in (VERIF / 'properties.jsonl').read_text().splitlines() if line.strip()]
ids = [p['id'] for p in props]

checks = []
for pid in ids:
    if pid not in CHECKS:
        continue
    c = CHECKS[pid]
    checks.append(
        {
            'property_id': pid,
            'quick_cmd': f'./check {pid} --tier quick',
            'thorough_cmd': f'./check {pid} --tier thorough',
            'evidence_file': f'evidence/{pid}.json',
            'replay_cmd_template': f'./check {pid} --replay {{path}}',
            'engine': 'aeicverif',
            'level_claimed': {
                'category': c['category'],
                'text': c['text'],
                'design_ref': f'DESIGN.md section 4, {pid}',
            },
            'level_note': c['note'],
            'technique': c['technique'],
        }
    )

manifest = {
    'version': 1,
    'setup_cmd': './setup.sh',
    'hooks': {
        'guard': 'MIT_LAE_AEIC_VERIF',
        'enable': 'no source hooks: checks import /repo/src directly (pure Python, nothing to build); '
        './check exports MIT_LAE_AEIC_VERIF=1 but the repository never reads it',
        'baseline_off_cmd': 'cd /repo && /venv/bin/python -m pytest -ra -q -p no:cacheprovider --timeout=900 '
        '--continue-on-collection-errors',
        'source_commits': [],
        'add_only': True,
    },
    'engines': [
        {
            'name': 'aeicverif',
            'path': 'aeicverif/',
            'serves_properties': [c['property_id'] for c in checks],
            'kind_free_text': 'Hypothesis 6.168 property-based tests (plain and rule-based stateful), exhaustive '
            'enumeration of small finite spaces, fault enumeration and a trace-driven scheduler; '
            'independent reference models as oracles',
        }
    ],
    'checks': checks,
    'notes': 'Run with /venv/bin/python; every run is a function of the tree and VERIF_SEED. '
    'Exit 2 = harness error. Known findings: known_findings.jsonl.',
    'not_applicable': [
        {'property_id': pid, 'reason': NOT_YET.get(pid, 'check not built yet (property-based check planned, see DESIGN.md section 4)')}
        for pid in ids
        if pid not in CHECKS
    ],
}
(VERIF / 'MANIFEST.json').write_text(json.dumps(manifest, indent=1) + '\n')

try:
    import jsonschema

    jsonschema.validate(manifest, json.loads(Path('/root/.vp/MANIFEST.schema.json').read_text()))
    print('MANIFEST.json valid;', len(checks), 'checks,', len(manifest['not_applicable']), 'not_applicable')
except ImportError:
    print('MANIFEST.json written (jsonschema not available to validate);', len(checks), 'checks')
