idea () 
{ 
    mkdir -p seeded/$1;
    printf '%s\n%s\n%s\n' "$2" "$3" "${4:-${1%%-*}}" > seeded/$1/idea.txt
}
