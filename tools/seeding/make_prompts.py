#!/venv/bin/python
"""tools/seeding/make_prompts.py ROUND — write /tmp/seed<ROUND>-CNN.prompt.txt for every property (property text only,
plus the list of change ideas already used in earlier rounds so that new ones differ)."""
import json, sys, re
from pathlib import Path
rnd = sys.argv[1]
V = Path('/verif')
tmpl = (V / 'tools/seeding/prompt_template.txt').read_text()
used = {}
for d in sorted((V / 'seeded').glob('C*-*')):
    m = json.loads((d / 'meta.json').read_text())
    used.setdefault(m['property'], []).append(m['change'])
SHAPELY = """
Note for this property: the `shapely` package is NOT installed, and AEIC.gridding.grid imports `shapely.geometry.Polygon` at import time (only used by grid_polygon). Your demo must therefore insert a stub before importing the gridding module:
    import sys, types
    shapely = types.ModuleType('shapely'); geometry = types.ModuleType('shapely.geometry')
    class Polygon:
        def __init__(self, *a, **k): raise RuntimeError('stub')
    geometry.Polygon = Polygon; shapely.geometry = geometry
    sys.modules['shapely'] = shapely; sys.modules['shapely.geometry'] = geometry
The existing test suite does not import the gridding module at all. Gridder.grid_trajectory takes latitudes/longitudes in RADIANS.
"""
for line in (V / 'properties.jsonl').read_text().splitlines():
    p = json.loads(line)
    pid = p['id']
    tree = f'/tmp/seed{rnd}-{pid}'
    prop = (f"{pid}: {p['title']}\n\nStatement: {p['statement']}\n\nQuantified over: {p['quantifier']['text']}\n\n"
            f"Code the property is anchored in: {', '.join(p['anchors']['files'])}\nObserved at: {'; '.join(p['anchors'].get('observe_at') or [])}\n")
    avoid = ''
    if used.get(pid):
        avoid = ('Changes of the following kinds were already produced by earlier seeders; yours must be DIFFERENT in root cause and in what they need to manifest (other functions / other mechanisms of the property):\n'
                 + ''.join(f'  - {c}\n' for c in used[pid]) + '\n')
    extra = SHAPELY if pid in ('C04', 'C05') else ''
    if rnd == '8':
        extra += ('\nTIME-BOXED ROUND: produce only ONE change (out/mut1 only; ignore every instruction about a second change) and finish within about 12 minutes of work - pick an idea quickly, '
                  'run the suite once, write the demo, done. Avoid memoisation / stale-cache ideas, dtype slips, aliasing of returned objects, and anything similar to the list above. Prefer: two cooperating sites '
                  'that each look fine alone (a producer and a consumer that must agree on a unit, an order, an inclusive/exclusive end, a default); a fault or exception at one particular point that leaves '
                  'something half-done; a condition that only matters on the second or later step of a multi-step sequence; an unusual but legal input value (negative, zero, exactly on a threshold, very large, '
                  'reversed order, duplicate entries, southern/western hemisphere, polar or antimeridian positions).\n')
    elif rnd == '5':
        extra += '\nIn this round avoid memoisation / stale-cache ideas and anything similar to the list above. Prefer: an error/exception path that leaves something half-done or reports the wrong thing; a numerical slip (precision, dtype, unit, sign, rounding direction, degrees vs radians, inclusive vs exclusive) confined to one branch or one range of values; an argument order or default-value change that only matters for a non-default call; a condition that is right for scalars but wrong for arrays (or the reverse).\n'
    elif rnd == '7':
        extra += ('\nIn this round avoid memoisation / stale-cache ideas, dtype slips, and anything similar to the list above. Prefer: aliasing (a returned object '
                  'shares mutable state with an internal structure, with an argument, or with a previously returned object); a relation the statement spells out '
                  '(symmetry, invariance, additivity, idempotence, "same result when ...") broken only for some inputs; sizes that cross an internal block, chunk or '
                  'buffer boundary (hundreds of items, capacity doubling, page sizes); calendar and clock corner cases (year boundary, leap day, DST change, midnight, '
                  'week wrap); scalar-versus-sequence and empty-versus-None distinctions in optional arguments; behaviour promised in a docstring of the anchored '
                  'code but not restated in the property text; the second of two sibling functions that must stay in step with the first.\n')
    elif rnd == '6':
        extra += ('\nIn this round avoid memoisation / stale-cache ideas, dtype slips and anything similar to the list above. First go through the '
                  'property statement clause by clause, note which clauses the earlier ideas already broke, and aim at a clause or a code path none of them touches. '
                  'Prefer: an entry point other than the most obvious one (alternate constructors and class methods, keyword options with non-default values, '
                  'command-line entry points, the iteration / context-manager / len protocol); the first or last element of a range, an empty or single-element input, '
                  'ties and ordering when two keys are equal; a unit conversion or constant used on one path only; two features that each work alone but not together; '
                  'a clean-up or bookkeeping step skipped on one early-return path.\n')
    elif rnd not in ('', '2'):
        extra += '\nIn this round avoid memoisation / stale-cache ideas (used a lot already). Prefer: a wrong boundary or comparison, a unit or sign slip confined to one branch, an ordering problem between two steps, a check applied to the wrong object, an exception path that skips a clean-up, two sites that must agree and no longer do.\n'
    t = tmpl.replace('@TREE@', tree).replace('@PROPERTY@', prop).replace('@AVOID@', avoid).replace('@EXTRA@', extra)
    Path(f'/tmp/seed{rnd}-{pid}.prompt.txt').write_text(t)
print('ok')
