#!/bin/bash
# run every thorough check once (sequentially; each uses 16 shards); one summary line per check
ids=${@:-C18 C11 C20 C15 C12 C19 C14 C13 C01 C04 C05 C06 C16 C03 C09 C07 C08 C02 C17 C10}
mkdir -p .work/thorough
for p in $ids; do start=$(date +%s); ./check $p --tier thorough > .work/thorough/$p.txt 2>&1; rc=$?; echo "$p rc=$rc $(( $(date +%s) - start ))s $(grep -c '^KNOWN' .work/thorough/$p.txt) known; $(tail -1 .work/thorough/$p.txt | cut -c1-140)"; grep -A2 "^VIOLATION\|HARNESS" .work/thorough/$p.txt | head -8 | cut -c1-300; done
