#!/bin/bash
# tools/run_mutants.sh CNN [pattern]  — run the quick check against every mutants/CNN/*.diff (in parallel, 4 at a time)
pid=$1; pat=${2:-*}
mkdir -p .work/mutruns
ls mutants/$pid/$pat.diff 2>/dev/null | grep -v -i "fix\|proposed\|/stale/" | xargs -P 4 -I{} bash -c '
  f={}; n=$(basename $f .diff); out=.work/mutruns/'$pid'_$n.txt
  start=$(date +%s)
  tools/with_mutant.sh $f ./check '$pid' > $out 2>&1; rc=$?
  end=$(date +%s)
  sig=$(grep -m1 "signature:" $out | cut -c1-150)
  echo "'$pid' $n rc=$rc $((end-start))s $sig"
'
