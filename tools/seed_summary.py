#!/venv/bin/python
"""Regenerate seeded/SUMMARY.md from the meta.json files."""
import glob, json
rows = []
for d in sorted(glob.glob('/verif/seeded/C*-*')):
    try:
        m = json.load(open(d + '/meta.json'))
    except FileNotFoundError:
        continue
    sid = d.split('/')[-1]
    det = ', '.join(f"{k} ({v['seconds']} s, `{(v['first_signature'] or '').split(':', 1)[-1][:70]}`)"
                    for k, v in m['checks_run_quick_tier'].items() if v['exit'] == 1)
    miss = ', '.join(k for k, v in m['checks_run_quick_tier'].items() if v['exit'] != 1)
    c = m['confirmed']
    rows.append(f"| {sid} | {m['change']} | {m['needs_to_manifest']} | {(c['test_suite_with_change'] or '?').split(',')[0]}; demo "
                f"{c['demo_exit_with_change']}/{c['demo_exit_on_clean_tree']} | {det or '-'} | {miss or '-'} |")
open('/verif/seeded/SUMMARY.md', 'w').write("""# Independently seeded changes

Seeds -1/-2 are the first round, -3/-4 the second, ... -13/-14 the seventh, -15 the eighth (one change per property) (from the second round on the seeders were told
which change ideas had already been used; DESIGN.md section 12.2 lists every first-run miss and what was strengthened).  Each directory holds `patch.diff` (applies to /repo at the commit in `meta.json`; `patch.orig.diff` = the
seeder's own diff when it had to be ported after a later repair of /repo), `demo.py` (exit 1 = property violated;
`demo.orig.py` = the seeder's own when it had to be adapted), `notes.txt` (the seeder's notes), `idea.txt`, `eval.txt`
(output of `tools/eval_seed.sh`) and `meta.json`.  "demo a/b" = exit code with the change / on the clean tree.  All runs
are the quick tier with seed 1 against a patched scratch copy of /repo.

| Seed | Change | Needs in order to manifest | Confirmed | Detected by (time, first signature) | Other checks run, not detecting |
|---|---|---|---|---|---|
""" + '\n'.join(rows) + '\n')
nd = sum(1 for r in rows if '| - | ' in r.split(' | ', 4)[-1][:6])
print(len(rows), 'seeds')
