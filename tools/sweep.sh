#!/bin/bash
# tools/sweep.sh "<seeds>" [ids...]  — run quick checks for the given seeds, 4 at a time; print one line per run
seeds=${1:-"1 2 3"}; shift
ids=${@:-C01 C02 C03 C04 C05 C06 C07 C08 C09 C10 C11 C12 C13 C14 C15 C16 C17 C18 C19 C20}
mkdir -p .work/sweep
for s in $seeds; do for p in $ids; do echo "$s $p"; done; done | xargs -P 5 -L 1 bash -c 's=$0; p=$1; start=$(date +%s); VERIF_SEED=$s ./check $p > .work/sweep/${p}_$s.txt 2>&1; rc=$?; echo "$p seed=$s rc=$rc $(( $(date +%s) - start ))s $(grep -c "^KNOWN" .work/sweep/${p}_$s.txt) known; $(grep -m1 "signature:" .work/sweep/${p}_$s.txt | cut -c1-140)"'
