#!/bin/bash
# Copy failing cases found against mutated scratch copies into regress/<ID>/ if (and only if) they replay without a
# violation on the real tree (so they are regression inputs, not alarms). At most N per property, smallest files first.
N=${1:-8}
for d in .work/scratch-run/replays/C*; do
  p=$(basename $d); mkdir -p regress/$p; k=0
  for f in $(ls -S -r $d/*.json 2>/dev/null); do
    [ $k -ge $N ] && break
    b=$(basename $f); [ -f regress/$p/$b ] && continue
    [ $(stat -c %s $f) -gt 60000 ] && continue
    if timeout 300 ./check $p --replay $f > /dev/null 2>&1; then cp $f regress/$p/s_$b; k=$((k+1)); fi
  done
  echo "$p +$k ($(ls regress/$p | wc -l) total)"
done
