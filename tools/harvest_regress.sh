#!/bin/bash
# Copy failing cases found against mutated scratch copies (seeded changes, hand-written mutants) into regress/<ID>/ if (and
# only if) they replay without a violation on the real tree (so they are regression inputs, not alarms).  At most N per
# property (smallest files first); replays run 10 at a time.
N=${1:-8}
one() {
  f=$1; p=$(basename $(dirname $f)); b=$(basename $f)
  [ -f regress/$p/s_$b ] && exit 0
  [ $(stat -c %s $f) -gt 60000 ] && exit 0
  if timeout 300 ./check $p --replay $f > /dev/null 2>&1; then echo "$f"; fi
}
export -f one
for d in .work/scratch-run/replays/C*; do
  p=$(basename $d); mkdir -p regress/$p
  have=$(ls regress/$p | wc -l)
  ls -S -r $d/*.json 2>/dev/null | head -n $((N * 3)) | xargs -P 10 -n 1 bash -c 'one "$0"' | head -n $N | while read f; do cp $f regress/$p/s_$(basename $f); done
  echo "$p $have -> $(ls regress/$p | wc -l)"
done
