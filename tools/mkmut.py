#!/venv/bin/python
"""tools/mkmut.py OUT.diff FILE OLD NEW [FILE OLD NEW ...]  — build a -p1 unified diff that replaces OLD by NEW
(first occurrence) in /repo/FILE (FILE relative to the repo root)."""
import difflib, sys
from pathlib import Path
out = Path(sys.argv[1]); args = sys.argv[2:]
chunks = []
files = {}
for i in range(0, len(args), 3):
    f, old, new = args[i:i+3]
    src = files.get(f) or Path('/repo', f).read_text()
    old = old.encode().decode('unicode_escape'); new = new.encode().decode('unicode_escape')
    if old not in src:
        sys.exit(f'OLD not found in {f}: {old[:60]!r}')
    files[f] = src.replace(old, new, 1)
for f, new in files.items():
    orig = Path('/repo', f).read_text()
    chunks.append(''.join(difflib.unified_diff(orig.splitlines(True), new.splitlines(True), 'a/' + f, 'b/' + f)))
out.parent.mkdir(parents=True, exist_ok=True)
out.write_text(''.join(chunks))
print('wrote', out)
