#!/bin/bash
# tools/eval_seed.sh <out-dir-with-patch.diff-and-demo.py> <CHECK_ID> [more check ids]
# Confirms the seeded change independently: applies the patch to a scratch copy of /repo's working tree, runs the repository
# test suite there, runs the demo with and without the change, then runs the given checks against the patched copy.
set -u
src="$(realpath "$1")"; shift
dir=$(mktemp -d /var/tmp/aeic-seed-XXXXXX)
rsync -a --exclude .git --exclude __pycache__ /repo/ "$dir/"
clean=$(mktemp -d /var/tmp/aeic-clean-XXXXXX)
rsync -a --exclude .git --exclude __pycache__ /repo/ "$clean/"
if ! (cd "$dir" && patch -p1 -s < "$src/patch.diff"); then echo "PATCH-FAILED"; rm -rf "$dir" "$clean"; exit 3; fi
echo "== tests with change:"; (cd "$dir" && PYTHONPATH="$dir/src" /venv/bin/python -m pytest -q -p no:cacheprovider --timeout=900 > "$dir/tests.out" 2>&1; grep -E "passed|failed|error" "$dir/tests.out" | tail -1)
# demos hard-code /tmp/seed-XXX paths sometimes: run them from a copy with the path rewritten
demo="$dir/scratch_demo.py"; sed "s#/tmp/seed-C[0-9]*#$dir#g" "$src/demo.py" > "$demo"
mkdir -p "$dir/scratch" "$clean/scratch"
(cd "$dir" && AEIC_PATH="$dir/tests/data" PYTHONPATH="$dir/src" timeout 600 /venv/bin/python "$demo" > "$dir/demo.out" 2>&1); echo "== demo with change: exit $?  ($(tail -1 "$dir/demo.out" | cut -c1-150))"
demo2="$clean/scratch_demo.py"; sed "s#/tmp/seed-C[0-9]*#$clean#g" "$src/demo.py" > "$demo2"
(cd "$clean" && AEIC_PATH="$clean/tests/data" PYTHONPATH="$clean/src" timeout 600 /venv/bin/python "$demo2" > "$clean/demo.out" 2>&1); echo "== demo on clean tree: exit $?  ($(tail -1 "$clean/demo.out" | cut -c1-150))"
for c in "$@"; do
  start=$(date +%s)
  AEIC_VERIF_REPO="$dir" ./check $c > "$dir/check_$c.out" 2>&1; rc=$?
  end=$(date +%s)
  echo "== check $c: rc=$rc $((end-start))s $(grep -m1 'signature:' "$dir/check_$c.out" | cut -c1-160)"
  grep -m1 -A2 "signature:" "$dir/check_$c.out" | tail -2 | cut -c1-300
done
rm -rf "$dir" "$clean"
