#!/venv/bin/python
"""Archive independently seeded changes under /verif/seeded/<ID>-<n>/ and (re)evaluate them.

usage: tools/archive_seeds.py [--eval] [ID-n ...]
Each seed directory gets patch.diff (ported to the current /repo if the original no longer applies; the original is kept
as patch.orig.diff), demo.py, notes.txt (the seeder's own notes), eval.txt (output of tools/eval_seed.sh) and meta.json.
"""

import json
import re
import shutil
import subprocess
import sys
from pathlib import Path

VERIF = Path(__file__).resolve().parent.parent
SEEDED = VERIF / 'seeded'

# what each change needs in order to manifest (from the seeder's notes, condensed) and which checks to run
SEEDS = {
    'C01-1': ('values[-n_descent:] with n_descent == 0 zeroes the whole trajectory in lto mode',
              'climb_descent_mode=lto and a trajectory with zero descent points', ['C01']),
    'C01-2': ('one-entry LTO memo keyed on (performance model, config) ignores the fuel argument',
              'two compute_emissions calls in one process with the same model object and loaded config but another fuel', ['C01']),
    'C03-1': ('species pre-check dropped from add(): refusal happens half-way through the write',
              'rejected add (species outside the file) followed by an accepted add with unset optional fields / fewer species, then reopen', ['C03', 'C10']),
    'C03-2': ('early continue for unset optional fields skips the trajectory coordinate write',
              'associated file holding only optional field sets, trailing trajectories leave them all unset, reopen', ['C03']),
    'C04-1': ('direction of travel taken from grid-index change instead of coordinates',
              'southbound leg inside one latitude band crossing >= 2 meridians (or westbound mirror case)', ['C04', 'C05']),
    'C04-2': ('antimeridian split normalised by the direct great-circle distance instead of the two-leg sum',
              'one antimeridian crossing whose leg changes latitude appreciably', ['C04']),
    'C05-1': ('direction of travel taken from grid-index change instead of coordinates (shares mis-paired)',
              'southbound/westbound leg staying in one band/column and crossing >= 2 lines, integrated variables requested', ['C05', 'C04']),
    'C05-2': ('second half of an antimeridian leg takes the altitude of the end point',
              'altitude axis, antimeridian crossing during climb/descent through a layer boundary', ['C05']),
    'C06-1': ('np.interp (clamping) instead of interpn for single-mass sub-tables',
              'DESCEND phase and altitude strictly outside the tabulated level range', ['C06']),
    'C06-2': ('process-wide interpolator cache keyed on the (FL, mass) grid but not the values',
              'two models with identical level/mass grids but different values evaluated in one process', ['C06']),
    'C07-1': ('size_index (length at open time) used for single files again',
              'append session, >= 1 add, new item evicted from a 1 MB cache, read in the same session', ['C07']),
    'C07-2': ('_next_index advanced before the cache insert, not rolled back on EvictionOccurred',
              'in-memory store, an addition refused for eviction, then a smaller addition that fits', ['C07']),
    'C08-1': ('get_flight keeps an in-memory copy of the index that sync() does not invalidate',
              'lookup, then add(s), then explicit sync(), then lookup of a new id in the same session', ['C08']),
    'C08-2': ('merge decides indexability from the first input only',
              'merge of mixed identified/unidentified stores with the unidentified store first', ['C08', 'C09']),
    'C09-1': ('species list of merged files cached by the length of the species dimension',
              'two merged inputs whose species sets have equal size but different members', ['C09']),
    'C09-2': ('merged id index built in file-name order instead of the order given',
              'identified inputs given in an order different from lexicographic name order, then get_flight', ['C09']),
    'C10-1': ('field-set comparison against the open files dropped from add() validation',
              'append session, wrong-schema trajectory as the very first add (cache empty)', ['C10']),
    'C10-2': ('metadata.json written before the merged id index',
              'identified inputs and a failure exactly at the creation of _index.nc', ['C10']),
    'C11-1': ('functools.cache on constant_species_values(fuel) although it reads the configuration',
              'first call in the process with a fuel-dependent species switched off, later call with it on', ['C11']),
    'C11-2': ('sparse totals + lifecycle guard without the CO2 test',
              'co2_enabled=false, lifecycle_enabled=true, gse_enabled=false and no APU contribution', ['C11']),
    'C12-1': ('np.maximum(ff, 1e-2) instead of replacing only non-positive flows',
              'SLS-equivalent fuel flow strictly between 0 and 0.01 kg/s', ['C12']),
    'C12-2': ('SOx result memoised by fuel name',
              'two fuels with the same name but different sulfur content/yield in one process', ['C12']),
    'C13-1': ('arrival time-zone conversion hoisted out of the per-date loop',
              'row with >= 2 operating dates spanning a date where the two airports\' UTC offsets diverge', ['C13']),
    'C13-2': ('distance verdict cached per airport pair',
              'two rows of the same directed pair with different stated distances in one database', ['C13']),
    'C14-1': ('every_nth comb counted from the first populated day on/after start_date',
              'every_nth >= 2 with a start_date on which no instance exists', ['C14']),
    'C14-2': ('one shared cursor for all queries of a Database',
              'a second db(...) call before an earlier result generator is exhausted, then further consumption', ['C14']),
    'C15-1': ('waypoint search resumes from the previous lookup, stepping back only one segment',
              'multi-waypoint track (>= 4 waypoints), a lookup in segment k followed by one in segment <= k-2', ['C15']),
    'C15-2': ('overstep excess clamped with max(..., 0)',
              'allow_overstep and a step that starts strictly beyond the final waypoint', ['C15']),
    'C16-1': ('daily-file cache keyed on the date; hourly slice not reset on file change',
              'files with a time axis, one Weather object queried on two days at the same hour', ['C16']),
    'C16-2': ('`azimuth or gt_point.azimuth`: an explicit heading of exactly 0.0 is ignored',
              'azimuth=0.0 passed explicitly, point azimuth different, non-zero wind', ['C16']),
    'C18-1': ('singleton installed before the last path-resolution validator',
              'a load whose only fault is an unresolvable weather.weather_data_dir, then get/read/load', ['C18']),
    'C18-2': ('lru_cache of parsed config files, kwargs merged into the cached dict',
              'load(file, kwargs) followed later by a load of the same unchanged file', ['C18']),
    'C19-1': ('np.clip(thrust, descent, max) instead of two where() steps',
              'profile point with small positive total-energy thrust below descent thrust', ['C19']),
    'C19-2': ('descent transition altitude memoised on the model',
              'model reused after h_p_des was changed on the same parameter object; negative-thrust point between old and new level', ['C19']),
    'C20-1': ('double-checked locking that falls through when the owner was set meanwhile',
              'thread B runs the unlocked test after A\'s test and before A\'s assignment', ['C20']),
    'C20-2': ('failed open resets active_in_thread',
              'thread A creates a store, then a constructor call of A fails inside _open, then thread B creates', ['C20']),
    'C02-1': ('overstep computed from the last waypoint with the leg\'s departure azimuth',
              'a valid table whose descent is shallower than the top-of-descent guess (flight oversteps the destination) on a route that is not meridional/equatorial', ['C02', 'C15']),
    'C02-2': ('make_point indexes the capacity-sized buffer again',
              'step fractions giving a phase hand-over at a point count above 50 that is not a multiple of 50', ['C02']),
    'C17-1': ('starting mass cached on the builder by mission label (ignores load factor)',
              'one builder, two flights with the same origin/destination/aircraft type but different load factors', ['C17']),
    'C17-2': ('one Weather object per builder + date recorded before the file is opened',
              'use_weather on a reused builder: a flight rejected for missing weather followed by a flight with the identical departure timestamp', ['C17']),
}


def source_dir(sid: str) -> Path:
    pid, n = sid.split('-')
    n = int(n)
    rnd = (n - 1) // 2 + 1  # seeds 1,2 = round 1; 3,4 = round 2; ...
    k = (n - 1) % 2 + 1
    return Path(f'/tmp/seed{"" if rnd == 1 else rnd}-{pid}/out/mut{k}')


def seed_info(sid: str):
    """(change, needs, checks): from the table above or from seeded/<sid>/idea.txt
    (line 1 = change, line 2 = what it needs, optional line 3 = space-separated check ids)."""
    f = SEEDED / sid / 'idea.txt'
    if f.exists():
        lines = [x.strip() for x in f.read_text().splitlines() if x.strip()]
        checks = lines[2].split() if len(lines) > 2 else [sid.split('-')[0]]
        return lines[0], lines[1] if len(lines) > 1 else '', checks
    if sid in SEEDS:
        return SEEDS[sid]
    return '', '', [sid.split('-')[0]]


def archive(sid: str):
    pid, n = sid.split('-')
    src = source_dir(sid)
    dst = SEEDED / sid
    dst.mkdir(parents=True, exist_ok=True)
    if src.exists():
        for f in ('demo.py', 'notes.txt'):
            if f == 'demo.py' and (dst / 'demo.orig.py').exists():
                continue  # demo.py was adapted here; the seeder's own is demo.orig.py
            if (src / f).exists():
                shutil.copy(src / f, dst / f)
        orig = (src / 'patch.diff').read_text()
        applies = subprocess.run(['git', '-C', '/repo', 'apply', '--check', str(src / 'patch.diff')],
                                 capture_output=True).returncode == 0
        if applies:
            (dst / 'patch.diff').write_text(orig)
            (dst / 'patch.orig.diff').unlink(missing_ok=True)
        else:
            (dst / 'patch.orig.diff').write_text(orig)
            if not (dst / 'patch.diff').exists():
                print(f'{sid}: original patch does not apply and no ported patch.diff present')
    return dst


def evaluate(sid: str):
    dst = SEEDED / sid
    checks = seed_info(sid)[2]
    r = subprocess.run([str(VERIF / 'tools/eval_seed.sh'), str(dst), *checks], capture_output=True, text=True, cwd=VERIF)
    (dst / 'eval.txt').write_text(r.stdout + r.stderr)
    return r.stdout


def meta(sid: str):
    dst = SEEDED / sid
    ev = (dst / 'eval.txt').read_text() if (dst / 'eval.txt').exists() else ''
    tests = re.search(r'(\d+ passed[^\n]*)', ev)
    d1 = re.search(r'demo with change: exit (\d+)', ev)
    d0 = re.search(r'demo on clean tree: exit (\d+)', ev)
    caught = {}
    for m in re.finditer(r'== check (C\d+): rc=(\d+) (\d+)s\s*(?:signature: (\S+))?', ev):
        caught[m.group(1)] = {'exit': int(m.group(2)), 'seconds': int(m.group(3)), 'first_signature': m.group(4)}
    head = subprocess.run(['git', '-C', '/repo', 'rev-parse', '--short', 'HEAD'], capture_output=True, text=True).stdout.strip()
    idea, needs, checks = seed_info(sid)
    rec = {
        'property': sid.split('-')[0],
        'origin': 'independent sub-agent given only the property text and a scratch worktree of /repo (no access to /verif)',
        'change': idea,
        'needs_to_manifest': needs,
        'applies_to_repo_commit': head,
        'ported': (dst / 'patch.orig.diff').exists(),
        'demo_adapted': (dst / 'demo.orig.py').exists(),
        'confirmed': {
            'command': f'tools/eval_seed.sh seeded/{sid} {" ".join(checks)}',
            'test_suite_with_change': tests.group(1) if tests else None,
            'demo_exit_with_change': int(d1.group(1)) if d1 else None,
            'demo_exit_on_clean_tree': int(d0.group(1)) if d0 else None,
        },
        'checks_run_quick_tier': caught,
        'detected_by': sorted(k for k, v in caught.items() if v['exit'] == 1),
    }
    (dst / 'meta.json').write_text(json.dumps(rec, indent=1) + '\n')
    return rec


if __name__ == '__main__':
    args = [a for a in sys.argv[1:] if not a.startswith('--')]
    do_eval = '--eval' in sys.argv
    ids = args or [s for s in SEEDS if source_dir(s).exists() or (SEEDED / s).exists()]
    for sid in ids:
        archive(sid)
        if do_eval:
            evaluate(sid)
        if (SEEDED / sid / 'eval.txt').exists():
            r = meta(sid)
            print(sid, r['confirmed']['test_suite_with_change'], 'demo', r['confirmed']['demo_exit_with_change'],
                  r['confirmed']['demo_exit_on_clean_tree'], 'detected_by', r['detected_by'])
