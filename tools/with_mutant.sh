#!/bin/bash
# usage: tools/with_mutant.sh <patch.diff> <command...>
# Copies /repo's working tree to a scratch dir outside /repo and /verif, applies
# the patch there, runs the command with AEIC_VERIF_REPO pointing at the copy,
# and removes the copy.  Exit status = the command's.
set -u
patch="$(realpath "$1")"; shift
dir=$(mktemp -d /var/tmp/aeic-mut-XXXXXX)
rsync -a --exclude .git --exclude __pycache__ /repo/ "$dir/"
if ! (cd "$dir" && patch -p1 -s < "$patch"); then
  echo "MUTANT-PATCH-FAILED $patch"; rm -rf "$dir"; exit 3
fi
AEIC_VERIF_REPO="$dir" "$@"
rc=$?
rm -rf "$dir"
exit $rc
