#!/bin/bash
# Run the repository's pinned test suite (guard off) and print the summary line.
cd /repo && env -u MIT_LAE_AEIC_VERIF /venv/bin/python -m pytest -q -p no:cacheprovider --timeout=900 --continue-on-collection-errors 2>&1 | grep -E "passed|failed|error" | tail -3
