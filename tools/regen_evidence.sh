#!/bin/bash
# Re-run every quick check (VERIF_SEED=1) against /repo itself, 4 at a time, so that evidence/*.json is what the
# registered commands produce on the current tree; then validate the files against the schema.
ids="C01 C02 C03 C04 C05 C06 C07 C08 C09 C10 C11 C12 C13 C14 C15 C16 C17 C18 C19 C20"
unset AEIC_VERIF_REPO VERIF_IGNORE_KNOWN VERIF_MAX_VIOLATIONS
for p in $ids; do echo $p; done | xargs -P 4 -I{} bash -c 'VERIF_SEED=1 ./check {} --tier quick > .work/regen_{}.txt 2>&1; echo "{} rc=$? $(tail -1 .work/regen_{}.txt | cut -c1-120)"'
python3-vt - <<'PY'
import json,glob,jsonschema
sch=json.load(open('/root/.vp/EVIDENCE.schema.json'))
for f in sorted(glob.glob('/verif/evidence/*.json')):
    e=json.load(open(f)); jsonschema.validate(e,sch)
    assert e['tier']=='quick' and e['seed']==1, f
print('evidence valid')
PY
