#!/bin/bash
# Offline setup: make sure hypothesis is importable by /venv/bin/python.
cd "$(dirname "$0")" || exit 2
PY=/venv/bin/python
if ! $PY -c 'import hypothesis' 2>/dev/null; then
  $PY -m pip install -q --no-index --find-links /opt/veriftools/wheels --target .deps hypothesis || exit 2
fi
mkdir -p .work evidence
PYTHONPATH="$PWD/.deps" $PY -c 'import hypothesis, sys; print("hypothesis", hypothesis.__version__)'
