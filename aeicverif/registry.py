"""Which properties have a registered check, and what each claims."""

CHECKS = {
    'C18': {
        'category': 'exploration',
        'technique': 'Hypothesis rule-based state machine vs three-state reference model',
        'text': 'Model-based stateful PBT: generated histories of valid loads, nine kinds of invalid load, resets, '
        'reads and attribute mutations at every nesting level are compared after every step with a reference '
        'machine {unconfigured, configured(values)}; expected values are merged leaf-wise by the harness from the '
        'packaged TOML. Absence is not established; histories are bounded at 25 steps.',
        'note': 'Trusted: tomllib, Hypothesis. Mutation = attribute assignment. Unknown keys not generated.',
    },
}

NOT_YET = {}
