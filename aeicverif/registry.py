"""Which properties have a registered check, and what each claims."""

CHECKS = {
    'C18': {
        'category': 'exploration',
        'technique': 'Hypothesis rule-based state machine vs three-state reference model',
        'text': 'Model-based stateful PBT: generated histories of valid loads, nine kinds of invalid load, resets, '
        'reads and attribute mutations at every nesting level are compared after every step with a reference '
        'machine {unconfigured, configured(values)}; expected values are merged leaf-wise by the harness from the '
        'packaged TOML. Absence is not established; histories are bounded at 25 steps.',
        'note': 'Trusted: tomllib, Hypothesis. Mutation = attribute assignment. Unknown keys not generated.',
    },
    'C03': {
        'category': 'exploration',
        'technique': 'Hypothesis round-trip PBT with generated field sets vs independent field-by-field model',
        'text': 'Generated field sets (six dimension shapes x f8/f4/i4/i8/str, required/optional/default), trajectories with '
        'arbitrary species subsets and unset optional fields, four file layouts (file, memory+save, base+associated, '
        'create_associated) and an append session; every trajectory read back in-session, after reopen and after append is '
        'compared bitwise/exactly with the generated description. Bounded search, no absence claim.',
        'note': 'Trusted: netCDF4/HDF5, numpy. NaN/inf/fill values and zero-point trajectories excluded. One known finding '
        '(unset optional string reads as empty string, pinned by the repository test_read_nulls).',
    },
    'C06': {
        'category': 'exploration',
        'technique': 'Hypothesis differential PBT: generated tables/PTF files vs own bilinear reference and unit constants',
        'text': 'Generated valid tables (any level set, three masses, rows/columns in any order), node exactness (also in '
        'metres), own bilinear reference between nodes, continuity, dependence only on (altitude, mass, phase), refusal '
        'outside the envelope, symbolic min/max mass, 11 kinds of malformed table refused, generated PTF text through '
        'PTFData.load/build_performance_table/the CLI reproduces every row after unit conversion.',
        'note': 'Trusted: numpy, pandas, scipy.interpn only as code under test. Level spacing >= 0.08 FL; interior queries kept '
        '2e-3 away from nodes.',
    },
    'C07': {
        'category': 'exploration',
        'technique': 'Hypothesis rule-based state machine vs Python list model',
        'text': 'Model-based stateful PBT over one store file: create/add/read/iterate/sync/close/reopen(read|append)/save with '
        'cache sizes that force evictions; after every rule len and three indices, and at teardown a full rescan after '
        'reopen, must equal the list model. Histories bounded at 40 steps.',
        'note': 'Trusted: netCDF4, cachetools. Cache >= 1 MB and each trajectory fits.',
    },
    'C08': {
        'category': 'exploration',
        'technique': 'Hypothesis rule-based state machine vs dict model (ids in arbitrary order, stale index, append, merge)',
        'text': 'Stateful PBT over identified stores: distinct int64 ids in arbitrary order, lookups of present/absent ids '
        'immediately after adds, across sync/close/reopen/append, rejected unidentified additions, and a terminal merge with '
        'further stores followed by lookup of every id, against a dictionary model; one store with more than 1024 (thorough 2048) trajectories '
        'per run with every id looked up before/after sync and after reopening.',
        'note': 'Lookup in a never-saved in-memory store is not claimed. Ids unique; fill value excluded.',
    },
    'C12': {
        'category': 'exploration',
        'technique': 'Hypothesis differential PBT vs independent scalar implementations of the cited equations + algebraic laws',
        'text': 'Nine sub-checks (ISA, SLS fuel flow, thrust category, BFFM2 NOx, HC/CO, SOx, FOA3/fuel-flow PMvol, SCOPE11, '
        'MEEM laws) compare the public functions with math-module references written from the cited equations at rel 1e-9, '
        'plus inverse/continuity/conservation/linearity/monotonicity laws; references self-tested against published and '
        'pinned values at start-up.',
        'note': 'MEEM held to the stated laws only. One known finding (MEEM NaN for low-top climbs; repair would change a value '
        'pinned by tests/test_emissions.py).',
    },
    'C13': {
        'category': 'exploration',
        'technique': 'Hypothesis PBT: generated OAG rows/CSV files vs pure-Python oracle (zoneinfo, pyproj) over the SQLite tables',
        'text': 'Generated schedule files (1-4 literal OAG rows; airport pairs incl. date line and fractional offsets; ranges incl. '
        'open-ended, DST-spanning; weekday sets; arrival-day codes; distances around the decision band; skip reasons) '
        'imported row-wise and through convert_oag_data; flights/schedules/airports tables and warnings compared with the '
        'oracle.',
        'note': 'Trusted: zoneinfo, pyproj, sqlite SELECT. 76 hand-recorded zones verified against timezonefinder at start-up. One '
        'known finding (distance rule called with lat/lon swapped; pinned by tests/test_mission_db_creation.py).',
    },
    'C14': {
        'category': 'exploration',
        'technique': 'Hypothesis differential PBT: generated databases and queries vs naive Python executor over SELECT *',
        'text': 'Generated and shipped databases; queries over every filter field, legal/illegal spatial mixes, dates, '
        'every-nth, limit/offset, sampling, count and frequent-route queries, re-execution/to_sql/interleaved histories; '
        'results compared with a Python evaluation of the predicate (ties as multisets, sampling by exact binomial bounds).',
        'note': 'Sampling is bounded (tail 1e-12), not decided. Empty lists and invalid numeric options not generated.',
    },
    'C09': {
        'category': 'exploration',
        'technique': 'Hypothesis PBT: generated merge scenarios vs concatenated list/dict model',
        'text': 'Generated merges of 1-5 stores of uneven sizes (three layouts incl. separately merged associated files, '
        'identified or not, explicit lists in non-name order or numbered patterns, equal or differing species per input): '
        'length, every index (so every seam), IndexError beyond the end, iteration, every id and an unknown id are '
        'compared with the concatenation model; mismatching field sets / identifier mixes must be refused.',
        'note': 'Trusted: netCDF4. Ids unique across inputs; input names distinct.',
    },
    'C10': {
        'category': 'fault_enumeration',
        'technique': 'stateful PBT with rejected-addition rules + exhaustive crash-point injection per generated merge scenario',
        'text': '(a) the store state machine with five kinds of rejected addition at any position (first add, append sessions) '
        'and add on read-only stores: the call must raise and the store must be unchanged (invariant + full rescan). '
        '(b) for each generated merge scenario every file-system effect of a clean merge is recorded and the merge is re-run '
        'with an injected OSError before and after each one (all crash points of that scenario), plus one refusal for each '
        'of 8 validation rules; inputs must stay readable from either place, an openable output must be complete, and the '
        'retry must succeed.',
        'note': 'Crash model: a call raises before or after taking effect (no torn writes, no power loss). Interrupted merges may '
        'be recovered by moving files back; refused merges must be retryable as they are.',
    },
    'C15': {
        'category': 'exploration',
        'technique': 'Hypothesis PBT against pyproj Geod inverse/forward as trusted geodesic primitive',
        'text': 'Generated location pairs (antimeridian, polar, near-antipodal, same lat/lon, metres apart) and multi-waypoint '
        'tracks: total length, point at distance d on the shortest geodesic (both partial distances and position), step == '
        'location, overstep continues the same great circle, azimuth range and direction, refusals; Mission.gc_distance '
        'equals the track length and is symmetric (synthetic and all shipped airport pairs).',
        'note': 'Trusted: pyproj Geod(WGS84). Exactly antipodal pairs and azimuths at waypoints/poles excluded.',
    },
    'C16': {
        'category': 'exploration',
        'technique': 'Hypothesis PBT on harness-written ERA5-style files with affine wind fields (closed-form oracle) + metamorphic relations',
        'text': 'Synthetic weather files (zero/uniform/affine/non-affine fields, with/without time axis, two-day directories); '
        'ground speed compared with hypot(TAS sin h + u, TAS cos h + v), tail/head-wind, rotation invariance, bounds and '
        'refusal outside the domain on all six sides.',
        'note': 'One known finding (east/north components exchanged; the repair would change the value pinned by '
        'tests/test_weather.py::test_compute_ground_speed); the check continues under that hypothesis and attributes any '
        'other deviation to a different signature.',
    },
    'C19': {
        'category': 'exploration',
        'technique': 'Hypothesis differential PBT vs independent scalar BADA-3 implementation + integration invariants',
        'text': 'Generated parameter sets for jet/turboprop/piston and flight profiles; thrust, drag, fuel flow, specific ground '
        'range and the four iterate_flight_simulation variants are compared with a plain-Python reference of the BADA-3 '
        'equations (rel 1e-9), plus anchor/monotonicity/per-step trapezoid/MTOW invariants on the returned vectors.',
        'note': 'Parameter objects are built with the library\'s own Bada3AircraftParameters. Cases within 1e-9 of a branch are skipped.',
    },
    'C20': {
        'category': 'exploration',
        'technique': 'trace-driven deterministic scheduler: exhaustive DFS over line-level interleavings, bytecode-level schedules with one (thorough: two) preemptions, Hypothesis sequential histories',
        'text': 'Two real threads race to create their first store; a settrace hook stops each before every store.py source line '
        'in the constructor guard and a controller enumerates all scheduling decisions by depth-first re-execution '
        '(exhaustive at line granularity); exactly one attempt must succeed. The same at bytecode granularity (f_trace_opcodes) for every '
        'schedule with one preemption (thorough: two). Sequential histories over three threads (create via factory, subclass or plain '
        'constructor, open for read/append, close, drop, failing constructor calls) against the first-creator-owns model.',
        'note': 'Exhaustive at line granularity only; bytecode level is preemption-bounded. CPython with GIL; racing threads create in-memory stores only (no HDF5 code runs concurrently).',
    },
    'C01': {
        'category': 'exploration',
        'technique': 'Hypothesis PBT: generated trajectories/fuels/engine data/configurations vs independent fsum re-summation of the inventory',
        'text': 'Generated trajectories (zero-burn segments, every window class, stratospheric points, simulated missions), '
        'fuels, LTO/EDB/APU data sets, aircraft classes and one of the 41 472 option combinations; the returned Emissions value '
        'is re-summed in plain Python (segment fuel, EI x fuel, window zeroing, LTO time-in-mode fuel, APU/GSE/life-cycle, '
        'totals, counted-once, NOx/SOx speciation, finite and non-negative) without calling into AEIC.emissions.',
        'note': 'Configurations refused by name are skipped as unsupported (C11 decides those). LTO flows ordered or equal; '
        'trajectory fuel flow 0 or >= 5 % of idle flow.',
    },
    'C04': {
        'category': 'exploration',
        'technique': 'Hypothesis differential PBT vs independent parametric segment/grid reference cross-checked by dense sampling',
        'text': 'Generated grids (regular/irregular, optional altitude/time axes) and point sequences built by construction '
        '(points on grid lines and corners, legs along and hugging grid lines, westward/southward legs, zero-length segments, '
        'one antimeridian crossing); per segment and variable the pieces must sum to the value within [1, chord-sum envelope], '
        'all variables share the same shares, totals never less.',
        'note': 'Trusted: pyproj Geod. Reference self-tested and cross-checked against 20 000-sample binning on ~5 % of cases '
        '(disagreement = harness error).',
    },
    'C05': {
        'category': 'exploration',
        'technique': 'Hypothesis differential PBT vs independent parametric segment/grid reference (cumulative-interval containment)',
        'text': 'Same generator as C04; output lengths, piece counts, start-point altitude/time/state values, and for every piece '
        'the containment of its cumulative-share interval in the stretch where the map line is inside its (closed) cell, '
        'which gives correct cell, path order and share together; antimeridian leg split; no-variables code path.',
        'note': 'Coordinates at or below the first edge are outside the grid by the derived convention. Tolerance 1e-7 + '
        '1e-13/min-component.',
    },
    'C11': {
        'category': 'exploration',
        'technique': 'exhaustive enumeration of the 41 472-configuration product (thorough), pairwise array + Hypothesis draws (quick), balance oracle',
        'text': 'Every combination of the 12 documented options on a simulated and a synthetic trajectory: the outcome must be '
        'an Emissions value passing the C01 balance oracle with switched-off species absent/zero in trajectory and LTO parts, '
        'or NotImplementedError/ValueError naming the unsupported method; anything else is bucketed by exception type, AEIC '
        'frame and the minimal triggering option assignment. The thorough tier is exhaustive (82 944 evaluations).',
        'note': 'A method that is accepted and silently produces nothing is allowed if the inventory balances (the property '
        'allows returns or refuses).',
    },
    'C02': {
        'category': 'exploration',
        'technique': 'Hypothesis PBT on generated airports/tables/options with physical invariants + pyproj geodesic reference; exhaustive container enumeration',
        'text': 'Generated missions between synthetic airports (antimeridian, polar, near-antipodal, short, high elevation), '
        'perturbed and synthetic performance tables, step fractions that do not align with the 50-point buffer blocks, mass '
        'iteration and explicit starting masses; every returned trajectory is checked for mass bookkeeping, monotonicity, '
        'first point, positions on the WGS-84 great circle at the recorded distance, altitude schedule and finiteness; '
        'resampling at own and intermediate times against hand-written interpolation; exhaustive list-model comparison of '
        'the extensible container for 1..160 appends (51 520 make_point calls).',
        'note': 'Trusted: pyproj Geod. Any exception is a rejection (appropriateness is judged by C17). Tables keep |ROCD| < TAS.',
    },
    'C17': {
        'category': 'exploration',
        'technique': 'Hypothesis rule-based state machine, differential against a fresh builder instance',
        'text': 'Histories of valid flights, repeated missions and ten kinds of invalid flight (unknown airports, airport above '
        'cruise level/ceiling, out-of-envelope level or mass, too-short route, three weather failures) on one builder; every '
        'call is repeated on a fresh builder and must give bit-identical arrays/metadata or the same exception type and '
        'message; rejections must belong to the expected family and never be internal errors; no context may be left on the '
        'builder; the mass-iteration tolerance claim is checked on returned trajectories.',
        'note': 'Rejecting a flyable mission is not asserted. Histories of 16 steps.',
    },
}

NOT_YET = {}
