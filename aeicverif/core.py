"""Runner core: bootstrap, case bookkeeping, known-findings matching,
Hypothesis drivers (plain and stateful), sharding, evidence and replay files.

Exit codes: 0 = property held on everything explored (known findings are
printed as KNOWN-FINDING lines), 1 = violation (VIOLATION line printed),
2 = harness error (never prints VIOLATION).
"""

from __future__ import annotations

import hashlib
import importlib
import json
import os
import shutil
import subprocess
import sys
import time
import traceback
from collections import Counter
from pathlib import Path

VERIF = Path(__file__).resolve().parent.parent
REPO = Path(os.environ.get('AEIC_VERIF_REPO', '/repo')).resolve()
WORK = VERIF / '.work'
# Runs against a scratch copy (sensitivity experiments) must not overwrite the
# evidence and replay files of the real tree.
SCRATCH_RUN = 'AEIC_VERIF_REPO' in os.environ and REPO != Path('/repo')
OUT = (WORK / 'scratch-run') if SCRATCH_RUN else VERIF
GUARD = 'MIT_LAE_AEIC_VERIF'


class HarnessError(Exception):
    """Something is wrong with the harness or its environment (exit 2)."""


class Violation(AssertionError):
    """A discrepancy between the code under test and the oracle."""

    def __init__(self, signature: str, detail: str):
        super().__init__(f'{signature} :: {detail}')
        self.signature = signature
        self.detail = detail


class AlreadyReported(Exception):
    """Raised by ctx.fail for a signature already reported in this run: the
    case is abandoned (counted as passing) and the search goes on."""


def _pass_through():
    try:
        from hypothesis.errors import UnsatisfiedAssumption, StopTest

        return (Violation, HarnessError, AlreadyReported, UnsatisfiedAssumption, StopTest)
    except ImportError:  # pragma: no cover
        return (Violation, HarnessError, AlreadyReported)


# Exceptions a property body must never swallow: put
# `except core.PASS_THROUGH: raise` before any broad `except Exception` that
# surrounds ctx.fail()/ctx.fail_exc() calls.
PASS_THROUGH = _pass_through()


# --------------------------------------------------------------------------
# bootstrap


_BOOTSTRAPPED = False


def bootstrap() -> None:
    """Make `import AEIC` see the tree under test and `import hypothesis` work."""
    global _BOOTSTRAPPED
    if _BOOTSTRAPPED:
        return
    os.environ[GUARD] = '1'
    src = str(REPO / 'src')
    if src in sys.path:
        sys.path.remove(src)
    sys.path.insert(0, src)
    deps = VERIF / '.deps'
    if deps.is_dir() and str(deps) not in sys.path:
        sys.path.append(str(deps))
    try:
        import hypothesis  # noqa: F401
    except ImportError as e:  # pragma: no cover
        raise HarnessError(
            'hypothesis is not importable; run MANIFEST.setup_cmd first'
        ) from e
    # shapely is not installed; AEIC.gridding.grid needs the name only for
    # grid_polygon, which no property touches.
    try:
        import shapely.geometry  # noqa: F401
    except ImportError:
        import types

        shapely = types.ModuleType('shapely')
        geometry = types.ModuleType('shapely.geometry')

        class Polygon:  # pragma: no cover
            def __init__(self, *a, **k):
                raise RuntimeError('shapely stub: Polygon is not available')

        geometry.Polygon = Polygon
        shapely.geometry = geometry
        sys.modules['shapely'] = shapely
        sys.modules['shapely.geometry'] = geometry
    os.environ['AEIC_PATH'] = str(REPO / 'tests' / 'data')
    import AEIC

    where = Path(AEIC.__file__).resolve()
    if not str(where).startswith(src):
        raise HarnessError(f'AEIC imported from {where}, expected under {src}')
    import warnings

    warnings.filterwarnings('ignore')
    _BOOTSTRAPPED = True


TEST_DATA = REPO / 'tests' / 'data'


def load_config(**kwargs):
    """Reset and load the configuration the way the repository's tests do."""
    from AEIC.config import Config

    Config.reset()
    return Config.load(**kwargs, data_path_overrides=[TEST_DATA])


def reset_config():
    from AEIC.config import Config

    Config.reset()


# --------------------------------------------------------------------------
# known findings


def load_known_findings(pid: str) -> dict[str, dict]:
    path = VERIF / 'known_findings.jsonl'
    out = {}
    if not path.exists():
        return out
    for line in path.read_text().splitlines():
        line = line.strip()
        if not line or line.startswith('#'):
            continue
        if line.startswith('fixed:'):
            continue  # fixed entries suppress nothing
        rec = json.loads(line)
        if rec.get('property') == pid and rec.get('status') == 'known':
            out[rec['signature']] = rec
    return out


# --------------------------------------------------------------------------
# helpers


def aeic_frame(exc: BaseException) -> str:
    """Innermost traceback frame inside the AEIC package, as module.function."""
    tb = exc.__traceback__
    best = '?'
    src = str(REPO / 'src' / 'AEIC')
    while tb is not None:
        fn = tb.tb_frame.f_code.co_filename
        if fn.startswith(src):
            mod = Path(fn).stem
            best = f'{mod}.{tb.tb_frame.f_code.co_name}'
        tb = tb.tb_next
    return best


def jsonable(x, depth=0):
    import numpy as np

    if depth > 12:
        return repr(x)
    if isinstance(x, (str, int, bool)) or x is None:
        return x
    if isinstance(x, float):
        return x if x == x and abs(x) != float('inf') else repr(x)
    if isinstance(x, (np.integer,)):
        return int(x)
    if isinstance(x, (np.floating,)):
        return jsonable(float(x))
    if isinstance(x, np.ndarray):
        return [jsonable(v, depth + 1) for v in x.tolist()]
    if isinstance(x, dict):
        return {str(k): jsonable(v, depth + 1) for k, v in x.items()}
    if isinstance(x, (list, tuple, set, frozenset)):
        return [jsonable(v, depth + 1) for v in x]
    if isinstance(x, Path):
        return str(x)
    return repr(x)


def short_hash(obj) -> str:
    return hashlib.md5(
        json.dumps(jsonable(obj), sort_keys=True).encode()
    ).hexdigest()[:12]


# --------------------------------------------------------------------------
# per-run context


class Ctx:
    def __init__(self, pid: str, tier: str, seed: int, shard: int = 0, nshards: int = 1):
        self.pid = pid
        self.tier = tier
        self.seed = seed
        self.shard = shard
        self.nshards = nshards
        self.level = 'exploration'
        self.rule = ''
        self.assumptions: list[str] = []
        self.evaluations = 0
        self.nontrivial: set[str] = set()
        self.labels: Counter = Counter()
        self.samples: list = []
        self.max_samples = 4
        self.excluded_known: Counter = Counter()
        # VERIF_IGNORE_KNOWN=1 (development aid): report listed findings as violations, e.g. to regenerate their replay files
        self.known = {} if os.environ.get('VERIF_IGNORE_KNOWN') == '1' else load_known_findings(pid)
        self.session_seen: set[str] = set()  # violations already reported
        self.violations: list[dict] = []
        self.last_fail: dict | None = None
        self.current_case = None
        self.exhaustive = False
        self.extra: dict = {}
        self.t0 = time.time()
        self.budget_s: float | None = None
        self._workdir: Path | None = None
        self._case_n = 0
        self.in_machine = False
        self.first_fail_t: float | None = None  # per search round
        self.best_fail: dict | None = None

    # ---- shrink budget: Hypothesis has no time bound on shrinking short of its
    # own 5-minute cap; once the budget is used up every further example is
    # rejected, which ends shrinking quickly; the smallest failing case seen
    # so far becomes the replay.
    @property
    def shrink_budget(self) -> float:
        return float(os.environ.get('VERIF_SHRINK_S', '25' if self.quick else '90'))

    def shrink_expired(self) -> bool:
        return self.first_fail_t is not None and time.time() - self.first_fail_t > self.shrink_budget

    def reject_if_shrink_expired(self):
        if self.shrink_expired():
            import hypothesis

            hypothesis.reject()

    def new_round(self):
        self.first_fail_t = None
        self.best_fail = None
        self.last_fail = None

    # ---- tiers
    @property
    def quick(self) -> bool:
        return self.tier == 'quick'

    def n(self, quick: int, thorough: int) -> int:
        """Number of cases for this process (thorough is per shard)."""
        return quick if self.quick else thorough

    def hseed(self, salt: int = 0) -> int:
        return self.seed * 100003 + self.shard * 101 + salt

    def out_of_time(self) -> bool:
        return self.budget_s is not None and time.time() - self.t0 > self.budget_s

    # ---- bookkeeping
    def case(self, case=None):
        self.evaluations += 1
        self.current_case = case

    def label(self, *names: str):
        for nme in names:
            self.labels[nme] += 1

    def mark_nontrivial(self, key):
        self.nontrivial.add(key if isinstance(key, str) else short_hash(key))

    def sample(self, obj):
        if len(self.samples) < self.max_samples:
            self.samples.append(jsonable(obj))

    # ---- verdicts
    def fail(self, clause: str, kind: str, where: str, disc: str, detail: str, case=None):
        """Report a discrepancy.  Returns normally if it is a listed known
        finding (counted), raises Violation otherwise."""
        sig = f'{self.pid}:{clause}:{kind}:{where}:{disc}'
        if sig in self.known:
            self.excluded_known[sig] += 1
            return sig
        if sig in self.session_seen:
            # already reported in this run; abandon this case and keep
            # searching for other causes
            if self.in_machine:
                import hypothesis

                hypothesis.reject()
            raise AlreadyReported(sig)
        self.last_fail = {
            'signature': sig,
            'detail': detail[:2000],
            'case': jsonable(case if case is not None else self.current_case),
        }
        if self.first_fail_t is None:
            self.first_fail_t = time.time()
        size = len(json.dumps(self.last_fail['case']))
        if self.best_fail is None or (
            size <= self.best_fail['size'] and sig == self.best_fail['rec']['signature']
        ):
            self.best_fail = {'size': size, 'rec': self.last_fail}
        raise Violation(sig, detail)

    def fail_exc(self, clause: str, exc: BaseException, disc: str = '', case=None):
        if isinstance(exc, PASS_THROUGH):
            raise exc
        where = aeic_frame(exc)
        tb = ''.join(traceback.format_exception(type(exc), exc, exc.__traceback__)[-6:])
        return self.fail(clause, type(exc).__name__, where, disc, f'{exc!r}\n{tb}', case)

    # ---- work directories
    def workdir(self) -> Path:
        if self._workdir is None:
            self._workdir = WORK / f'{self.pid}-{os.getpid()}'
            shutil.rmtree(self._workdir, ignore_errors=True)
            self._workdir.mkdir(parents=True, exist_ok=True)
        return self._workdir

    def fresh_dir(self) -> Path:
        self._case_n += 1
        d = self.workdir() / f'c{self._case_n}'
        shutil.rmtree(d, ignore_errors=True)
        d.mkdir(parents=True)
        return d

    def cleanup(self):
        if self._workdir is not None:
            shutil.rmtree(self._workdir, ignore_errors=True)

    # ---- record a violation (after shrinking)
    def record_violation(self, flaky: bool = False):
        lf = self.last_fail or {'signature': f'{self.pid}:unknown', 'detail': '', 'case': None}
        if (flaky or self.shrink_expired()) and self.best_fail is not None:
            lf = self.best_fail['rec']
        if flaky:
            lf = dict(lf, detail='[observed once, not reproduced when the same input was executed again: the result '
                                 'depends on earlier calls in the process] ' + lf['detail'])
        sig = lf['signature']
        self.session_seen.add(sig)
        rdir = OUT / 'replays' / self.pid
        rdir.mkdir(parents=True, exist_ok=True)
        path = rdir / f'{hashlib.md5(sig.encode()).hexdigest()[:10]}.json'
        rec = {
            'property': self.pid,
            'signature': sig,
            'detail': lf['detail'],
            'case': lf['case'],
            'seed': self.seed,
            'tier': self.tier,
        }
        path.write_text(json.dumps(rec, indent=1, sort_keys=True))
        self.violations.append({'signature': sig, 'replay': str(path), 'detail': lf['detail'][:400]})
        self.last_fail = None
        return path

    # ---- partial results for sharding
    def to_partial(self) -> dict:
        return {
            'evaluations': self.evaluations,
            'nontrivial': sorted(self.nontrivial),
            'labels': dict(self.labels),
            'samples': self.samples,
            'excluded_known': dict(self.excluded_known),
            'violations': self.violations,
            'exhaustive': self.exhaustive,
            'extra': self.extra,
            'level': self.level,
            'rule': self.rule,
            'assumptions': self.assumptions,
        }

    def merge_partial(self, p: dict):
        self.evaluations += p['evaluations']
        self.nontrivial.update(p['nontrivial'])
        self.labels.update(p['labels'])
        for s in p['samples']:
            if len(self.samples) < self.max_samples:
                self.samples.append(s)
        self.excluded_known.update(p['excluded_known'])
        known_sigs = {v['signature'] for v in self.violations}
        for v in p['violations']:
            if v['signature'] not in known_sigs:
                self.violations.append(v)
                known_sigs.add(v['signature'])
        self.level = p['level']
        self.rule = p['rule']
        self.assumptions = p['assumptions']
        for k, v in p.get('extra', {}).items():
            if isinstance(v, (int, float)) and isinstance(self.extra.get(k), (int, float)):
                self.extra[k] += v
            else:
                self.extra.setdefault(k, v)

    def write_evidence(self, exhaustive: bool | None = None):
        ev = {
            'property_id': self.pid,
            'tier': self.tier,
            'seed': self.seed,
            'level': self.level,
            'coverage': {
                'evaluations': self.evaluations,
                'distinct_nontrivial': len(self.nontrivial),
                'rule': self.rule,
                'samples': self.samples,
                'labels': dict(sorted(self.labels.items())),
                'excluded_known_findings': dict(self.excluded_known),
                'exhaustive': bool(self.exhaustive if exhaustive is None else exhaustive),
                'shards': self.nshards,
                **self.extra,
            },
            'assumptions': self.assumptions,
            'wall_s': round(time.time() - self.t0, 2),
            'violations': len(self.violations),
        }
        d = OUT / 'evidence'
        d.mkdir(parents=True, exist_ok=True)
        (d / f'{self.pid}.json').write_text(json.dumps(ev, indent=1, sort_keys=True))
        return ev


# --------------------------------------------------------------------------
# Hypothesis drivers


def _settings(max_examples: int, stateful_steps: int | None = None, shrink: bool = True):
    from hypothesis import HealthCheck, Phase, settings

    phases = [Phase.explicit, Phase.generate, Phase.target]
    if shrink:
        phases.append(Phase.shrink)
    kw = dict(
        max_examples=max_examples,
        deadline=None,
        database=None,
        derandomize=False,
        report_multiple_bugs=False,
        suppress_health_check=list(HealthCheck),
        phases=phases,
        print_blob=False,
    )
    if stateful_steps is not None:
        kw['stateful_step_count'] = stateful_steps
    return settings(**kw)


MAX_DISTINCT_VIOLATIONS = int(os.environ.get('VERIF_MAX_VIOLATIONS', '4'))


def _is_flaky(e: BaseException) -> bool:
    try:
        from hypothesis.errors import Flaky

        return isinstance(e, Flaky)
    except ImportError:  # pragma: no cover
        return False


def run_given(ctx: Ctx, strategy, body, max_examples: int, salt: int = 0, shrink: bool = True):
    """Run `body(case)` over cases drawn from `strategy`.  `body` calls
    ctx.case()/ctx.fail().  Collects up to MAX_DISTINCT_VIOLATIONS distinct
    signatures (each shrunk), so one shallow defect does not hide the rest."""
    from hypothesis import given, seed

    ctx.in_machine = False
    rounds = 0
    while rounds < MAX_DISTINCT_VIOLATIONS:
        rounds += 1
        if rounds > 1:
            max_examples = max(10, max_examples // 2)  # later rounds only look for further causes

        ctx.new_round()

        @seed(ctx.hseed(salt + rounds - 1))
        @_settings(max_examples, shrink=shrink)
        @given(strategy)
        def test(case):
            ctx.reject_if_shrink_expired()
            try:
                body(case)
            except AlreadyReported:
                return

        try:
            test()
            return
        except Violation:
            ctx.record_violation()
        except HarnessError:
            raise
        except BaseException as e:  # unexpected exception escaping the body
            if isinstance(e, (KeyboardInterrupt, SystemExit)):
                raise
            if ctx.best_fail is not None and _is_flaky(e):
                # the oracle saw a violation on the real code, but re-executing the same input did not reproduce it:
                # the outcome depends on what ran before in this process (state leaking between calls)
                ctx.record_violation(flaky=True)
                continue
            if ctx.violations and type(e).__name__ == 'Unsatisfiable':
                return  # every further case hits an already reported cause
            if type(e).__module__.startswith('hypothesis'):
                raise HarnessError(f'hypothesis error: {e!r}') from e
            # An exception that the body did not classify: report it under a
            # generic clause, with the AEIC frame as root-cause key.  If no
            # frame of the code under test is involved it is a defect of the
            # harness (generator, oracle), never a violation.
            if aeic_frame(e) == '?':
                raise HarnessError(f'exception outside the code under test: {e!r}\n' + ''.join(traceback.format_exception(e))[-3000:]) from e
            try:
                ctx.fail_exc('unclassified', e)
            except Violation:
                ctx.record_violation()
            except AlreadyReported:
                return


def run_machine(ctx: Ctx, machine_cls, max_examples: int, steps: int, salt: int = 0, shrink: bool = True):
    """Run a RuleBasedStateMachine subclass; machine instances must take no
    arguments and find the Ctx through the class attribute `ctx`."""
    from hypothesis import seed
    from hypothesis.stateful import run_state_machine_as_test

    machine_cls.ctx = ctx
    ctx.in_machine = True
    rounds = 0
    while rounds < MAX_DISTINCT_VIOLATIONS:
        rounds += 1
        ctx.new_round()
        if rounds > 1:
            max_examples = max(10, max_examples // 2)  # later rounds only look for further causes
        seeded = seed(ctx.hseed(salt + rounds - 1))(machine_cls)
        try:
            run_state_machine_as_test(seeded, settings=_settings(max_examples, steps, shrink))
            return
        except Violation:
            ctx.record_violation()
        except HarnessError:
            raise
        except BaseException as e:
            if isinstance(e, (KeyboardInterrupt, SystemExit)):
                raise
            if ctx.best_fail is not None and _is_flaky(e):
                # the oracle saw a violation on the real code, but re-executing the same input did not reproduce it:
                # the outcome depends on what ran before in this process (state leaking between calls)
                ctx.record_violation(flaky=True)
                continue
            if ctx.violations and type(e).__name__ == 'Unsatisfiable':
                return  # every further case hits an already reported cause
            if type(e).__module__.startswith('hypothesis'):
                raise HarnessError(f'hypothesis error: {e!r}') from e
            if aeic_frame(e) == '?':
                raise HarnessError(f'exception outside the code under test: {e!r}\n' + ''.join(traceback.format_exception(e))[-3000:]) from e
            try:
                ctx.in_machine = False  # outside Hypothesis here: AlreadyReported instead of reject()
                ctx.fail_exc('unclassified', e)
            except Violation:
                ctx.record_violation()
            except AlreadyReported:
                return
            finally:
                ctx.in_machine = True


# --------------------------------------------------------------------------
# main


def prop_module(pid: str):
    return importlib.import_module(f'aeicverif.props.{pid.lower()}')


def finish(ctx: Ctx) -> int:
    ctx.write_evidence()
    for sig, cnt in sorted(ctx.excluded_known.items()):
        rec = ctx.known[sig]
        print(f'KNOWN-FINDING: property={ctx.pid} {rec["what"]} [signature={sig} hits={cnt}]')
    for v in ctx.violations:
        print(f'VIOLATION property={ctx.pid} replay={v["replay"]}')
        print(f'  signature: {v["signature"]}')
        print('  ' + v['detail'].replace('\n', '\n  ')[:600])
    print(
        f'{ctx.pid} tier={ctx.tier} seed={ctx.seed} evaluations={ctx.evaluations} '
        f'distinct_nontrivial={len(ctx.nontrivial)} violations={len(ctx.violations)} '
        f'wall={time.time() - ctx.t0:.1f}s'
    )
    sys.stdout.flush()
    return 1 if ctx.violations else 0


def run_single(pid: str, tier: str, seed: int, shard: int, nshards: int, partial_out: str | None) -> int:
    bootstrap()
    mod = prop_module(pid)
    ctx = Ctx(pid, tier, seed, shard, nshards)
    try:
        mod.run(ctx)
        # saved failing inputs last: the search itself must start from a fresh process
        # (anything the code under test remembers from earlier calls is part of what is tested)
        if shard == 0:
            run_regressions(ctx, mod)
    finally:
        ctx.cleanup()
    if partial_out:
        Path(partial_out).write_text(json.dumps(ctx.to_partial()))
        return 0
    return finish(ctx)


def run_regressions(ctx: Ctx, mod):
    """Seconds-long replay tier: every saved failing input of this property
    (shrunk cases of defects that were repaired or recorded, and of seeded
    changes) is re-run as a plain regression check, without Hypothesis."""
    rdir = VERIF / 'regress' / ctx.pid
    if not rdir.is_dir() or not hasattr(mod, 'replay'):
        return
    main = ctx
    # a context of its own: replay() may leave per-replay state on the context
    ctx = Ctx(main.pid, main.tier, main.seed, main.shard, main.nshards)
    ctx._workdir = main.workdir()
    try:
        _run_regressions(ctx, mod, rdir)
    finally:
        main.evaluations += ctx.evaluations
        main.excluded_known.update(ctx.excluded_known)
        main.violations.extend(ctx.violations)
        main.session_seen |= ctx.session_seen
        main.extra['regression_inputs_replayed'] = ctx.extra.get('regression_inputs_replayed', 0)


def _run_regressions(ctx: Ctx, mod, rdir):
    n = 0
    for f in sorted(rdir.glob('*.json')):
        try:
            rec = json.loads(f.read_text())
        except ValueError as e:
            raise HarnessError(f'unreadable regression file {f}: {e}') from e
        n += 1
        ctx.new_round()
        try:
            mod.replay(ctx, rec['case'])
        except Violation:
            ctx.record_violation()
        except AlreadyReported:
            pass
        except HarnessError:
            raise
        except Exception as e:  # noqa: BLE001
            if type(e).__name__ == 'UnsatisfiedAssumption':
                continue
            try:
                ctx.fail_exc('regression.unclassified', e, f.name)
            except Violation:
                ctx.record_violation()
            except AlreadyReported:
                pass
    ctx.extra['regression_inputs_replayed'] = n


def run_sharded(pid: str, tier: str, seed: int, nshards: int) -> int:
    bootstrap()
    ctx = Ctx(pid, tier, seed, 0, nshards)
    pdir = WORK / f'{pid}-shards-{os.getpid()}'
    shutil.rmtree(pdir, ignore_errors=True)
    pdir.mkdir(parents=True)
    procs = []
    env = dict(os.environ, PYTHONHASHSEED='0')
    for k in range(nshards):
        out = pdir / f'shard{k}.json'
        log = open(pdir / f'shard{k}.log', 'w')
        p = subprocess.Popen(
            [sys.executable, '-m', 'aeicverif', pid, '--tier', tier, '--seed', str(seed),
             '--shard', f'{k}/{nshards}', '--partial-out', str(out)],
            cwd=str(VERIF), env=env, stdout=log, stderr=subprocess.STDOUT,
        )
        procs.append((p, out, log, k))
    harness_err = False
    for p, out, log, k in procs:
        rc = p.wait()
        log.close()
        if rc != 0 or not out.exists():
            harness_err = True
            sys.stderr.write(f'shard {k} failed rc={rc}\n')
            sys.stderr.write((pdir / f'shard{k}.log').read_text()[-3000:])
            continue
        ctx.merge_partial(json.loads(out.read_text()))
    mod = prop_module(pid)
    if hasattr(mod, 'shards_exhaustive'):
        ctx.exhaustive = mod.shards_exhaustive
    shutil.rmtree(pdir, ignore_errors=True)
    if harness_err:
        print(f'HARNESS-ERROR property={pid}: a shard failed')
        return 2
    return finish(ctx)


def run_replay(pid: str, path: str) -> int:
    bootstrap()
    mod = prop_module(pid)
    rec = json.loads(Path(path).read_text())
    ctx = Ctx(pid, 'quick', int(rec.get('seed', 1)))
    ctx.known = {}  # a replay shows the behaviour, listed or not
    try:
        try:
            mod.replay(ctx, rec['case'])
        except Violation as v:
            print(f'VIOLATION property={pid} replay={path}')
            print(f'  signature: {v.signature}')
            print('  ' + v.detail.replace('\n', '\n  ')[:1500])
            return 1
    finally:
        ctx.cleanup()
    print(f'{pid} replay {path}: no violation')
    return 0


def main(argv=None) -> int:
    import argparse

    ap = argparse.ArgumentParser(prog='check')
    ap.add_argument('pid')
    ap.add_argument('--tier', default=os.environ.get('VERIF_TIER', 'quick'), choices=['quick', 'thorough'])
    ap.add_argument('--seed', type=int, default=int(os.environ.get('VERIF_SEED', '1') or 1))
    ap.add_argument('--shard', default=None)
    ap.add_argument('--partial-out', default=None)
    ap.add_argument('--replay', default=None)
    ap.add_argument('--shards', type=int, default=int(os.environ.get('VERIF_SHARDS', '16')))
    a = ap.parse_args(argv)
    pid = a.pid.upper()
    try:
        if a.replay:
            return run_replay(pid, a.replay)
        if a.shard:
            k, n = a.shard.split('/')
            return run_single(pid, a.tier, a.seed, int(k), int(n), a.partial_out)
        bootstrap()
        mod = prop_module(pid)
        if a.tier == 'thorough' and getattr(mod, 'SHARDED', True) and a.shards > 1:
            return run_sharded(pid, a.tier, a.seed, a.shards)
        return run_single(pid, a.tier, a.seed, 0, 1, None)
    except HarnessError as e:
        print(f'HARNESS-ERROR property={pid}: {e}')
        traceback.print_exc()
        return 2
    except Exception as e:  # noqa: BLE001
        print(f'HARNESS-ERROR property={pid}: unexpected {e!r}')
        traceback.print_exc()
        return 2


# --------------------------------------------------------------------------
# logged state machines (history = list of {'op':…, 'args':…}) and replay


def logged_machine_base():
    from hypothesis.stateful import RuleBasedStateMachine

    class LoggedMachine(RuleBasedStateMachine):
        ctx: Ctx = None  # set by run_machine

        def __init__(self):
            super().__init__()
            self.ctx.reject_if_shrink_expired()
            self.log: list = []
            self.ctx.case(self.log)

        def op(self, name, **args):
            self.log.append({'op': name, 'args': jsonable(args)})

    return LoggedMachine


def replay_machine(machine_cls, ctx: Ctx, case: list, invariants=('inv',)):
    machine_cls.ctx = ctx
    m = machine_cls()
    try:
        for step in case:
            getattr(m, step['op'])(**step['args'])
            for i in invariants:
                if hasattr(m, i):
                    getattr(m, i)()
    finally:
        m.teardown()
