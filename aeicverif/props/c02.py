"""C02 — simulated trajectories obey mass, time, distance and route bookkeeping.

Three sub-checks:
 A. exhaustive enumeration of the growable per-point buffers (extensible
    Trajectory and a two-field Container) against a Python list model:
    after k appends (k = 1..160) len, every attribute slice, make_point(i)
    for every i in [-k, k) and the IndexError outside that range;
 B. Hypothesis-generated flights (synthetic airports, perturbed / synthetic
    performance tables, step fractions, mass options) with the invariants of
    the property asserted on *returned* trajectories only (any exception is a
    rejection and satisfies C02);
 C. resampling of every returned trajectory with interpolate_time at its own
    time points and at generated intermediate times (hand-written linear
    interpolation as reference).
Oracles are independent of the implementation: pyproj's WGS-84 geodesic
(own Geod object), a list model, and arithmetic written out here.
"""

from __future__ import annotations

import math

from hypothesis import strategies as st

from .. import core
from . import _fly_common as fc

SHARDED = True

POS_TOL_M = 0.01        # 1 cm on the ellipsoid (pyproj round-off is ~1e-9 m; a wrong distance is off by km)
ALT_TOL_M = 1e-6        # start + i*delta reaches the end altitude only up to rounding
MASS_TOL_KG = 1e-6      # (a - s) - (f - s) vs a - f: <= 1 ulp(1e5 kg) = 1.5e-11 per step, < 1000 steps


# --------------------------------------------------------------------------
# A. container enumeration


def _container_enumeration(ctx: core.Ctx, kmax=160, collect=True):
    """`collect`: record a violation per clause and keep enumerating the other
    clauses (run); otherwise let the Violation propagate (replay)."""
    import numpy as np

    from AEIC.storage import Container, Dimension, Dimensions, FieldMetadata, FieldSet
    from AEIC.trajectories.trajectory import Trajectory

    if not FieldSet.known('c02_probe'):
        FieldSet(
            'c02_probe',
            pp_a=FieldMetadata(description='per-point a'),
            pp_b=FieldMetadata(description='per-point b', field_type=np.int32),
            pt_c=FieldMetadata(description='per-trajectory c', dimensions=Dimensions(Dimension.TRAJECTORY)),
        )
    checked = 0
    skip: set = set()  # clauses already reported (violation or known finding)

    def report(clause, kind, where, disc, detail, case):
        if clause in skip:
            return
        skip.add(clause)
        try:
            ctx.fail(clause, kind, where, disc, detail, case=case)
        except core.Violation:
            if not collect:
                raise
            ctx.record_violation()

    for label, make in (('Trajectory', lambda: Trajectory()), ('Container', lambda: Container(fieldsets=['c02_probe']))):
        cont = make()
        fields = sorted(f for f in cont._data_dictionary if Dimension.POINT in cont._data_dictionary[f].dimensions)
        model: dict[str, list] = {f: [] for f in fields}

        def val(k, j):
            return k * 100 + j  # distinct per (append number, field)

        for k in range(1, kmax + 1):
            case = {'sub': 'container', 'class': label, 'k': k}
            ctx.case(case)
            p = cont.make_point()
            for j, f in enumerate(fields):
                setattr(p, f, val(k, j) if f == 'pp_b' else float(val(k, j)))
                model[f].append(val(k, j))
            cont.append(p)
            if len(cont) != k:
                report('container.len', 'mismatch', 'container.__len__', '', f'{label}: len {len(cont)} after {k} appends', case)
            for f in fields:
                got = getattr(cont, f)
                if len(got) != k or got.tolist() != model[f]:
                    report('container.slice', 'mismatch', 'container.__getattr__',
                           'after_expand' if k > 50 else 'first_block',
                           f'{label}.{f} after {k} appends: tail {got.tolist()[-3:]}, list model tail {model[f][-3:]}', case)
                    break
            for i in range(-k, k):
                clause = 'container.make_point_negative' if i < 0 else 'container.make_point'
                if clause in skip:
                    continue
                pt = cont.make_point(i)
                checked += 1
                bad = [(f, getattr(pt, f), model[f][i]) for f in fields if getattr(pt, f) != model[f][i]]
                if bad:
                    disc = ('size_lt_capacity' if k % 50 != 0 else 'size_eq_capacity')
                    report(clause, 'mismatch', 'container.make_point', disc,
                           f'{label}: after {k} appends make_point({i}).{bad[0][0]} = {bad[0][1]!r}, '
                           f'list model [{i}] = {bad[0][2]!r}', {**case, 'i': i})
            for i in (k, -k - 1, k + 7):
                try:
                    cont.make_point(i)
                except IndexError:
                    pass
                except Exception as e:  # noqa: BLE001
                    report('container.range', type(e).__name__, 'container.make_point', 'out_of_range_index',
                           f'{label}: make_point({i}) with {k} points raised {e!r}', case)
                else:
                    report('container.range', 'returned', 'container.make_point', 'out_of_range_index',
                           f'{label}: make_point({i}) with {k} points did not raise IndexError', case)
            if k % 50 in (1, 49, 0):
                ctx.mark_nontrivial(f'container:{label}:{k}')
        ctx.label(f'container:{label}')
    ctx.extra['container_make_point_calls'] = checked
    ctx.extra['container_enumeration'] = f'exhaustive for k=1..{kmax}, i in [-k,k), classes Trajectory and Container'


# --------------------------------------------------------------------------
# B/C. flights


def _exactly_3000ft_below(ceil_ft):
    """Origin elevation e with e + 3000 ft equal to the ceiling bit for bit
    ("that level would reach the ceiling": the flight starts at e)."""
    ceil_m = ceil_ft * fc.FT
    e = ceil_m - 3000.0 * fc.FT
    for cand in (e, math.nextafter(e, math.inf), math.nextafter(e, -math.inf)):
        if cand + 3000.0 * fc.FT == ceil_m:
            return cand
    return e


@st.composite
def flight_case(draw, stratum='general'):
    """Two strata (run separately so that the rare class has a fixed share):
    'general' and 'low_ceiling' = origin elevation around a 13000-14700 ft
    ceiling (start at the origin's own elevation when +3000 ft would reach the
    ceiling; rejection when the origin is above the ceiling)."""
    if stratum == 'low_ceiling':
        rt = draw(fc.route().filter(lambda r: r['cls'] in ('any', 'antimeridian', 'polar')))
        ceil_ft = draw(st.integers(13000, 14700))
        table = dict(draw(fc.tables(dist_km=rt['dist_km'])), max_alt_ft=ceil_ft)
        m = draw(fc.mission(rt=rt, max_alt_ft=ceil_ft, above=False))
        rel = draw(st.sampled_from(['above', 'above', 'own', 'own', 'below', 'exact', 'exact']))
        if rel == 'exact':
            m['o'][2] = _exactly_3000ft_below(ceil_ft)
            m['cls'] += '+exact_ceiling'
        else:
            off = {'above': st.floats(1.0, 400.0), 'own': st.floats(-900.0, -1.0), 'below': st.floats(-1500.0, -920.0)}[rel]
            m['o'][2] = min(4500.0, ceil_ft * fc.FT + draw(off))
        m['cls'] += '+low_ceiling'
    else:
        rt = draw(fc.route())
        table = draw(fc.tables(dist_km=rt['dist_km']))
        m = draw(fc.mission(rt=rt, max_alt_ft=table['max_alt_ft']))
        if draw(st.integers(0, 11)) == 0:
            m['o'][2] = _exactly_3000ft_below(table['max_alt_ft'])
            m['cls'] += '+exact_ceiling'
    o = draw(fc.options())
    sm = draw(st.one_of(st.none(), st.none(), st.none(), st.floats(0.45, 0.98), st.floats(0.45, 0.98), st.floats(-0.1, 1.1)))
    fr = draw(st.lists(st.tuples(st.integers(0, 10**6), st.floats(0.01, 0.99)).map(list), min_size=3, max_size=8))
    return {'sub': 'flight', 'table': table, 'mission': m, 'opts': o, 'sm_frac': sm, 'resample': fr}


def _first_bad(ok_mask):
    import numpy as np

    idx = np.nonzero(~ok_mask)[0]
    return int(idx[0]) if len(idx) else None


def _phase_of(i, n_climb, n_total, n_descent):
    if i < n_climb:
        return 'climb'
    if i < n_total - n_descent:
        return 'cruise'
    return 'descent'


def check_trajectory(ctx: core.Ctx, traj, case, pm, start_mass_in):
    """Invariants of the property on a returned trajectory.  Returns False if
    a known finding stopped the checking of this case."""
    import numpy as np

    m, o = case['mission'], case['opts']
    n = len(traj)
    A = {f: np.asarray(getattr(traj, f), dtype=float) for f in fc.POINT_FIELDS}
    nc, ncr, nd = int(traj.n_climb), int(traj.n_cruise), int(traj.n_descent)
    ceiling = pm.maximum_altitude_ft * fc.FT
    problems = []  # (clause, index, detail)

    def add(clause, i, detail):
        problems.append((clause, i, detail))

    # -- lengths and phase counts
    for f, a in A.items():
        if len(a) != n:
            add('counts', 0, f'field {f} has {len(a)} points, len(traj) = {n}')
    if min(nc, ncr, nd) < 1 or not (n - 1 <= nc + ncr + nd <= n):
        add('counts', 0, f'n_climb/n_cruise/n_descent = {nc}/{ncr}/{nd} inconsistent with {n} points')
    # -- finiteness
    for f, a in A.items():
        i = _first_bad(np.isfinite(a))
        if i is not None:
            add('finite', i, f'{f}[{i}] = {a[i]!r}')
    for f in ('starting_mass', 'total_fuel_mass'):
        v = getattr(traj, f)
        if v is None or not math.isfinite(float(v)):
            add('finite', 0, f'{f} = {v!r}')
    if problems:
        return _report(ctx, traj, case, problems, nc, ncr, nd)

    am, fm, t, gd, alt = A['aircraft_mass'], A['fuel_mass'], A['flight_time'], A['ground_distance'], A['altitude']
    # -- mass bookkeeping
    dry = am - fm
    i = _first_bad(np.abs(dry - dry[0]) <= MASS_TOL_KG)
    if i is not None:
        add('mass.balance', i, f'aircraft_mass-fuel_mass = {dry[i]!r} at point {i}, {dry[0]!r} at point 0')
    for name, arr, sign in (('fuel.monotone', fm, -1), ('mass.monotone', am, -1), ('time.monotone', t, 1),
                            ('distance.monotone', gd, 1)):
        d = np.diff(arr) * sign
        i = _first_bad(d >= 0)
        if i is not None:
            add(name, i + 1, f'{name}: value[{i}] = {arr[i]!r}, value[{i + 1}] = {arr[i + 1]!r}')
    # -- first point
    if float(am[0]) != float(traj.starting_mass):
        add('first.mass', 0, f'aircraft_mass[0] = {am[0]!r}, starting_mass = {traj.starting_mass!r}')
    if float(fm[0]) != float(traj.total_fuel_mass):
        add('first.fuel', 0, f'fuel_mass[0] = {fm[0]!r}, total_fuel_mass = {traj.total_fuel_mass!r}')
    if start_mass_in is not None and not o['iterate'] and float(traj.starting_mass) != float(start_mass_in):
        add('first.given_mass', 0, f'starting_mass = {traj.starting_mass!r}, requested {start_mass_in!r}')
    if t[0] != 0.0 or gd[0] != 0.0:
        add('first.origin', 0, f'flight_time[0] = {t[0]!r}, ground_distance[0] = {gd[0]!r}')
    # -- positions on the WGS-84 great circle at the recorded distance
    g = fc.geod()
    olat, olon, oel = m['o']
    dlat, dlon, del_ = m['d']
    az0 = g.inv(olon, olat, dlon, dlat)[0]
    elon, elat, _ = g.fwd(np.full(n, olon), np.full(n, olat), np.full(n, az0), gd)
    _, _, off = g.inv(elon, elat, A['longitude'], A['latitude'])
    i = _first_bad(np.asarray(off) <= POS_TOL_M)
    if i is not None:
        add('position', i, f'point {i}: recorded ({A["latitude"][i]!r}, {A["longitude"][i]!r}) is {off[i]:.3f} m from the '
                           f'great-circle point at ground_distance {gd[i]!r} ({elat[i]!r}, {elon[i]!r})')
    # -- altitude schedule
    a0 = oel + 3000.0 * fc.FT
    if a0 >= ceiling:
        a0 = oel
    if abs(alt[0] - a0) > ALT_TOL_M:
        add('alt.first', 0, f'altitude[0] = {alt[0]!r}, expected {a0!r} (origin elevation {oel}, ceiling {ceiling!r})')
    aN = min(del_ + 3000.0 * fc.FT, ceiling)
    if abs(alt[-1] - aN) > ALT_TOL_M:
        add('alt.last', n - 1, f'altitude[-1] = {alt[-1]!r}, expected {aN!r} (destination elevation {del_})')
    c0, c1 = nc, n - nd  # cruise slice as used by AEIC.emissions.trajectory
    if 0 < c0 < c1 <= n:
        level = alt[c0]
        i = _first_bad(np.diff(alt[:c0]) >= 0)
        if i is not None:
            add('alt.climb', i + 1, f'climb altitude decreases: {alt[i]!r} -> {alt[i + 1]!r} at {i + 1}')
        i = _first_bad(alt[c0:c1] == level)
        if i is not None:
            add('alt.cruise', c0 + i, f'cruise altitude {alt[c0 + i]!r} at {c0 + i} differs from {level!r}')
        i = _first_bad(np.diff(alt[c1 - 1:]) <= 0)
        if i is not None:
            add('alt.descent', c1 + i, f'descent altitude increases: {alt[c1 - 1 + i]!r} -> {alt[c1 + i]!r}')
        i = _first_bad(alt <= level + ALT_TOL_M)
        if i is not None:
            add('alt.max', i, f'altitude[{i}] = {alt[i]!r} exceeds the cruise level {level!r}')
        if level > ceiling + ALT_TOL_M:
            add('alt.max', c0, f'cruise level {level!r} exceeds the ceiling {ceiling!r}')
    i = _first_bad(alt <= ceiling + ALT_TOL_M)
    if i is not None:
        add('alt.max', i, f'altitude[{i}] = {alt[i]!r} exceeds the ceiling {ceiling!r}')
    if problems:
        return _report(ctx, traj, case, problems, nc, ncr, nd)
    return True


def _report(ctx, traj, case, problems, nc, ncr, nd):
    """Report the first problem.  If a phase hand-over copied a point that is
    not the last appended one (sizes at hand-over not a multiple of the 50-point
    block), all symptoms share that root cause: one signature."""
    n = len(traj)
    stale = []
    try:
        for h in (nc, nc + ncr):
            if 0 < h < n and h % 50 != 0:
                same = all(float(getattr(traj, f)[h]) == float(getattr(traj, f)[h - 1])
                           for f in ('flight_time', 'ground_distance', 'aircraft_mass', 'fuel_mass'))
                if not same:
                    stale.append(h)
    except Exception:  # noqa: BLE001  (diagnosis only)
        stale = []
    clause, i, detail = problems[0]
    if stale:
        sig = ctx.fail('handover', 'mismatch', 'container.make_point', 'phase_size_not_multiple_of_50',
                       f'first point of the next phase (index {stale[0]}) is not the last point of the previous phase; '
                       f'symptom {clause}: {detail}')
    else:
        sig = ctx.fail(clause, 'mismatch', 'legacy.LegacyBuilder', _phase_of(i, nc, n, nd), detail)
    return False if sig else True


def check_resample(ctx: core.Ctx, traj, case):
    import numpy as np

    n = len(traj)
    t = np.asarray(traj.flight_time, dtype=float)
    disc = 'size_lt_capacity' if traj._size != traj._capacity else 'size_eq_capacity'  # diagnosis only
    try:
        own = traj.interpolate_time(np.array(t))
    except core.PASS_THROUGH:
        raise
    except Exception as e:  # noqa: BLE001
        return bool(ctx.fail_exc('resample.own', e, disc)) is False
    if len(own) != n:
        if ctx.fail('resample.own', 'mismatch', 'trajectory.interpolate_time', disc, f'{len(own)} points for {n} times'):
            return False
    for f in fc.POINT_FIELDS:
        a = np.asarray(getattr(traj, f), dtype=float)
        r = np.asarray(getattr(own, f), dtype=float)
        for i in np.nonzero(r != a)[0]:
            # at duplicated time stamps any duplicate's value is acceptable
            if np.any((t == t[i]) & (a == r[i])):
                continue
            if ctx.fail('resample.own', 'mismatch', 'trajectory.interpolate_time', disc,
                        f'{f}: resampled at its own time {t[i]!r} (point {i} of {n}) gives {r[i]!r}, stored {a[i]!r}'):
                return False
            break
    for f in fc.META_FIELDS:
        if getattr(own, f) != getattr(traj, f):
            if ctx.fail('resample.meta', 'mismatch', 'trajectory.interpolate_time', f,
                        f'per-trajectory field {f}: {getattr(own, f)!r} != {getattr(traj, f)!r}'):
                return False
    # intermediate times on strictly increasing segments
    seg = np.nonzero(t[1:] > t[:-1])[0]
    if len(seg) == 0:
        return True
    picks = [(int(seg[j % len(seg)]), fr) for j, fr in case['resample']]
    tq = np.array([t[i] + fr * (t[i + 1] - t[i]) for i, fr in picks])
    try:
        mid = traj.interpolate_time(tq)
    except core.PASS_THROUGH:
        raise
    except Exception as e:  # noqa: BLE001
        return bool(ctx.fail_exc('resample.mid', e, disc)) is False
    # the resampled trajectory is a value of its own: editing the caller's time array afterwards, or the resampled
    # time axis, must change neither the other one nor the flown trajectory
    tq_before = tq.copy()
    mid_t_before = np.array(mid.flight_time, dtype=float)
    tq += 1.0e3
    if not np.array_equal(np.asarray(mid.flight_time, dtype=float), mid_t_before):
        if ctx.fail('resample.aliasing', 'mismatch', 'trajectory.interpolate_time', 'argument',
                    'the resampled trajectory\'s flight_time changed when the caller edited the array passed as new_time'):
            return False
    tq = tq_before
    own_t = np.asarray(own.flight_time)
    if isinstance(own_t, np.ndarray) and own_t.size:
        saved = np.array(t)
        try:
            own_t[...] = own_t + 5.0e3
        except (ValueError, TypeError):
            pass  # read-only view: cannot alias harmfully
        if not np.array_equal(np.asarray(traj.flight_time, dtype=float), saved):
            if ctx.fail('resample.aliasing', 'mismatch', 'trajectory.interpolate_time', 'own_times',
                        'editing the time axis of the resampled copy changed the flown trajectory\'s flight_time'):
                return False
    for f in fc.POINT_FIELDS:
        a = np.asarray(getattr(traj, f), dtype=float)
        r = np.asarray(getattr(mid, f), dtype=float)
        for q, (i, fr) in enumerate(picks):
            if not (t[i] < tq[q] < t[i + 1]):
                continue  # rounding put the query on an end point: covered above
            want = fc.lin_interp(tq[q], t[i], t[i + 1], a[i], a[i + 1])
            tol = 1e-9 * max(abs(a[i]), abs(a[i + 1]), 1e-300) + 1e-12
            if not (abs(r[q] - want) <= tol):
                if ctx.fail('resample.mid', 'mismatch', 'trajectory.interpolate_time', disc,
                            f'{f} at t = {tq[q]!r} between points {i} ({t[i]!r}: {a[i]!r}) and {i + 1} '
                            f'({t[i + 1]!r}: {a[i + 1]!r}): got {r[q]!r}, linear interpolation {want!r}'):
                    return False
    # the same at whole-second time points handed over in an integer array (a one-minute grid built with np.arange
    # is the natural way to ask for a regular resampling)
    ipicks = []
    for i, fr in picks:
        q = int(round(t[i] + fr * (t[i + 1] - t[i])))
        if t[i] < q < t[i + 1]:
            ipicks.append((i, q))
    if ipicks:
        ctx.label('resample:integer_times')
        tqi = np.array([q for _, q in ipicks], dtype=np.int64 if len(ipicks) % 2 else np.int32)
        try:
            midi = traj.interpolate_time(tqi)
        except core.PASS_THROUGH:
            raise
        except Exception as e:  # noqa: BLE001
            return bool(ctx.fail_exc('resample.mid', e, 'integer_times')) is False
        for f in fc.POINT_FIELDS:
            a = np.asarray(getattr(traj, f), dtype=float)
            r = np.asarray(getattr(midi, f), dtype=float)
            for k, (i, q) in enumerate(ipicks):
                want = fc.lin_interp(float(q), t[i], t[i + 1], a[i], a[i + 1])
                tol = 1e-9 * max(abs(a[i]), abs(a[i + 1]), 1e-300) + 1e-12
                if not (abs(r[k] - want) <= tol):
                    if ctx.fail('resample.mid', 'mismatch', 'trajectory.interpolate_time', 'integer_times',
                                f'{f} at integer t = {q} between points {i} ({t[i]!r}: {a[i]!r}) and {i + 1} '
                                f'({t[i + 1]!r}: {a[i + 1]!r}): got {r[k]!r}, linear interpolation {want!r}'):
                        return False
    return True


def flight_body(ctx: core.Ctx, case):
    import numpy as np  # noqa: F401

    ctx.case(case)
    tdesc, m, o = case['table'], case['mission'], case['opts']
    pm = fc.build_pm(tdesc)
    info = fc.table_info(tdesc)
    sm = None
    if case['sm_frac'] is not None:
        sm = info['m_lo'] + case['sm_frac'] * (info['m_hi'] - info['m_lo'])
    sizes = fc.phase_sizes(o)
    ctx.label('table:' + tdesc['kind'], 'route:' + m['cls'].split('+')[0], 'iterate:' + str(o['iterate']),
              'starting_mass:' + ('given' if sm is not None else 'computed'))
    ceiling = tdesc['max_alt_ft'] * fc.FT
    if m['o'][2] > ceiling:
        ctx.label('origin:above_ceiling')
    elif m['o'][2] + 3000 * fc.FT >= ceiling:
        ctx.label('origin:start_at_own_elevation')
        if m['o'][2] + 3000 * fc.FT == ceiling:
            ctx.label('origin:plus_3000ft_equals_ceiling')
    with fc.airports(fc.mission_airports(m)):
        mission = fc.make_mission(m)
        builder = fc.make_builder(o)
        try:
            traj = builder.fly(pm, mission, starting_mass=sm)
        except core.PASS_THROUGH:
            raise
        except Exception as e:  # noqa: BLE001  any exception is a rejection and satisfies C02
            ctx.label('rejected', f'rejected:{type(e).__name__}')
            if isinstance(e, fc.INTERNAL_ERRORS):
                ctx.label('rejected_with_internal_error(judged under C17)')
            return
    ctx.label('returned')
    n1, n2 = int(traj.n_climb), int(traj.n_climb) + int(traj.n_cruise)
    off_block = (n1 % 50 != 0) or (n2 % 50 != 0)
    crosses = abs(m['o'][1] - m['d'][1]) > 180.0
    classes = []
    if off_block:
        classes.append('handover_off_block')
    if crosses:
        classes.append('crosses_antimeridian')
    if max(abs(m['o'][0]), abs(m['d'][0])) > 80.0:
        classes.append('polar')
    if m['o'][2] > 1500.0:
        classes.append('high_origin')
    if sm is not None:
        classes.append('given_starting_mass')
    if m['o'][2] + 3000 * fc.FT >= ceiling:
        classes.append('start_at_own_elevation')
    if o['iterate']:
        classes.append('mass_iteration')
    for c in classes:
        ctx.label('returned:' + c)
    if off_block or crosses or 'polar' in classes or 'high_origin' in classes:
        ctx.mark_nontrivial({'sizes': sizes, 'm': m, 't': tdesc, 'sm': case['sm_frac']})
        ctx.sample({'case': case, 'points': len(traj), 'phases': [int(traj.n_climb), int(traj.n_cruise), int(traj.n_descent)]})
    if not check_trajectory(ctx, traj, case, pm, sm):
        return
    check_resample(ctx, traj, case)
    if len(traj) <= 120:
        # A returned trajectory is a value: flying another mission afterwards (here the reverse route, on a new
        # builder) must leave it untouched.  Only short trajectories are re-checked (cheap).
        before = {f: np.array(getattr(traj, f), copy=True) for f in ('fuel_mass', 'aircraft_mass', 'ground_distance',
                                                                     'flight_time', 'altitude', 'latitude', 'longitude')}
        m2 = dict(m, o=m['d'], d=m['o'])
        with fc.airports(fc.mission_airports(m2)):
            try:
                fc.make_builder(o).fly(pm, fc.make_mission(m2), starting_mass=None)
            except core.PASS_THROUGH:
                raise
            except Exception:  # noqa: BLE001  (a rejection of the second mission is fine)
                pass
        ctx.label('returned:rechecked_after_another_flight')
        for f, b in before.items():
            a = np.asarray(getattr(traj, f))
            if a.shape != b.shape or a.tobytes() != b.tobytes():
                ctx.fail('result.altered_by_later_flight', 'mismatch', 'base.fly', 'len<=50' if len(b) <= 50 else 'len>50',
                         f'field {f} of the returned trajectory ({len(b)} points) changed when another mission was flown')
                return


def run(ctx: core.Ctx):
    fc.selftest()
    ctx.level = 'exploration'
    ctx.rule = (
        'A: exhaustive enumeration of extensible Trajectory/Container after k = 1..160 appends against a list model '
        '(len, attribute slices, make_point(i) for all i in [-k,k), IndexError outside). '
        'B: Hypothesis cases = (performance table: shipped B738 table with smooth per-column factors, dropped flight '
        'levels, scaled/shifted masses, ceilings 13000-48000 ft, payloads, 6 row orders, or an analytic synthetic PTF-'
        'structured table; mission: synthetic origin anywhere, destination = forward point at a drawn azimuth/distance '
        '(classes any/antimeridian/polar/near-antipodal/short), elevations 0-4500 m and a few 9-15 km, load factor; '
        'options: step fractions 1/n and floats in [0.005,0.5], iterate_mass, max iterations 1-8, tolerance, optional '
        'explicit starting mass). Invariants are asserted on returned trajectories; exceptions count as rejections. '
        'C: each returned trajectory is resampled at its own times and at 3-8 intermediate times. '
        'evaluations = container states + flights. Non-trivial = returned trajectory whose phase hand-over sizes are '
        'not multiples of 50, or crossing the antimeridian, |lat| > 80, origin above 1500 m (distinct by table, route '
        'and phase sizes); plus container states at block boundaries.'
    )
    ctx.assumptions = [
        'positions are compared with pyproj Geod(WGS84).fwd from the origin along the origin->destination azimuth at the recorded ground_distance (1 cm)',
        'cruise points are traj[n_climb : len - n_descent] as used by AEIC.emissions.trajectory',
        'performance tables keep |ROCD| < TAS (physically valid); weather off (C16/C17 cover it)',
        'whether a flyable mission may be rejected is not claimed; exception types are judged under C17',
        'at duplicated time stamps either duplicate\'s value is accepted from interpolate_time',
    ]
    core.load_config()
    try:
        if ctx.shard == 0:
            _container_enumeration(ctx)
        core.run_given(ctx, flight_case('general'), lambda c: flight_body(ctx, c), max_examples=ctx.n(400, 5000), salt=1)
        core.run_given(ctx, flight_case('low_ceiling'), lambda c: flight_body(ctx, c), max_examples=ctx.n(60, 800), salt=11)
    finally:
        core.reset_config()
    ret = ctx.labels.get('returned', 0)
    rej = ctx.labels.get('rejected', 0)
    ctx.extra['returned_fraction'] = round(ret / max(1, ret + rej), 3)


def replay(ctx: core.Ctx, case):
    fc.selftest()
    core.load_config()
    try:
        if case.get('sub') == 'container':
            _container_enumeration(ctx, kmax=max(160, int(case.get('k', 160))), collect=False)
        else:
            flight_body(ctx, case)
    finally:
        core.reset_config()
