"""C15 — ground tracks and mission distances are true WGS-84 great circles.

Trusted primitive: pyproj ``Geod(ellps='WGS84')`` called *directly* by the
harness (scalar inverse/forward problems).  What is tested is AEIC's own
logic around it: cumulative waypoint index, leg selection, offsets inside a
leg, boundary handling, overstep continuation, azimuth convention, refusals,
and the argument order of ``Mission.gc_distance``.

Oracles (every expected point is routed *differently* from the implementation):
* total length        = sum of harness leg inverses (1e-6 m);
* location(d)         = point P with inv(wp_k,P)=d-c_k and inv(P,wp_k+1)=c_k+1-d
                        (1e-4 m) and P = forward from the *far* end of the leg
                        along its back azimuth by c_k+1-d (1e-4 m);
* azimuth at P        = forward azimuth of the geodesic there (back azimuth of
                        the harness' forward problem + 180), 1e-6 deg;
* step(a,b)           = location(a+b);
* overstep            = forward from the *end point* along (back azimuth+180)
                        by d-L, and forward from the last-but-one waypoint;
* refusals            = GroundTrack.Exception;
* Mission.gc_distance = harness inverse(origin, destination) = ground-track
                        length, same for the reversed mission.
"""

from __future__ import annotations

import csv
import math

from hypothesis import strategies as st

from .. import core

SHARDED = True


class _Seen(Exception):
    """The signature was already reported in this run: stop this case quietly
    (a plain return keeps Hypothesis satisfied; ctx.fail would reject())."""


def _fail(ctx, clause, kind, where, disc, detail):
    if f'{ctx.pid}:{clause}:{kind}:{where}:{disc}' in ctx.session_seen:
        raise _Seen()
    return ctx.fail(clause, kind, where, disc, detail)


def _fail_exc(ctx, clause, exc, disc=''):
    if isinstance(exc, core.PASS_THROUGH):
        raise exc
    if f'{ctx.pid}:{clause}:{type(exc).__name__}:{core.aeic_frame(exc)}:{disc}' in ctx.session_seen:
        raise _Seen()
    return ctx.fail_exc(clause, exc, disc)


TOL_TOTAL = 1e-6  # m
TOL_POS = 1e-4  # m
TOL_AZ = 1e-6  # deg
TOL_STEP_POS = 1e-6  # m   step(a,b) vs location(a+b)
NEAR_WP = 10.0  # m   azimuth comparison skipped this close to a waypoint
POLE_LAT = 89.999  # deg azimuth comparison skipped beyond this latitude
MIN_LEG = 0.5  # m   shorter legs: great circle undefined -> case excluded
QUARTER = 1.0e7  # m   about a quarter of the circumference

_G = None


def G():
    global _G
    if _G is None:
        from pyproj import Geod

        _G = Geod(ellps='WGS84')
    return _G


def inv(p, q):
    """(forward azimuth at p, back azimuth at q, distance) for [lon, lat] pairs."""
    a12, a21, s = G().inv(p[0], p[1], q[0], q[1])
    return float(a12), float(a21), float(s)


def fwd(p, az, dist):
    """([lon, lat], back azimuth at the new point)."""
    lon, lat, baz = G().fwd(p[0], p[1], az, dist)
    return [float(lon), float(lat)], float(baz)


def circ_diff(a, b):
    d = (a - b) % 360.0
    return min(d, 360.0 - d)


def self_test():
    """The trusted primitive and the helpers against values they did not produce."""
    # one degree of longitude on the equator = a*pi/180
    _, _, s = inv([0.0, 0.0], [1.0, 0.0])
    if abs(s - 6378137.0 * math.pi / 180.0) > 1e-6:
        raise core.HarnessError(f'geodesic self-test (equator): {s}')
    # meridian quadrant of WGS-84 (published value 10 001 965.729 m)
    _, _, s = inv([0.0, 0.0], [0.0, 90.0])
    if abs(s - 10001965.729) > 2e-3:
        raise core.HarnessError(f'geodesic self-test (quadrant): {s}')
    # Vincenty's / Geoscience Australia worked example Flinders Peak -> Buninyong
    # (GRS80, differs from WGS-84 by 0.1 mm in b): 54 972.271 m, azimuth 306 52 05.37
    fp = [144 + 25 / 60 + 29.52440 / 3600, -(37 + 57 / 60 + 3.72030 / 3600)]
    bu = [143 + 55 / 60 + 35.38390 / 3600, -(37 + 39 / 60 + 10.15610 / 3600)]
    a12, _, s = inv(fp, bu)
    if abs(s - 54972.271) > 2e-3 or circ_diff(a12, 306 + 52 / 60 + 5.37 / 3600) > 1e-5:
        raise core.HarnessError(f'geodesic self-test (Flinders Peak): {s} {a12}')
    # forward problem inverts the inverse problem
    p, baz = fwd(fp, a12, s)
    if inv(p, bu)[2] > 1e-6:
        raise core.HarnessError('geodesic self-test (forward)')
    if circ_diff(359.5, 0.25) != 0.75 or circ_diff(-10.0, 350.0) != 0.0:
        raise core.HarnessError('circ_diff self-test')


# --------------------------------------------------------------------------
# generators (descriptions only: plain JSON)

LON = st.floats(-180.0, 180.0, allow_nan=False)
LAT = st.floats(-90.0, 90.0, allow_nan=False)

PAIR_CLASSES = [
    'random', 'random', 'antimeridian', 'antimeridian', 'polar', 'polar',
    'near_antipodal', 'near_antipodal', 'same_lon', 'same_lat', 'close', 'tiny_west',
]


def _norm_lon(x):
    while x > 180.0:
        x -= 360.0
    while x < -180.0:
        x += 360.0
    return x


@st.composite
def pair(draw, cls=None):
    cls = cls or draw(st.sampled_from(PAIR_CLASSES))
    if cls == 'random':
        p, q = [draw(LON), draw(LAT)], [draw(LON), draw(LAT)]
    elif cls == 'antimeridian':
        p = [draw(st.floats(100.0, 180.0)), draw(st.floats(-85.0, 85.0))]
        q = [draw(st.floats(-180.0, -100.0)), draw(st.floats(-85.0, 85.0))]
        if draw(st.booleans()):
            p, q = q, p
    elif cls == 'polar':
        sgn = draw(st.sampled_from([1.0, -1.0]))
        p = [draw(LON), sgn * draw(st.floats(80.0, 90.0))]
        q = [draw(LON), sgn * draw(st.floats(80.0, 90.0))]
    elif cls == 'near_antipodal':
        p = [draw(LON), draw(st.floats(-87.0, 87.0))]
        r = draw(st.floats(0.01, 2.0))
        th = math.radians(draw(st.floats(0.0, 360.0, exclude_max=True)))
        q = [_norm_lon(p[0] + 180.0 + r * math.sin(th)), -p[1] + r * math.cos(th)]
    elif cls == 'same_lon':
        lon = draw(LON)
        p, q = [lon, draw(LAT)], [lon, draw(LAT)]
    elif cls == 'same_lat':
        lat = draw(st.floats(-89.0, 89.0))
        p, q = [draw(LON), lat], [draw(LON), lat]
    elif cls == 'close':
        p = [draw(LON), draw(st.floats(-89.9, 89.9))]
        q, _ = fwd(p, draw(st.floats(0.0, 360.0, exclude_max=True)), draw(st.floats(1.0, 2000.0)))
    else:  # tiny_west: almost-meridional legs heading a hair west of north/south
        p = [0.0, draw(st.floats(-80.0, 80.0))]
        q = [-draw(st.sampled_from([1e-17, 1e-16, 1e-15, 1e-14, 1e-13, 1e-11])), draw(st.floats(-80.0, 80.0))]
    return cls, p, q


FRACTION = st.one_of(st.sampled_from([0.0, 1.0, 0.5]), st.floats(0.0, 1.0))
DELTA = st.one_of(
    st.sampled_from([0.0, 1e-9, -1e-9, 1e-3, -1e-3, 1.0, -1.0, 100.0, -100.0]),
    st.floats(-5000.0, 5000.0),
)
BEYOND = st.one_of(st.sampled_from([1e-3, 1.0, 1000.0, QUARTER]), st.floats(1e-3, QUARTER))


@st.composite
def query(draw, nwp):
    op = draw(st.sampled_from(['loc', 'loc', 'loc_wp', 'step', 'step', 'beyond', 'beyond', 'neg']))
    if op == 'loc':
        return {'op': 'loc', 'f': draw(FRACTION)}
    if op == 'loc_wp':
        return {'op': 'loc_wp', 'k': draw(st.integers(0, nwp - 1)), 'delta': draw(DELTA)}
    if op == 'step':
        if draw(st.integers(0, 3)) == 0:
            # a step that ends on the last point of the track, give or take one rounding error
            return {'op': 'step', 'fa': draw(FRACTION), 'fb': 1.0, 'end_ulp': draw(st.sampled_from([-1, 0, 0, 1]))}
        return {'op': 'step', 'fa': draw(FRACTION), 'fb': draw(FRACTION)}
    if op == 'beyond':
        return {
            'op': 'beyond',
            'via': draw(st.sampled_from(['step', 'step', 'loc'])),
            'fa': draw(st.one_of(FRACTION, st.floats(1.0, 1.5))),
            'x': draw(BEYOND),
        }
    return {
        'op': 'neg',
        'which': draw(st.sampled_from(['loc', 'step_from', 'step_by'])),
        'x': draw(st.one_of(st.sampled_from([1e-9, 1.0]), st.floats(1e-9, 1e6))),
        'f': draw(FRACTION),
    }


@st.composite
def track_case(draw):
    multi = draw(st.integers(0, 2)) == 0
    if not multi:
        cls, p, q = draw(pair())
        wps = [p, q]
    else:
        n = draw(st.integers(3, 6))
        mode = draw(st.sampled_from(['walk', 'walk', 'pairs']))
        cls = 'multi_' + mode
        if mode == 'walk':
            cur = [draw(LON), draw(st.floats(-89.0, 89.0))]
            wps = [cur]
            for _ in range(n - 1):
                cur, _ = fwd(cur, draw(st.floats(0.0, 360.0, exclude_max=True)),
                             draw(st.one_of(st.floats(1.0, 5000.0), st.floats(1e3, 6e6))))
                wps.append(cur)
        else:
            wps = []
            while len(wps) < n:
                _, p, q = draw(pair())
                wps += [p, q]
            wps = wps[:n]
    full = None
    if multi and draw(st.integers(0, 5)) == 0:
        # a position fix repeated in the input (same point twice in a row): it adds no length and must not disturb
        # lookups on the legs after it
        # (an interior fix only: the direction at a repeated first or last fix is not defined by the property)
        k = draw(st.integers(1, len(wps) - 2))
        full = wps[: k + 1] + [list(wps[k])] + wps[k + 1:]
    qs = draw(st.lists(query(len(wps)), min_size=4, max_size=10))
    out = {'kind': 'track', 'cls': cls, 'wps': wps, 'overstep': draw(st.booleans()), 'q': qs}
    if full is not None:
        out['wps_with_repeat'] = full
    return out


_SHIPPED = None


def shipped_airports():
    """IATA code -> [lon, lat] read by the harness from the shipped test CSV."""
    global _SHIPPED
    if _SHIPPED is None:
        out = {}
        with open(core.TEST_DATA / 'airports' / 'airports.csv', newline='', encoding='utf-8') as f:
            for row in csv.DictReader(f):
                if row['iata_code']:
                    out[row['iata_code']] = [float(row['longitude_deg']), float(row['latitude_deg'])]
        if len(out) < 5:
            raise core.HarnessError('shipped airports file has fewer than 5 usable rows')
        _SHIPPED = out
    return _SHIPPED


@st.composite
def mission_case(draw):
    cls, p, q = draw(pair())
    return {'kind': 'mission', 'cls': cls, 'wps': [p, q],
            'elev': [draw(st.sampled_from([None, 0.0, 1655.0])), draw(st.sampled_from([None, 13.0]))]}


# --------------------------------------------------------------------------
# checking


def excluded_leg(p, q):
    """Reason why the great circle p->q is not uniquely defined (or None)."""
    if p[1] == -q[1]:
        dl = abs(p[0] - q[0]) % 360.0
        if abs(dl - 180.0) < 1.0 or abs(abs(p[1]) - 90.0) < 1e-12:
            # antipodal, or on the cut locus of the ellipsoid (lat2 == -lat1 within
            # ~0.6 deg of the antipodal meridian): several shortest geodesics
            return 'excluded_nonunique_geodesic'
    return None


def az_ok(az):
    return isinstance(az, float) and az == az and 0.0 <= az <= 360.0


class TrackCheck:
    def __init__(self, ctx, case):
        self.ctx = ctx
        self.case = case
        self.wps = case['wps']
        self.multi = len(self.wps) > 2
        self.shape = 'multi' if self.multi else 'single'

    def fail(self, clause, where, disc, detail):
        return _fail(self.ctx, clause, 'mismatch', where, disc, detail)

    # -- AEIC calls (no ctx.fail inside these try blocks)
    def call(self, fn, *a):
        """-> ('ok', value) | ('refused', exc) | ('error', exc)"""
        from AEIC.trajectories.ground_track import GroundTrack

        try:
            return 'ok', fn(*a)
        except GroundTrack.Exception as e:
            return 'refused', e
        except Exception as e:  # noqa: BLE001
            return 'error', e

    def point_checks(self, pt, clause, where):
        """Well-formedness of a returned point; False if unusable."""
        lon, lat, az = pt.location.longitude, pt.location.latitude, pt.azimuth
        if not (math.isfinite(lon) and math.isfinite(lat) and -90.0 <= lat <= 90.0 and -180.0 <= lon <= 180.0):
            self.fail(clause, where, 'nonfinite_or_out_of_range_position', f'{clause}: position ({lon}, {lat})')
            return False
        az = float(az)
        if not az_ok(az):
            disc = 'nan' if az != az else ('negative' if az < 0 else 'above_360')
            self.fail('azimuth.range', where, disc, f'{clause}: azimuth {az!r} is outside the 0-360 convention')
            return True
        if az == 360.0:
            self.ctx.label('azimuth_eq_360.0')
        return True

    def run(self):
        from AEIC.trajectories.ground_track import GroundTrack
        from AEIC.types import Location

        ctx, wps = self.ctx, self.wps
        # oracle legs
        legs = [inv(wps[i], wps[i + 1]) for i in range(len(wps) - 1)]
        for i in range(len(wps) - 1):
            why = excluded_leg(wps[i], wps[i + 1])
            if why is None and not legs[i][2] >= MIN_LEG:
                why = 'excluded_degenerate_leg'
            if why:
                ctx.label(why, why + '.' + self.case['cls'])
                return
        cum = [0.0]
        for a12, a21, s in legs:
            cum.append(cum[-1] + s)
        L = cum[-1]
        self.legs, self.cum, self.L = legs, cum, L

        overstep = self.case['overstep']
        locs = [Location(longitude=p[0], latitude=p[1]) for p in wps]
        wmap = list(range(len(wps)))
        if self.multi and self.case.get('wps_with_repeat'):
            # the oracle works on the distinct fixes; the code under test gets the list with the repeated fix
            ctx.label('multi_waypoint_with_repeated_fix')
            full = self.case['wps_with_repeat']
            locs = [Location(longitude=p[0], latitude=p[1]) for p in full]
            kdup = next(i for i in range(len(full) - 1) if full[i] == full[i + 1])
            wmap = [j if j <= kdup else j + 1 for j in range(len(wps))]
        if self.multi:
            st_, track = self.call(lambda: GroundTrack(locs, allow_overstep=overstep))
        else:
            st_, track = self.call(lambda: GroundTrack.great_circle(locs[0], locs[1], allow_overstep=overstep))
        if st_ != 'ok':
            _fail_exc(ctx, 'construct', track, self.shape)
            return
        self.track = track

        # ---- total length and waypoint index
        st_, Lc = self.call(lambda: track.total_distance)
        if st_ != 'ok':
            _fail_exc(ctx, 'total', Lc, self.shape)
            return
        if not abs(Lc - L) <= TOL_TOTAL:
            self.fail('total', 'ground_track.total_distance', self.shape,
                      f'total_distance {Lc!r} but the WGS-84 legs sum to {L!r} (waypoints {wps})')
            return
        wd = []
        for k in range(len(wps)):
            st_, w = self.call(track.waypoint_distance, wmap[k])
            if st_ != 'ok':
                _fail_exc(ctx, 'index', w, self.shape)
                return
            if not abs(w - cum[k]) <= TOL_TOTAL:
                self.fail('index', 'ground_track.waypoint_distance', self.shape,
                          f'waypoint {k} at {w!r}, expected cumulated {cum[k]!r}')
                return
            wd.append(float(w))
        Lc = float(Lc)
        self.wd, self.Lc = wd, Lc

        # ---- track[0]
        st_, p0 = self.call(lambda: track[0])
        if st_ != 'ok':
            _fail_exc(ctx, 'first_point', p0, self.shape)
        else:
            if self.point_checks(p0, 'first_point', 'ground_track.__getitem__'):
                if not inv([p0.location.longitude, p0.location.latitude], wps[0])[2] <= TOL_POS:
                    self.fail('first_point', 'ground_track.__getitem__', 'location', f'track[0] = {p0}')
                elif az_ok(float(p0.azimuth)) and abs(wps[0][1]) < POLE_LAT and circ_diff(p0.azimuth, legs[0][0]) > TOL_AZ:
                    self.fail('first_point', 'ground_track.__getitem__', 'azimuth',
                              f'track[0].azimuth = {p0.azimuth}, initial azimuth {legs[0][0] % 360.0}')

        for q in self.case['q']:
            getattr(self, 'q_' + q['op'])(q)

    # -- expected interior point, routed from the far end of the leg
    def leg_of(self, d):
        """Leg k with cum[k] <= d <= cum[k+1] (first such leg)."""
        for k in range(len(self.legs)):
            if d <= self.cum[k + 1] or k == len(self.legs) - 1:
                return k

    def check_location(self, pt, d, clause, where):
        """pt claims to be at distance d (0 <= d <= L) from the start."""
        wps, cum, legs = self.wps, self.cum, self.legs
        if not self.point_checks(pt, clause, where):
            return
        P = [pt.location.longitude, pt.location.latitude]
        k = self.leg_of(d)
        legdisc = 'single' if not self.multi else ('first_leg' if k == 0 else 'later_leg')
        dk = min(max(d - cum[k], 0.0), legs[k][2])
        rest = legs[k][2] - dk
        # (1) on the shortest geodesic of the leg, at the right distance
        s1 = inv(wps[k], P)[2]
        s2 = inv(P, wps[k + 1])[2]
        if not (abs(s1 - dk) <= TOL_POS and abs(s2 - rest) <= TOL_POS):
            self.fail(clause + '.on_geodesic', where, legdisc,
                      f'd={d!r}: point {P} is {s1!r} m from waypoint {k} (expected {dk!r}) and {s2!r} m from '
                      f'waypoint {k + 1} (expected {rest!r}); waypoints {wps}')
            return
        # (2) same point as routed backwards from the far end of the leg
        E, baz = fwd(wps[k + 1], legs[k][1], rest)
        off = inv(P, E)[2]
        if not off <= TOL_POS:
            self.fail(clause + '.position', where, legdisc,
                      f'd={d!r}: point {P} is {off!r} m away from the point {E} routed from the far end of leg {k}')
            return
        # (3) azimuth = forward azimuth of the geodesic there
        if dk > NEAR_WP and rest > NEAR_WP and abs(P[1]) < POLE_LAT and abs(E[1]) < POLE_LAT and az_ok(float(pt.azimuth)):
            # baz points from E back to waypoint k+1, i.e. it IS the travel direction at E
            if circ_diff(float(pt.azimuth), baz) > TOL_AZ:
                self.fail('azimuth.direction', where, legdisc,
                          f'd={d!r}: azimuth {pt.azimuth!r} but the geodesic heads {baz % 360.0!r} there')

    def expect_refusal(self, st_, val, clause, disc, what):
        if st_ == 'refused':
            return
        if st_ == 'error':
            _fail_exc(self.ctx, clause, val, disc)
        else:
            _fail(self.ctx, clause, 'returned', 'ground_track', disc, f'{what} returned {val} instead of being refused')

    # -- queries
    def q_loc(self, q, d=None):
        d = q['f'] * self.Lc if d is None else d
        self.ctx.label('q.loc.end' if d == self.Lc else ('q.loc.start' if d == 0.0 else 'q.loc.interior'))
        st_, pt = self.call(self.track.location, d)
        if st_ != 'ok':
            _fail_exc(self.ctx, 'location.refused_in_range', pt, self.shape)
            return
        if d == 0.0 or d == self.Lc:
            want = self.wps[0] if d == 0.0 else self.wps[-1]
            if self.point_checks(pt, 'location.boundary', 'ground_track.location') and \
                    not inv([pt.location.longitude, pt.location.latitude], want)[2] <= TOL_POS:
                self.fail('location.boundary', 'ground_track.location', 'start' if d == 0.0 else 'end',
                          f'location({d!r}) = {pt}, expected waypoint {want}')
            # a returned point is the caller's: editing it must not change what the track answers next time
            before = (pt.location.longitude, pt.location.latitude, pt.azimuth)
            try:
                other = self.track.location(self.Lc - d)
                pt.azimuth = -45.0
                pt.location = other.location
            except Exception:  # noqa: BLE001  (immutable points cannot alias harmfully)
                return
            st2, pt2 = self.call(self.track.location, d)
            if st2 == 'ok':
                after = (pt2.location.longitude, pt2.location.latitude, pt2.azimuth)
                if after != before:
                    self.fail('location.aliasing', 'ground_track.location', 'start' if d == 0.0 else 'end',
                              f'location({d!r}) answered {before}, the caller edited the returned point, now it answers {after}')
            return
        self.check_location(pt, d, 'location', 'ground_track.location')

    def q_loc_wp(self, q):
        d = min(max(self.wd[q['k']] + q['delta'], 0.0), self.Lc)
        self.ctx.label('q.loc_wp.at' if d in self.wd else 'q.loc_wp.beside')
        self.q_loc(q, d)

    def crossing_possible(self, a, s):
        return any(a <= w < s for w in self.wd)

    def q_step(self, q):
        a = q['fa'] * self.Lc
        b = q['fb'] * (self.Lc - a)
        s = a + b
        if 'end_ulp' in q:
            import math

            b = self.Lc - a
            if q['end_ulp']:
                b = math.nextafter(b, math.inf if q['end_ulp'] > 0 else 0.0)
            s = a + b
            self.ctx.label('q.step.to_track_end')
            if s > self.Lc:
                # the sum is what decides (step = location(a + b)): this request is beyond the end
                self.ctx.label('q.step.to_track_end.sum_beyond')
                st_, pt = self.call(self.track.step, a, b)
                if not self.case['overstep']:
                    self.expect_refusal(st_, pt, 'refuse.beyond_end', 'step', f'step({a!r}, {b!r}) with L={self.Lc!r}')
                elif st_ != 'ok':
                    _fail_exc(self.ctx, 'overstep.refused', pt, self.shape)
                return
        elif s > self.Lc:  # rounding; keep the request in range
            b = 0.0
            s = a + b
        st_, pt = self.call(self.track.step, a, b)
        cross = self.multi and self.crossing_possible(a, s)
        self.ctx.label('q.step.crossing_wp' if cross else 'q.step.within_leg')
        if st_ == 'refused' and cross and not self.case['overstep']:
            self.ctx.label('q.step.crossing_refused')
            return  # documented: 'step would cross a waypoint'
        if st_ != 'ok':
            _fail_exc(self.ctx, 'step.refused_in_range', pt, self.shape + ('.overstep' if self.case['overstep'] else ''))
            return
        st2, ref = self.call(self.track.location, s)
        if st2 != 'ok':
            _fail_exc(self.ctx, 'location.refused_in_range', ref, self.shape)
            return
        if not self.point_checks(pt, 'step', 'ground_track.step') or not self.point_checks(ref, 'location', 'ground_track.location'):
            return
        off = inv([pt.location.longitude, pt.location.latitude], [ref.location.longitude, ref.location.latitude])[2]
        near = min(abs(s - w) for w in self.wd) <= NEAR_WP
        if not off <= TOL_STEP_POS or (not near and circ_diff(float(pt.azimuth), float(ref.azimuth)) > 1e-9):
            self.fail('step.equals_location', 'ground_track.step', self.shape,
                      f'step({a!r}, {b!r}) = {pt} but location({s!r}) = {ref}')
            return
        # and the located point itself is right
        if 0.0 < s < self.Lc:
            self.check_location(pt, s, 'step', 'ground_track.step')

    def q_beyond(self, q):
        overstep = self.case['overstep']
        x = q['x']
        target = self.Lc + x
        if q['via'] == 'loc':
            self.ctx.label('q.beyond.location')
            if overstep:
                return  # location() beyond the end with overstep allowed: not specified
            st_, val = self.call(self.track.location, target)
            self.expect_refusal(st_, val, 'refuse.beyond_end', 'location', f'location({target!r}) with L={self.Lc!r}')
            return
        a = q['fa'] * self.Lc
        b = target - a
        if b < 0.0:
            a, b = self.Lc, x
        s = a + b
        if not s > self.Lc:
            return
        st_, pt = self.call(self.track.step, a, b)
        if not overstep:
            self.ctx.label('q.beyond.step_refusal')
            self.expect_refusal(st_, pt, 'refuse.beyond_end', 'step', f'step({a!r}, {b!r}) with L={self.Lc!r}')
            return
        self.ctx.label('q.beyond.overstep_from_beyond' if a > self.Lc else 'q.beyond.overstep')
        if st_ != 'ok':
            _fail_exc(self.ctx, 'overstep.refused', pt, self.shape)
            return
        if not self.point_checks(pt, 'overstep', 'ground_track.step'):
            return
        P = [pt.location.longitude, pt.location.latitude]
        a12, a21, sl = self.legs[-1]
        # continuation routed from the END point along the arrival direction
        E1, _ = fwd(self.wps[-1], a21 + 180.0, s - self.L)
        # and routed from the last-but-one waypoint along the last leg
        E2, _ = fwd(self.wps[-2], a12, s - self.cum[-2])
        o1, o2 = inv(P, E1)[2], inv(P, E2)[2]
        if not (o1 <= TOL_POS and o2 <= TOL_POS):
            self.fail('overstep.same_great_circle', 'ground_track._overstep', self.shape,
                      f'step({a!r}, {b!r}) beyond L={self.Lc!r} gave {P}; continuation of the last leg is {E1} '
                      f'({o1!r} m off; {o2!r} m off the point routed from the previous waypoint); waypoints {self.wps}')

    def q_neg(self, q):
        x = -q['x']
        self.ctx.label('q.neg.' + q['which'])
        if q['which'] == 'loc':
            st_, val = self.call(self.track.location, x)
            what = f'location({x!r})'
        elif q['which'] == 'step_from':
            b = q['f'] * self.Lc
            st_, val = self.call(self.track.step, x, b)
            what = f'step({x!r}, {b!r})'
        else:
            a = q['f'] * self.Lc
            st_, val = self.call(self.track.step, a, x)
            what = f'step({a!r}, {x!r})'
        self.expect_refusal(st_, val, 'refuse.negative', q['which'], what)


def nontrivial_track(case, L):
    wps = case['wps']
    why = []
    if any(abs(wps[i][0] - wps[i + 1][0]) > 180.0 for i in range(len(wps) - 1)):
        why.append('nt.antimeridian')
    if any(abs(p[1]) > 80.0 for p in wps):
        why.append('nt.polar')
    if len(wps) == 2 and L > 19_700_000.0:
        why.append('nt.near_antipodal')
    if any(q['op'] == 'beyond' for q in case['q']):
        why.append('nt.beyond_end')
    return why


def _give_up(ctx):
    # only after a violation has been recorded: do not spend the whole budget
    # re-finding (and rejecting) a shallow defect
    return bool(ctx.violations) and ctx.out_of_time()


def body_track(ctx, case):
    if _give_up(ctx):
        return
    ctx.case(case)
    ctx.label('cls.' + case['cls'], 'overstep.on' if case['overstep'] else 'overstep.off')
    chk = TrackCheck(ctx, case)
    try:
        chk.run()
    except _Seen:
        ctx.label('stopped_at_already_reported_signature')
    if hasattr(chk, 'Lc'):
        ctx.extra['queries'] = ctx.extra.get('queries', 0) + len(case['q'])
        why = nontrivial_track(case, chk.L)
        if why:
            ctx.label(*why)
            ctx.mark_nontrivial(case)
            if len(case['wps']) > 2 or 'nt.near_antipodal' in why:
                ctx.sample(case)


# ---- missions


class _Registry:
    """Stand-in for AEIC.utils.airports.AirportsData (same lookup protocol)."""

    def __init__(self, table):
        self.table = table

    def __getitem__(self, code):
        return self.table.get(code)


_TS = None


def _mission(o, d, via='ctor', sched_km=0):
    """A Mission built the three documented ways: the constructor, a mission-database query result (which carries the
    schedule's own, rounded and often inaccurate, distance in km) and the sample-mission TOML form."""
    global _TS
    import pandas as pd
    from AEIC.missions import Mission

    if _TS is None:
        _TS = (pd.Timestamp('2024-09-01 12:00', tz='UTC'), pd.Timestamp('2024-09-01 18:00', tz='UTC'))
    if via == 'query_result':
        from AEIC.missions.query import QueryResult

        qr = QueryResult(departure=_TS[0], arrival=_TS[1], carrier='ZZ', flight_number='1', origin=o,
                         origin_country='ZZ', destination=d, destination_country='ZZ', service_type='J',
                         aircraft_type='738', engine_type=None, distance=int(sched_km), seat_capacity=150, id=7,
                         flight_id=3)
        return Mission.from_query_result(qr)
    if via == 'toml':
        return Mission.from_toml({'flight': [{
            'origin': o, 'destination': d, 'departure': '2024-09-01T12:00:00+00:00',
            'arrival': '2024-09-01T18:00:00+00:00', 'load_factor': 1.0, 'aircraft_type': '738'}]})[0]
    return Mission(origin=o, destination=d, departure=_TS[0], arrival=_TS[1], load_factor=1.0, aircraft_type='738')


def body_mission(ctx, case):
    import AEIC.utils.airports as ap
    from AEIC.trajectories.ground_track import GroundTrack

    if _give_up(ctx):
        return
    ctx.case(case)
    ctx.label('kind.' + case['kind'])
    saved = ap._airports
    try:
        if case['kind'] == 'mission':
            p, q = case['wps']
            why = excluded_leg(p, q)
            if why is None and not inv(p, q)[2] >= MIN_LEG:
                why = 'excluded_degenerate_leg'
            if why:
                ctx.label(why)
                return
            ctx.label('cls.' + case['cls'])
            mk = lambda code, pos, el: ap.Airport(  # noqa: E731
                iata_code=code, name='synthetic ' + code, latitude=pos[1], longitude=pos[0],
                elevation=el, country='ZZ', municipality=None)
            ap._airports = _Registry({'QXA': mk('QXA', p, case['elev'][0]), 'QXB': mk('QXB', q, case['elev'][1])})
            o, d = 'QXA', 'QXB'
        else:
            ap._airports = None  # lazily (re)loaded from the shipped test data
            o, d = case['o'], case['d']
            p, q = shipped_airports()[o], shipped_airports()[d]
        want = inv(p, q)[2]
        # what a latitude/longitude mix-up in the inverse problem would give
        try:
            swapped = float(G().inv(p[1], p[0], q[1], q[0])[2])
        except Exception:  # noqa: BLE001  (pyproj may refuse |lat| > 90)
            swapped = float('nan')
        # how the two missions are built: derived from the case (no extra randomness), the schedule distance of a
        # query result is the true one rounded to km plus an error of -40..+40 km, different for the two directions
        h = int(want) % 7
        via = 'query_result' if h in (0, 1, 2) else 'toml' if h == 3 else 'ctor'
        ctx.label('mission.via.' + via)
        km = max(int(want / 1000.0) + (int(want) % 81) - 40, 0)
        try:
            m, r = _mission(o, d, via, km), _mission(d, o, via, max(km + 13, 1))
            got, rev = float(m.gc_distance), float(r.gc_distance)
            gt = GroundTrack.great_circle(m.origin_position.location, m.destination_position.location)
            tl = float(gt.total_distance)
            pos = [m.origin_position.longitude, m.origin_position.latitude,
                   m.destination_position.longitude, m.destination_position.latitude]
        except core.PASS_THROUGH:
            raise
        except Exception as e:  # noqa: BLE001
            _fail_exc(ctx, 'mission.gc_distance', e, case['kind'])
            return
        if pos != [p[0], p[1], q[0], q[1]]:
            raise core.HarnessError(f'airport injection failed: {pos} vs {p} {q}')
        if not abs(tl - want) <= TOL_TOTAL:
            _fail(ctx, 'total', 'mismatch', 'ground_track.total_distance', 'single',
                     f'track length {tl!r} vs WGS-84 inverse {want!r} for {p} -> {q}')
            return
        nt = abs(p[0] - q[0]) > 180.0 or max(abs(p[1]), abs(q[1])) > 80.0 or want > 19_700_000.0 \
            or max(abs(p[0]), abs(q[0])) > 90.0
        if nt:
            ctx.mark_nontrivial(case)
            ctx.label('nt.mission')
        ctx.sample(case)

        def same(a, b):
            return (a != a and b != b) or abs(a - b) <= TOL_TOTAL

        ok = math.isfinite(got) and abs(got - want) <= TOL_TOTAL and abs(got - tl) <= TOL_TOTAL
        if not ok:
            explained = same(got, swapped) and not same(want, swapped)
            disc = 'equals_inverse_with_lat_lon_exchanged' if explained else 'other'
            _fail(ctx, 'mission.gc_distance', 'mismatch', 'mission.gc_distance', disc,
                     f'Mission {o}->{d} {p} -> {q}: gc_distance = {got!r}, ground track length = {tl!r}, '
                     f'WGS-84 inverse = {want!r}; inverse with latitude and longitude exchanged = {swapped!r}')
            # known finding: continue under the hypothesis "arguments exchanged"
            if not explained:
                return
            try:
                rsw = float(G().inv(q[1], q[0], p[1], p[0])[2])
            except Exception:  # noqa: BLE001
                rsw = float('nan')
            if not same(rev, rsw):
                _fail(ctx, 'mission.symmetry', 'mismatch', 'mission.gc_distance', 'under_exchange_hypothesis',
                         f'reversed mission gives {rev!r}; exchanged-argument prediction {rsw!r}')
            return
        if not (math.isfinite(rev) and abs(rev - got) <= TOL_TOTAL):
            _fail(ctx, 'mission.symmetry', 'mismatch', 'mission.gc_distance', 'reversed',
                     f'{o}->{d}: {got!r} but {d}->{o}: {rev!r}')
    except _Seen:
        ctx.label('stopped_at_already_reported_signature')
    finally:
        ap._airports = saved


# --------------------------------------------------------------------------


def run(ctx: core.Ctx):
    ctx.level = 'exploration'
    ctx.rule = (
        'Hypothesis-generated ground tracks: single great circles from pair classes {random, antimeridian, polar '
        '(|lat|>=80, incl. the pole), near-antipodal (0.01-2 deg from the antipode), same longitude, same latitude, '
        'close (1 m-2 km), tiny westward offset} and 3-6 waypoint tracks (random walk with 1 m-6000 km legs, or chained '
        'pairs), allow_overstep on/off, 4-10 queries each: location at fractions (0, 1, interior), location at/beside '
        'every waypoint, step(a,b) in range, requests beyond the end by 1 mm..10 000 km (refusal or overstep, also '
        'starting beyond the end), negative distances/steps; plus missions between two synthetic airports of the same '
        'pair classes and between shipped test airports. Oracle: pyproj Geod(WGS84) called directly, expected points '
        'routed from the far end of the leg / from the end point. evaluations = generated tracks + missions; '
        'coverage.queries = individual track queries. Non-trivial: a leg crosses the antimeridian, a waypoint has '
        '|lat|>80, near-antipodal end points (L>19 700 km), or a request beyond the end (missions: same, or |lon|>90 '
        'where a lat/lon mix-up cannot pass silently); distinct = hash of the case.'
    )
    ctx.assumptions = [
        'pyproj Geod(ellps=WGS84) inverse/forward are the trusted geodesic primitives (self-tested against published values)',
        'pairs with several shortest geodesics (antipodal / on the cut locus: lat2 == -lat1 within 1 deg of the antipodal '
        'meridian) and legs shorter than 0.5 m are excluded: the great circle is not defined',
        'azimuth direction is not compared within 10 m of a waypoint or beyond |lat| 89.999 (ill-conditioned); an azimuth '
        'of exactly 360.0 (from -1e-15 % 360) is counted under label azimuth_eq_360.0, not reported (the property says "never negative")',
        'location() beyond the end with allow_overstep=True is unspecified and not checked; for multi-waypoint tracks '
        "without overstep the documented 'step would cross a waypoint' refusal is accepted when a waypoint lies in [a, a+b)",
        'negative distances/steps must be refused in both overstep modes (overstep is documented as "beyond the end")',
    ]
    from hypothesis.errors import UnsatisfiedAssumption

    ctx.budget_s = 150.0 if ctx.quick else 1500.0  # only enforced once a violation exists
    self_test()
    core.load_config()
    try:
        core.run_given(ctx, track_case(), lambda c: body_track(ctx, c), ctx.n(5000, 60000), salt=0)
        core.run_given(ctx, mission_case(), lambda c: body_mission(ctx, c), ctx.n(1200, 12000), salt=50)
        # every ordered pair of the shipped test airports (finite space, enumerated)
        codes = sorted(shipped_airports())
        pairs = [(o, d) for o in codes for d in codes if o != d]
        for i, (o, d) in enumerate(pairs):
            if i % ctx.nshards != ctx.shard:
                continue
            try:
                body_mission(ctx, {'kind': 'mission_shipped', 'o': o, 'd': d})
            except core.Violation:
                ctx.record_violation()
            except UnsatisfiedAssumption:  # ctx.fail's reject(): signature already reported in this run
                pass
    finally:
        core.reset_config()


def replay(ctx: core.Ctx, case):
    self_test()
    core.load_config()
    try:
        if case['kind'] == 'track':
            body_track(ctx, case)
        else:
            body_mission(ctx, case)
    finally:
        core.reset_config()
