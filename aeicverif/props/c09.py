"""C09 — a merged store equals the concatenation of its input stores."""

from __future__ import annotations

from hypothesis import strategies as st

from .. import core
from . import _store_common as sc
from ._store_machine import BULK, OTHER, _bulk_values

SHARDED = True
SPECIES_CHOICES = [['CO2'], ['CO2', 'H2O'], ['H2O', 'NOx'], ['SO2'], ['CO2', 'H2O', 'HC', 'PMnvolN']]
NAMES = ['zz', 'aa', 'mm', 'b1', 'a9', 'q', 'part10', 'part2']


@st.composite
def case_strategy(draw):
    k = draw(st.integers(1, 5))
    sizes = [draw(st.integers(1, 7)) for _ in range(k)]
    layout = draw(st.sampled_from(['base', 'base+bulk', 'assoc']))
    identified = draw(st.integers(0, 2)) > 0
    naming = draw(st.sampled_from(['explicit', 'explicit', 'pattern', 'pattern03']))
    if naming == 'explicit':
        names = draw(st.permutations(NAMES))[:k]
        if k >= 2 and names == sorted(names):
            names = names[::-1]
        first = None
    else:
        first = draw(st.integers(0, 12))
        fmt = 'p_{index}.nc' if naming == 'pattern' else 'p_{index:03d}.nc'
        names = [fmt.format(index=first + i)[:-3] for i in range(k)]
    same_species = draw(st.integers(0, 2)) > 0
    sp0 = draw(st.sampled_from(SPECIES_CHOICES))
    ids = draw(st.lists(sc.FLIGHT_ID, unique=True, min_size=sum(sizes), max_size=sum(sizes)))
    inputs = []
    pos = 0
    for i in range(k):
        sp = sp0 if same_species else draw(st.sampled_from(SPECIES_CHOICES))
        descs = []
        for j in range(sizes[i]):
            d = {
                'n': draw(st.integers(1, 60)),
                'seed': draw(st.integers(0, 2**31)),
                'name': draw(st.one_of(st.none(), st.sampled_from(['x', 'yy']))),
                'flight_id': ids[pos] if identified else None,
                'extras': {},
            }
            pos += 1
            if layout != 'base':
                sub = sp if j == 0 else sp[: draw(st.integers(1, len(sp)))]
                d['extras'][sc.fs_name(BULK)] = _bulk_values(draw(st.integers(0, 2**30)), sub)
            descs.append(d)
        inputs.append({'name': names[i], 'trajs': descs})
    negative = draw(st.sampled_from([None, None, None, None, None, 'fieldset', 'identified_mix'])) if k >= 2 else None
    return {
        'layout': layout, 'identified': identified, 'naming': naming, 'first': first, 'inputs': inputs,
        'negative': negative, 'bad_at': draw(st.integers(0, k - 1)), 'meta': draw(st.booleans()),
        'cache_mb': draw(st.sampled_from([1, 2048])),
        # an explicit list may name stores that live in different directories
        'spread': naming == 'explicit' and draw(st.booleans()),
        # the associated parts come from another chunking of the same sequence (same number of parts, other sizes)
        'rechunk': layout == 'assoc' and draw(st.booleans()),
    }


def _make_inputs(case, d, TS):
    """Create the input store files; returns (base_paths, assoc_paths)."""
    layout = case['layout']
    fdefs = [] if layout == 'base' else [BULK]
    bases, assocs = [], []
    for k, inp in enumerate(case['inputs']):
        sub = d
        if case.get('spread') and k % 2 == 1:
            sub = d / f'elsewhere{k}'
            sub.mkdir(exist_ok=True)
        p = sub / f'{inp["name"]}.nc'
        ap = sub / f'A_{inp["name"]}.nc'
        trajs = inp['trajs']
        neg = case['negative'] if k == case['bad_at'] else None
        kw = {}
        if layout == 'assoc':
            kw['associated_files'] = [(ap, [sc.fs_name(BULK)])]
        with TS.create(base_file=p, **kw) as s:
            for t in trajs:
                desc = t
                fd = fdefs
                if neg == 'fieldset':
                    fd = fdefs + [OTHER]
                    desc = dict(t, extras=dict(t['extras'], **{sc.fs_name(OTHER): [{'seed': 3}]}))
                if neg == 'identified_mix':
                    desc = dict(t, flight_id=(None if case['identified'] else 10**6 + t['seed'] % 1000 + len(bases) * 7919))
                s.add(sc.build_traj(desc, fd))
        bases.append(p)
        assocs.append(ap)
    return bases, assocs


def body(ctx: core.Ctx, case: dict):
    from AEIC.trajectories import TrajectoryStore as TS

    ctx.case(case)
    sc.register_fieldset(BULK)
    sc.register_fieldset(OTHER)
    TS.active_in_thread = None
    d = ctx.fresh_dir()
    layout = case['layout']
    fdefs = [] if layout == 'base' else [BULK]
    store = None
    try:
        bases, assocs = _make_inputs(case, d, TS)
        out = d / 'merged.aeic-store'
        kwargs = {}
        if case['naming'] == 'explicit':
            kwargs['input_stores'] = bases
        else:
            fmt = 'p_{index}.nc' if case['naming'] == 'pattern' else 'p_{index:03d}.nc'
            kwargs['input_stores_pattern'] = d / fmt
            kwargs['input_stores_index_range'] = (case['first'], case['first'] + len(bases) - 1)
        if case['meta']:
            kwargs['title'] = 'merged title'
        model = [t for inp in case['inputs'] for t in inp['trajs']]
        sizes = [len(inp['trajs']) for inp in case['inputs']]
        labels = {layout, case['naming'], 'identified' if case['identified'] else 'unidentified', f'k={len(bases)}'}
        if case.get('spread') and len(bases) > 1:
            labels.add('inputs_in_different_directories')
        if case['negative']:
            labels.add('negative_' + case['negative'])
            try:
                TS.merge(output_store=out, **kwargs)
            except core.PASS_THROUGH:
                raise
            except Exception:  # noqa: BLE001  refusal expected
                ctx.label(*labels)
                ctx.mark_nontrivial({'neg': case['negative'], 'sizes': sizes, 'layout': layout})
                # refused means nothing happened: the inputs are where they were (so the consistent ones can be merged)
                gone = [b.name for b in bases if not b.exists()]
                if gone:
                    ctx.fail('refusal.moved_inputs', 'mismatch', 'TrajectoryStore.merge', case['negative'],
                             f'merge refused the inputs ({case["negative"]}) but {gone} are no longer in place', case)
                return
            ctx.fail('refusal.accepted', 'mismatch', 'TrajectoryStore.merge', case['negative'],
                     f'merge accepted inputs that must be refused ({case["negative"]})', case)
            return
        try:
            TS.merge(output_store=out, **kwargs)
            assoc_out = None
            if layout == 'assoc':
                assoc_out = d / 'merged_assoc.aeic-store'
                alt_sizes = sizes[::-1]
                if case.get('rechunk') and alt_sizes != sizes and min(sizes) > 0:
                    # same trajectories in the same overall order, cut at other places: positions inside the
                    # associated merged store have to be looked up in its own size index
                    (d / 'alt').mkdir()
                    alt, at = [], 0
                    try:
                        for k, n_k in enumerate(alt_sizes):
                            ap = d / 'alt' / f'A_alt{k}.nc'
                            with TS.create(base_file=d / 'alt' / f'altbase{k}.nc',
                                           associated_files=[(ap, [sc.fs_name(BULK)])]) as s_alt:
                                for t in model[at:at + n_k]:
                                    s_alt.add(sc.build_traj(t, fdefs))
                            at += n_k
                            alt.append(ap)
                    except core.PASS_THROUGH:
                        raise
                    except ValueError:
                        # a part whose first trajectory carries fewer species than a later one cannot be written
                        # (the first addition fixes the species of a file): keep the original parts
                        alt = None
                    if alt:
                        assocs = alt
                        labels.add('assoc_parts_cut_differently')
                TS.merge(output_store=assoc_out, input_stores=assocs)
            store = TS.open(base_file=out, associated_files=[assoc_out] if assoc_out else None,
                            cache_size_mb=case['cache_mb'])
        except core.PASS_THROUGH:
            raise
        except Exception as e:  # noqa: BLE001
            ctx.fail_exc('merge', e, '', case)
            return
        if len(store) != len(model):
            ctx.fail('len', 'mismatch', 'TrajectoryStore.__len__', '', f'merged len {len(store)} != sum of inputs {len(model)} (sizes {sizes})', case)
        order = list(range(len(model)))
        if case['cache_mb'] == 1:
            order = order[::-1]
        for i in order:
            try:
                t = store[i]
            except core.PASS_THROUGH:
                raise
            except Exception as e:  # noqa: BLE001
                ctx.fail_exc('getitem', e, '', case)
                continue
            diffs = [x for x in sc.compare_traj(t, model[i], fdefs) if not (x[3] == 'unset_not_none' and x[2] == 'str')]
            if diffs:
                other = [j for j in range(len(model)) if j != i and not [
                    x for x in sc.compare_traj(t, model[j], fdefs) if not (x[3] == 'unset_not_none' and x[2] == 'str')]]
                what = f'merged[{i}] equals input trajectory {other[0]}' if other else f'{diffs[0][0]}: {diffs[0][4]}'
                ctx.fail('item', 'mismatch', 'TrajectoryStore.__getitem__', 'order' if other else diffs[0][3],
                         f'{what} (sizes {sizes})', case)
        for beyond in (0, 1, 100):
            try:
                store[len(model) + beyond]
            except IndexError:
                pass
            except core.PASS_THROUGH:
                raise
            except Exception as e:  # noqa: BLE001
                ctx.fail_exc('out_of_range', e, '', case)
            else:
                ctx.fail('out_of_range', 'mismatch', 'TrajectoryStore.__getitem__', '', f'index {len(model) + beyond} did not raise IndexError', case)
        n_iter = sum(1 for _ in store)
        if n_iter != len(model):
            ctx.fail('iterate', 'mismatch', 'TrajectoryStore.__iter__', '', f'iteration yielded {n_iter} of {len(model)}', case)
        if case['identified']:
            for i, desc in enumerate(model):
                try:
                    t = store.get_flight(desc['flight_id'])
                except core.PASS_THROUGH:
                    raise
                except Exception as e:  # noqa: BLE001
                    ctx.fail_exc('get_flight', e, '', case)
                    break
                if t is None:
                    ctx.fail('get_flight.lost', 'mismatch', 'TrajectoryStore.get_flight', '', f'id {desc["flight_id"]} (merged position {i}) not found', case)
                    break
                diffs = [x for x in sc.compare_traj(t, desc, fdefs) if not (x[3] == 'unset_not_none' and x[2] == 'str')]
                if diffs:
                    ctx.fail('get_flight.wrong', 'mismatch', 'TrajectoryStore.get_flight', '', f'id {desc["flight_id"]} returned another trajectory ({diffs[0][0]}: {diffs[0][4]})', case)
                    break
            absent = max(d_['flight_id'] for d_ in model) + 1
            if store.get_flight(absent) is not None:
                ctx.fail('get_flight.invented', 'mismatch', 'TrajectoryStore.get_flight', '', 'unknown id returned a trajectory', case)
        else:
            try:
                store.get_flight(1)
            except RuntimeError:
                pass
            except core.PASS_THROUGH:
                raise
            except Exception as e:  # noqa: BLE001
                ctx.fail_exc('get_flight.unidentified', e, '', case)
            else:
                ctx.fail('get_flight.unidentified', 'mismatch', 'TrajectoryStore.get_flight', '', 'unidentified merged store did not refuse get_flight', case)
        if case['meta'] and store.global_attributes.get('title') != 'merged title':
            ctx.fail('metadata', 'mismatch', 'TrajectoryStore.merge', 'title', f'title {store.global_attributes.get("title")!r}', case)
        sp_sets = {tuple(sorted(sc.desc_species(t))) for inp in case['inputs'] for t in inp['trajs'][:1]}
        if len(sp_sets) > 1:
            labels.add('species_differ_between_inputs')
        names = [inp['name'] for inp in case['inputs']]
        if names != sorted(names):
            labels.add('order_differs_from_name_order')
        ctx.label(*labels)
        if len(sizes) >= 2 and len(set(sizes)) >= 2:
            ctx.mark_nontrivial({'sizes': sizes, 'layout': layout, 'id': case['identified'], 'naming': case['naming'], 'names': names})
        ctx.sample({'layout': layout, 'naming': case['naming'], 'identified': case['identified'], 'names': names, 'sizes': sizes})
    finally:
        if store is not None:
            try:
                store.close()
            except Exception:  # noqa: BLE001
                pass
        import gc

        gc.collect()
        TS.active_in_thread = None


def run(ctx: core.Ctx):
    ctx.level = 'exploration'
    ctx.rule = (
        'Hypothesis-generated merge cases: 1-5 input stores of uneven sizes 1-7, layout in {base, base+species field set, '
        'base+associated file merged separately}, identified or not, explicit lists in an order different from name order or '
        'numbered patterns, equal or differing species sets per input, 1 MB or large cache; oracle = concatenated list/dict '
        'model: len, every index, IndexError beyond the end, iteration count, every id, unknown id, title metadata; negative '
        'class (different field set / identified mix) must be refused. Non-trivial = >= 2 inputs with >= 2 different sizes '
        '(or a refused negative case); distinct = (sizes, layout, identified, naming, names).'
    )
    ctx.assumptions = ['ids unique across inputs', 'input file names are distinct and end in .nc']
    core.run_given(ctx, case_strategy(), lambda c: body(ctx, c), ctx.n(100, 600))


def replay(ctx: core.Ctx, case):
    body(ctx, case)
