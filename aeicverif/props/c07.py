"""C07 — store indices follow insertion order across sessions and cache evictions."""

from __future__ import annotations

from .. import core
from ._store_machine import StoreMachine, plan_strategy, replay_any, run_plan

SHARDED = True


class C07Machine(StoreMachine):
    NONTRIVIAL_FLAGS = {'old_read_after_add_in_append', 'reload_after_eviction', 'two_reopens'}
    ENABLE_BLOCKED_FIRST = True  # "length = number of successful additions": an unsuccessful first one must not count or derail


def run(ctx: core.Ctx):
    ctx.level = 'exploration'
    ctx.rule = (
        'Hypothesis rule-based histories (<= 40 steps) over one store file: create(file|memory, cache 1/2/2048 MB), add '
        '(small ~10 kB or bulky ~300 kB estimated size, so a 1 MB cache evicts after 3 adds), read (any/old/newest/oldest), '
        'read_out_of_range, iterate, sync, close, reopen(read|append), save, add on read-only; reference model = Python '
        'list; invariant after every rule: len and three indices (oldest, newest, rotating) field-by-field equal to the '
        'model; teardown: close, reopen read-only, full scan. evaluations = rule executions. A history is non-trivial if it '
        'reads an index older than the session start after an add in an append session, reloads an evicted item of the '
        'current session, or reopens at least twice; distinct = hash of the operation log.'
    )
    ctx.assumptions = [
        'cache sizes are whole MB >= 1 and every single trajectory fits',
        'eviction state is observed through the cache object (membership, currsize) only to label cases and to decide '
        'whether an in-memory refusal was due',
    ]
    core.run_machine(ctx, C07Machine, max_examples=ctx.n(25, 250), steps=40)
    core.run_given(ctx, plan_strategy(), lambda p: run_plan(C07Machine, ctx, p), ctx.n(35, 300), salt=20)


def replay(ctx: core.Ctx, case):
    replay_any(C07Machine, ctx, case)
