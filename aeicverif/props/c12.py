"""C12 — emission-index and atmosphere functions follow their cited methods.

Differential property test.  Every public building block is compared with an
independent *scalar* reference written from the equation the docstring cites
(``math`` module only, constants typed in from the publications, no numpy code
shared with the implementation), at rel 1e-9, plus laws that need no
reference (pressure/altitude inverse, continuity at the tropopause, sulfur
atoms conserved, finite and non-negative, linear scaling in the certification
indices, exactly one thrust category monotone in fuel flow, speciation
fractions sum to 1).

Sub-checks (one Hypothesis run each, own salt, clause prefix = sub-check):
  isa, sls, cat, nox, hcco, sox, pmvol, scope11, meem
A case is a plain JSON dict {'sub': <name>, ...concrete numbers...};
``replay`` dispatches on 'sub'.
"""

from __future__ import annotations

import math
import warnings

from hypothesis import strategies as st

from .. import core

SHARDED = True
REL = 1e-9

# --------------------------------------------------------------------------
# published constants (typed in, NOT imported from AEIC.constants)

G0 = 9.80665  # m/s2
R_AIR = 287.05287  # J/kg/K
T0 = 288.15  # K
P0 = 101325.0  # Pa
BETA = -0.0065  # K/m
H_TROP = 11000.0  # m
KAPPA = 1.4
H_MAX = 25000.0

MODES = ('idle', 'approach', 'climb', 'takeoff')


def close(a: float, b: float, rel: float = REL, abs_: float = 0.0) -> bool:
    if not (math.isfinite(a) and math.isfinite(b)):
        return False
    return abs(a - b) <= rel * max(abs(a), abs(b)) + abs_


def p10(x: float) -> float:
    """10**x; inf instead of OverflowError."""
    try:
        return math.pow(10.0, x)
    except OverflowError:
        return math.inf


# --------------------------------------------------------------------------
# reference implementations (scalar, math module)


def ref_T(h: float) -> float:
    """ICAO/BADA ISA temperature, isothermal above the 11 km tropopause."""
    return T0 + BETA * h if h <= H_TROP else T0 + BETA * H_TROP


def ref_p(h: float) -> float:
    """ICAO/BADA ISA pressure: power law below, exponential above 11 km."""
    t_trop = T0 + BETA * H_TROP
    if h <= H_TROP:
        return P0 * math.pow((T0 + BETA * h) / T0, -G0 / (BETA * R_AIR))
    p_trop = P0 * math.pow(t_trop / T0, -G0 / (BETA * R_AIR))
    return p_trop * math.exp(-G0 * (h - H_TROP) / (R_AIR * t_trop))


def ref_h(p: float) -> float:
    """Inverse of ref_p."""
    t_trop = T0 + BETA * H_TROP
    p_trop = P0 * math.pow(t_trop / T0, -G0 / (BETA * R_AIR))
    if p >= p_trop:
        return (T0 / BETA) * (math.pow(p / P0, -BETA * R_AIR / G0) - 1.0)
    return H_TROP - (R_AIR * t_trop / G0) * math.log(p / p_trop)


def ref_sls(ff: float, p: float, t: float, mach: float, n_eng: int, z: float = 3.8, p_sl: float = 101325.0,
            t_sl: float = 288.15) -> float:
    """DuBois & Paynter (2006) Eq. 40, per engine."""
    theta = t / t_sl
    delta = p / p_sl
    return (ff / n_eng) * math.pow(theta, z) / delta * math.exp(0.2 * mach * mach)


def ref_cat(ff: float, cal) -> tuple[str, ...]:
    """Allowed thrust categories for one fuel flow (documented mid-point rule).
    With ill-ordered thresholds both documented conditions can hold; then
    either of the two categories is accepted."""
    low = (cal[0] + cal[1]) / 2.0
    app = (cal[1] + cal[2]) / 2.0
    is_idle = ff <= low
    is_high = ff > app
    if is_idle and is_high:
        return ('idle', 'climb')
    if is_idle:
        return ('idle',)
    if is_high:
        return ('climb',)
    return ('approach',)


RANK = {'idle': 0, 'approach': 1, 'climb': 2, 'takeoff': 2}


def ref_speciation() -> dict:
    """NOx speciation from the documented nominal values (HONO 0.75 / 4.5 /
    4.5 % of NOy for high / low / approach; NO2 7.5 / 86.5 / 16 % of
    NOy-HONO)."""
    out = {}
    for cat, hono, no2r in (('climb', 0.75, 7.5), ('idle', 4.5, 86.5), ('approach', 4.5, 16.0)):
        no2 = no2r * (100.0 - hono) / 100.0
        no = 100.0 - hono - no2
        out[cat] = (no / 100.0, no2 / 100.0, hono / 100.0)
    out['takeoff'] = out['climb']
    return out


SPEC = ref_speciation()


def ref_nox_fit(cal_ff, cal_ei):
    """Single log-log least-squares line through the four certification
    points (the documented simplification), closed form."""
    x = [math.log10(f if f > 0 else 1e-2) for f in cal_ff]
    y = [math.log10(e) for e in cal_ei]
    xm = math.fsum(x) / 4.0
    ym = math.fsum(y) / 4.0
    sxx = math.fsum((a - xm) ** 2 for a in x)
    sxy = math.fsum((a - xm) * (b - ym) for a, b in zip(x, y))
    slope = sxy / sxx
    return slope, ym - slope * xm


def ref_nox_correction(t: float, p: float) -> float:
    """Eq. 44-45: humidity (60 % RH), theta, delta correction."""
    theta = t / 288.15
    delta = p / 101325.0
    tk = t + 0.01  # T[degC] + 273.16
    beta = (
        7.90298 * (1.0 - 373.16 / tk)
        + 3.00571
        + 5.02808 * math.log10(373.16 / tk)
        + 1.3816e-7 * (1.0 - p10(11.344 * (1.0 - tk / 373.16)))
        + 8.1328e-3 * (p10(3.49149 * (1.0 - 373.16 / tk)) - 1.0)
    )
    pv = 0.014504 * p10(beta)
    phi = 0.6
    omega = 0.62198 * phi * pv / (delta * 14.696 - phi * pv)
    hum = -19.0 * (omega - 0.0063)
    return math.exp(hum) * math.sqrt(math.pow(delta, 1.02) / math.pow(theta, 3.3))


def ref_nox(ff: float, fit, t: float, p: float) -> float:
    slope, icpt = fit
    fe = ff if ff > 0 else 1e-2
    return p10(slope * math.log10(fe) + icpt) * ref_nox_correction(t, p)


class HCCOFit:
    """BFFM2 / SAGE bilinear log-log fit with documented rules (a)-(c)."""

    def __init__(self, cal, ei):
        lg = math.log10
        f0, f1, f2, _f3 = cal
        e0, e1, e2, e3 = ei
        den = lg(f1) - lg(f0)
        num = lg(e1) - lg(e0)
        # slanted line through the idle and approach points; duplicate flows
        # give a flat lower segment (documented)
        self.den = den
        slope = 0.0 if den == 0.0 else num / den
        self.raw_slope = slope
        anchor_f, anchor_e = lg(f0), lg(e0)
        horz = 0.5 * (lg(e2) + lg(e3))
        if slope == 0.0:
            xi = lg(f1)
        else:
            # intersection of slanted line with the horizontal line
            xi = anchor_f + (horz - anchor_e) / slope
        self.raw_xi = xi
        self.margin_a = abs(xi - lg(f2))
        if xi > lg(f2):
            xi = lg(f2)
            branch = 'a_clamp_climb_neg' if slope < 0 else ('a_clamp_climb_pos' if slope > 0 else 'a_clamp_climb_flat')
        elif xi < lg(f1) and slope < 0.0:
            horz = lg(e1)
            xi = lg(f1)
            branch = 'b_low_intercept'
        elif slope >= 0.0:
            branch = 'c_flat_pos' if slope > 0 else 'c_flat_zero'
            slope = 0.0
            anchor_f = 0.0
            anchor_e = horz
            xi = lg(f1)
        else:
            branch = 'normal_bilinear'
        self.slope, self.anchor_f, self.anchor_e, self.horz, self.xi = slope, anchor_f, anchor_e, horz, xi
        self.branch = branch
        self.f_idle = f0
        # when a rule clamps the break point it is, by definition, log10 of a calibration flow: evaluating exactly at
        # that calibration flow hits the break exactly (same log10 of the same number) and the documented ">=" applies
        self.clamp_flow = None if branch == 'normal_bilinear' else (f2 if branch.startswith('a_') else f1)

    def values(self, ff: float, t: float, p: float) -> tuple[list, str]:
        """Acceptable values for ff > 0 (two at a segment tie) and the segment."""
        lf = math.log10(ff)
        lower = p10(self.slope * (lf - self.anchor_f) + self.anchor_e)
        upper = p10(self.horz)
        if self.clamp_flow is not None and ff == self.clamp_flow:
            cands, seg = [upper], 'horizontal_at_clamped_break'
        elif abs(lf - self.xi) <= 1e-12 * max(1.0, abs(self.xi)):
            cands, seg = [lower, upper], 'tie'
        elif lf < self.xi:
            cands, seg = [lower], 'slanted'
        else:
            cands, seg = [upper], 'horizontal'
        fac = math.pow(t / 288.15, 3.3) / math.pow(p / 101325.0, 1.02)
        if ff < self.f_idle:
            # ACRP low-thrust rule: 1 + (-52)(ff - ff_idle)
            fac *= 1.0 + 52.0 * (self.f_idle - ff)
            seg += '+lowthrust'
        return [c * fac for c in cands], seg


def ref_foa3_delta(thrust: float) -> float:
    """FOA3 delta [mg/g], linear between the ICAO modes 7/30/85/100 %."""
    xs = (7.0, 30.0, 85.0, 100.0)
    ys = (6.17, 56.25, 76.0, 115.0)
    if thrust <= xs[0]:
        return ys[0]
    if thrust >= xs[-1]:
        return ys[-1]
    for i in range(3):
        if xs[i] <= thrust <= xs[i + 1]:
            w = (thrust - xs[i]) / (xs[i + 1] - xs[i])
            return ys[i] + w * (ys[i + 1] - ys[i])
    raise AssertionError


AFR = {'idle': 106.0, 'approach': 83.0, 'climb': 51.0, 'takeoff': 45.0}


def ref_scope11(sn: float, mode: str, etype: str, bpr: float) -> float:
    """SCOPE11 nvPM mass EI [g/kg]; SN -1/0 = no data -> 0; SN capped at 40;
    bypass dilution only for mixed turbofans; unknown engine type -> 0."""
    if sn == -1 or sn == 0:
        return 0.0
    sn = min(sn, 40.0)
    cbc = 0.6484 * math.exp(0.0766 * sn) / (1.0 + math.exp(-1.098 * (sn - 3.064)))
    b = (1.0 + bpr) if etype == 'MTF' else 1.0
    kslm = math.log((3.219 * cbc * b * 1000.0 + 312.5) / (cbc * b * 1000.0 + 42.6))
    if etype == 'MTF' or etype == 'TF':
        q = 0.776 * AFR[mode] * b + 0.767
    else:
        q = 0.0
    return cbc * kslm * q / 1000.0


# --------------------------------------------------------------------------
# oracle self-test (values the references did not produce)


def selftest():
    def need(ok, what):
        if not ok:
            raise core.HarnessError(f'C12 oracle self-test failed: {what}')

    # ICAO Doc 7488 standard-atmosphere table (geopotential altitude)
    for h, t, p in (
        (0.0, 288.15, 101325.0), (1000.0, 281.65, 89874.6), (2000.0, 275.15, 79495.2),
        (5000.0, 255.65, 54019.9), (8000.0, 236.15, 35599.8), (11000.0, 216.65, 22632.1),
        (15000.0, 216.65, 12044.6), (20000.0, 216.65, 5474.89),
    ):
        need(close(ref_T(h), t, 1e-9), f'ISA T({h})')
        need(close(ref_p(h), p, 2e-5), f'ISA p({h}) {ref_p(h)} vs {p}')
        need(close(ref_h(p), h, 0, 0.2), f'ISA h({p})')
    # ambient pairs pinned in tests/test_emission_functions.py (notebook values)
    for h, p in ((1500.0, 84555.9940737564), (6000.0, 47181.0021852292),
                 (9000.0, 30742.4326120969), (2000.0, 79495.201934051)):
        need(close(ref_p(h), p, 1e-7), f'ISA p({h}) vs pinned')
    # Eq. 40, computed with bc
    need(close(ref_sls(1.0, 22632.04, 216.65, 0.8, 2), 0.860765540519806936, 1e-12), 'SLS fuel flow')
    need(close(ref_sls(1.3, 101325.0, 288.15, 0.0, 1), 1.3, 1e-15), 'SLS identity')
    # NOx: seven reference vectors produced in test-cases.ipynb
    ffs = [0.15377735, 0.19154479, 0.36525745, 0.54475802, 0.37317567, 0.17729855]
    tam = [288.15, 278.4, 249.15, 216.65, 229.65, 275.15]
    pam = [101325.0, 84555.9940737564, 47181.0021852292, 22632.0400950078, 30742.4326120969, 79495.201934051]
    fit = ref_nox_fit([0.4, 0.8, 1.2, 1.8], [30.0, 25.0, 20.0, 18.0])
    exp_nox = [42.65302497, 39.87840171, 30.13039678, 22.9420127, 27.77833904, 40.95955377]
    exp_no = [5.49904124, 5.14132294, 3.88456141, 2.95779899, 3.58132236, 5.28071047]
    exp_no2 = [35.2345976, 32.94255069, 24.88996752, 18.95182314, 22.94699142, 33.83566338]
    exp_hono = [1.91938612, 1.79452808, 1.35586786, 1.03239057, 1.25002526, 1.84317992]
    for i in range(6):
        v = ref_nox(ffs[i], fit, tam[i], pam[i])
        cat = ref_cat(ffs[i], [0.4, 0.8, 1.2, 1.8])
        need(cat == ('idle',), 'NOx vector category')
        no, no2, hono = SPEC['idle']
        need(close(v, exp_nox[i], 1e-6), f'NOx vector {i}: {v} vs {exp_nox[i]}')
        need(close(v * no, exp_no[i], 1e-6) and close(v * no2, exp_no2[i], 1e-6)
             and close(v * hono, exp_hono[i], 1e-6), f'NOx components {i}')
    need(close(SPEC['idle'][0], 0.128925, 1e-12) and close(SPEC['idle'][1], 0.826075, 1e-12)
         and close(SPEC['idle'][2], 0.045, 1e-12), 'speciation idle')
    fit = ref_nox_fit([0.8, 1.2, 1.6, 2.0], [30.0, 25.0, 20.0, 18.0])
    for ff, t, p, e in ((1.0, 288.15, 101325.0, 26.75988671), (1.5, 250.0, 25000.0, 14.4120521),
                        (2.0, 220.0, 15000.0, 11.92014638)):
        need(close(ref_nox(ff, fit, t, p), e, 1e-7), 'NOx integration vector')
    # speciation table of the AEIC v2 (matlab) implementation
    for cat, no, no2, hono in (('idle', 0.128925, 0.826075, 0.045), ('approach', 0.8022, 0.1528, 0.045),
                               ('climb', 0.9180625, 0.0744375, 0.0075)):
        need(all(close(a, b, 1e-9) for a, b in zip(SPEC[cat], (no, no2, hono))), f'speciation {cat}')
    # HC/CO: hand-derived expectations (bc) and the closed forms pinned in the tests
    f = HCCOFit([0.1, 0.3, 1.0, 1.2], [50.0, 5.0, 1.0, 1.0])
    need(f.branch == 'normal_bilinear' and close(f.raw_slope, -2.095903274289384604, 1e-12), 'HCCO slope')
    need(close(p10(f.xi), 0.646568734761314328, 1e-12), 'HCCO intercept')
    need(close(f.values(0.2, 288.15, 101325.0)[0][0], 11.696077861942626189, 1e-12), 'HCCO slanted value')
    need(close(f.values(0.05, 288.15, 101325.0)[0][0], 769.488721452917128, 1e-12), 'HCCO low-thrust value')
    need(close(f.values(0.9, 288.15, 101325.0)[0][0], 1.0, 1e-12), 'HCCO horizontal value')
    f = HCCOFit([0.3, 0.3, 0.7, 1.4], [10.0, 10.0, 5.0, 3.0])  # duplicate flows -> flat at sqrt(5*3)
    need(close(f.values(0.5, 288.15, 101325.0)[0][0], math.sqrt(15.0), 1e-12), 'HCCO duplicate flows')
    need(close(f.values(0.15, 288.15, 101325.0)[0][0], math.sqrt(15.0) * (1 + 52.0 * 0.15), 1e-12), 'HCCO duplicate low')
    f = HCCOFit([0.2, 0.3, 0.4, 0.5], [10.0, 11.0, 2.0, 1.0])  # positive slope -> flat at sqrt(2)
    need(f.branch == 'c_flat_pos' and close(f.values(0.35, 288.15, 101325.0)[0][0], math.sqrt(2.0), 1e-12), 'HCCO positive slope')
    f = HCCOFit([0.10569869, 0.40041291, 0.81271722, 0.86727924], [38.33753758, 2.4406048, 106.49710981, 13.57427593])
    need(f.branch == 'b_low_intercept' and close(f.values(0.5, 288.15, 101325.0)[0][0], 2.4406048, 1e-12), 'HCCO rule b')
    # FOA3 nodes and one hand value (50 %: 56.25 + 20/55*19.75)
    for x, y in ((7.0, 6.17), (30.0, 56.25), (85.0, 76.0), (100.0, 115.0), (50.0, 56.25 + 20.0 / 55.0 * 19.75)):
        need(close(ref_foa3_delta(x), y, 1e-13), f'FOA3 delta({x})')
    # SCOPE11, computed with bc
    need(close(ref_scope11(5.0, 'idle', 'TF', 2.0), 0.086642500175359801, 1e-12), 'SCOPE11 TF')
    need(close(ref_scope11(5.0, 'idle', 'MTF', 2.0), 0.250237162715808123, 1e-12), 'SCOPE11 MTF')
    need(close(ref_scope11(50.0, 'approach', 'MTF', 2.0), 3.152306813855378319, 1e-12), 'SCOPE11 SN cap')
    need(ref_scope11(-1.0, 'climb', 'MTF', 2.0) == 0.0 and ref_scope11(0.0, 'takeoff', 'TF', 2.0) == 0.0, 'SCOPE11 invalid SN')


# --------------------------------------------------------------------------
# access to the code under test


_NS = None


def aeic():
    global _NS
    if _NS is None:
        import types

        import numpy as np

        from AEIC.emissions.ei.hcco import EI_HCCO
        from AEIC.emissions.ei.nox import BFFM2_EINOx, NOx_speciation
        from AEIC.emissions.ei.pmnvol import PMnvol_MEEM, calculate_PMnvolEI_scope11
        from AEIC.emissions.ei.pmvol import EI_PMvol_FOA3, EI_PMvol_FuelFlow
        from AEIC.emissions.ei.sox import EI_SOx
        from AEIC.emissions.types import AtmosphericState
        from AEIC.emissions.utils import get_SLS_equivalent_fuel_flow, get_thrust_cat_cruise
        from AEIC.performance.edb import EDBEntry
        from AEIC.performance.types import ThrustMode, ThrustModeArray, ThrustModeValues
        from AEIC.types import Fuel
        from AEIC.utils import standard_atmosphere as sa

        _NS = types.SimpleNamespace(**{k: v for k, v in locals().items() if k != 'types'})
    return _NS


def tmv(vals):
    return aeic().ThrustModeValues(float(vals[0]), float(vals[1]), float(vals[2]), float(vals[3]))


def flist(x) -> list:
    """numpy result -> list of python floats (0-d arrays become one element)."""
    np = aeic().np
    return [float(v) for v in np.atleast_1d(np.asarray(x, dtype=float)).ravel()]


def call(ctx, clause, disc, fn, *a, **k):
    """Call the code under test; an exception is a discrepancy.  Returns
    (ok, result)."""
    try:
        with warnings.catch_warnings():
            warnings.simplefilter('ignore')  # numpy RankWarning / RuntimeWarning noise
            return True, fn(*a, **k)
    except core.PASS_THROUGH:
        raise
    except Exception as e:  # noqa: BLE001
        ctx.fail_exc(clause, e, disc)
        return False, None


# --------------------------------------------------------------------------
# strategies


def alt_st():
    return st.one_of(
        st.floats(0.0, H_MAX),
        st.floats(H_TROP, H_MAX),
        st.floats(10990.0, 11010.0),
        st.floats(H_TROP - 1e-6, H_TROP + 1e-6),
        st.sampled_from([0.0, H_TROP, H_MAX, math.nextafter(H_TROP, 0.0), math.nextafter(H_TROP, 1e9),
                         math.nextafter(H_MAX, 0.0), 1e-6, 10999.0, 11001.0, 20000.0]),
    )


PERM_ID = (0, 1, 2, 3)


@st.composite
def flows_st(draw, need_two_distinct=False):
    """Four positive calibration fuel flows: idle <= approach <= climb <=
    take-off with equal neighbours (ratio exactly 1) or clearly distinct
    (ratio >= 1.2); then, in ~1/3 of cases, permuted (non-monotone)."""
    f0 = draw(st.floats(0.005, 3.0))
    ratio = st.one_of(st.just(1.0), st.floats(1.2, 6.0), st.floats(1.2, 6.0), st.floats(1.2, 3.0), st.floats(2.0, 6.0))
    r = [draw(ratio), draw(ratio), draw(ratio)]
    if need_two_distinct and r == [1.0, 1.0, 1.0]:
        r[draw(st.integers(0, 2))] = 2.0
    fl = [f0, f0 * r[0], f0 * r[0] * r[1], f0 * r[0] * r[1] * r[2]]
    perm = draw(st.one_of(st.just(PERM_ID), st.just(PERM_ID), st.permutations(PERM_ID)))
    return [fl[i] for i in perm]


def flow_classes(cal) -> list:
    out = []
    out.append('cal_monotone' if all(cal[i] <= cal[i + 1] for i in range(3)) else 'cal_nonmonotone')
    if len(set(cal)) < 4:
        out.append('cal_equal_flows')
    if cal[0] == cal[1]:
        out.append('cal_idle_eq_approach')
    return out


@st.composite
def ff_eval_st(draw, cal, far=True):
    """One evaluation fuel flow placed relative to the calibration flows."""
    lo, hi = min(cal), max(cal)
    kind = draw(st.sampled_from(
        ['at_cal', 'mid', 'near', 'zero', 'neg', 'below', 'within', 'within', 'within', 'above', 'far']))
    if kind == 'at_cal':
        return draw(st.sampled_from(cal))
    if kind == 'mid':
        return draw(st.sampled_from([(cal[0] + cal[1]) / 2.0, (cal[1] + cal[2]) / 2.0]))
    if kind == 'near':
        base = draw(st.sampled_from(list(cal) + [(cal[0] + cal[1]) / 2.0, (cal[1] + cal[2]) / 2.0]))
        eps = draw(st.floats(1e-12, 1e-4))
        return base * (1.0 + eps) if draw(st.booleans()) else base * (1.0 - eps)
    if kind == 'zero':
        return 0.0
    if kind == 'neg':
        return -draw(st.floats(1e-6, 0.1))
    if kind == 'below':
        return lo * draw(st.floats(1e-3, 1.0))
    if kind == 'within':
        return draw(st.floats(lo, hi))
    if kind == 'above' or not far:
        return hi * draw(st.floats(1.0, 1.5))
    return hi * draw(st.floats(1.5, 15.0))


def ei_ratio_st():
    """Ratio between two certification indices: exactly 1, or clearly apart."""
    return st.one_of(st.just(1.0), st.floats(1.05, 300.0), st.floats(1.0 / 300.0, 0.95), st.floats(1.0 / 300.0, 0.95),
                     st.floats(0.05, 0.95))


@st.composite
def isa_case(draw):
    alts = draw(st.lists(alt_st(), min_size=1, max_size=12))
    p_lo = 2489.0  # just above p(25 km)
    ps = draw(st.lists(st.one_of(st.floats(p_lo, P0), st.floats(22600.0, 22660.0),
                                 st.floats(p_lo, 22632.0)), min_size=1, max_size=6))
    return {
        'sub': 'isa',
        'alts': alts,
        'ps': ps,
        'eps': draw(st.one_of(st.floats(1e-9, 1.0), st.floats(1e-12, 1e-6))),
        'over': draw(st.one_of(st.floats(25000.001, 1e5), st.just(math.nextafter(H_MAX, 1e9)))),
        'tas': draw(st.floats(0.0, 300.0)),
        'scalar': draw(st.booleans()),
    }


@st.composite
def sls_case(draw):
    n = draw(st.integers(1, 10))
    return {
        'sub': 'sls',
        'pts': [[draw(alt_st()), draw(st.one_of(st.floats(0.0, 0.95), st.just(0.0))),
                 draw(st.one_of(st.floats(0.0, 12.0), st.just(0.0)))] for _ in range(n)],
        'n_eng': draw(st.integers(1, 4)),
        'explicit_n': draw(st.booleans()),
        'k': draw(st.floats(0.01, 100.0)),
        # the documented optional reference values (exponent, sea-level pressure and temperature), each given or left out
        'refs': {k: draw(v) for k, v in (('z', st.floats(3.0, 4.5)), ('P_SL', st.floats(95000.0, 105000.0)),
                                        ('T_SL', st.floats(250.0, 320.0))) if draw(st.integers(0, 2)) == 0},
    }


@st.composite
def cat_case(draw):
    cal = draw(flows_st())
    n = draw(st.integers(1, 24))
    return {'sub': 'cat', 'cal': cal, 'ff': [draw(ff_eval_st(cal)) for _ in range(n)]}


@st.composite
def pts_st(draw, cal, max_n=16):
    n = draw(st.integers(1, max_n))
    # every third case also evaluates exactly at the four calibration flows (the nodes of every piecewise fit)
    at_nodes = draw(st.integers(0, 2)) == 0
    if draw(st.integers(0, 5)) == 0:
        a = draw(alt_st())
        return [[a, draw(ff_eval_st(cal))] for _ in range(n)] + ([[a, f] for f in cal] if at_nodes else []), True
    pts = [[draw(alt_st()), draw(ff_eval_st(cal))] for _ in range(n)]
    return pts + ([[pts[0][0], f] for f in cal] if at_nodes else []), False


@st.composite
def nox_case(draw):
    if draw(st.integers(0, 19)) == 0:
        cal = [draw(st.floats(0.005, 3.0))] * 4  # degenerate: laws only
    else:
        cal = draw(flows_st(need_two_distinct=True))
    e0 = draw(st.floats(0.5, 80.0))
    ei = [e0]
    for _ in range(3):
        ei.append(ei[-1] * draw(st.one_of(st.just(1.0), st.floats(0.2, 5.0))))
    pts, same_alt = draw(pts_st(cal))
    return {'sub': 'nox', 'cal': cal, 'ei': ei, 'pts': pts, 'same_alt': same_alt,
            'k': draw(st.floats(0.01, 100.0))}


@st.composite
def hcco_case(draw):
    target = draw(st.sampled_from(['free', 'free', 'normal', 'normal', 'a_neg', 'a_pos', 'b', 'c', 'eq_ei', 'eq_flow']))
    if target in ('normal', 'a_neg', 'a_pos', 'b', 'c') and draw(st.integers(0, 3)) > 0:
        # ordered, distinct flows so that the targeted branch can be built
        f0 = draw(st.floats(0.005, 3.0))
        cal = [f0]
        for _ in range(3):
            cal.append(cal[-1] * draw(st.floats(1.2, 6.0)))
    else:
        cal = draw(flows_st())
    if target == 'eq_flow':
        cal[1] = cal[0]
    f0, f1, f2, _f3 = cal
    e0 = draw(st.floats(0.01, 300.0))
    lg = math.log10
    built = False
    if target in ('normal', 'a_neg', 'a_pos', 'b', 'c') and f0 != f1:
        # construct the branch: choose the slope s and the intercept xi, derive
        # EI_approach from s and the horizontal level from xi
        mag = draw(st.floats(0.05, 4.0))
        s = mag if target in ('a_pos', 'c') else -mag
        e1 = e0 * math.pow(f1 / f0, s)
        if target == 'normal':
            lo_, hi_ = lg(f1), lg(f2)
            xi = lo_ + (hi_ - lo_) * draw(st.floats(0.05, 0.95)) if hi_ > lo_ else None
        elif target in ('a_neg', 'a_pos'):
            xi = lg(f2) + draw(st.floats(0.01, 1.0))
        elif target == 'b':
            xi = min(lg(f1), lg(f2)) - draw(st.floats(0.01, 1.0))
        else:
            xi = lg(f2) - draw(st.floats(0.01, 2.0))
        if xi is not None:
            horz = lg(e0) + s * (xi - lg(f0))
            if -5.0 < horz < 5.0 and 1e-5 < e1 < 1e5:
                r = draw(st.one_of(st.just(1.0), st.floats(0.3, 3.0)))
                ei = [e0, e1, p10(horz) * r, p10(horz) / r]
                built = True
    if not built:
        r1 = 1.0 if target == 'eq_ei' else draw(ei_ratio_st())
        ei = [e0, e0 * r1]
        ei.append(ei[-1] * draw(ei_ratio_st()))
        ei.append(ei[-1] * draw(ei_ratio_st()))
    pts, same_alt = draw(pts_st(cal))
    return {'sub': 'hcco', 'cal': cal, 'ei': ei, 'pts': pts, 'same_alt': same_alt,
            'scalar_atm': same_alt and draw(st.booleans()), 'k': draw(st.floats(0.01, 100.0))}


@st.composite
def sox_case(draw):
    return {
        'sub': 'sox',
        's_ppm': draw(st.one_of(st.floats(0.0, 3000.0), st.sampled_from([0.0, 600.0, 3000.0]))),
        'yield': draw(st.one_of(st.floats(0.0, 1.0), st.floats(0.0, 0.1), st.sampled_from([0.0, 0.02, 1.0]))),
        'ei_co2': draw(st.floats(2000.0, 3300.0)),
        'ei_h2o': draw(st.floats(1000.0, 1400.0)),
        'energy': draw(st.floats(40.0, 46.0)),
        'lifecycle': draw(st.one_of(st.none(), st.floats(0.0, 120.0))),
    }


@st.composite
def pmvol_case(draw):
    n = draw(st.integers(1, 16))
    thr = st.one_of(st.floats(7.0, 100.0), st.floats(7.0, 100.0), st.floats(7.0, 30.0), st.floats(85.0, 100.0),
                    st.sampled_from([7.0, 30.0, 85.0, 100.0]), st.sampled_from([7.0, 30.0, 85.0, 100.0]))
    if draw(st.integers(0, 3)) == 0:
        thr = st.one_of(thr, st.floats(0.0, 7.0), st.floats(100.0, 110.0))
    return {
        'sub': 'pmvol',
        'thrust': [draw(thr) for _ in range(n)],
        'hc': [draw(st.floats(1e-4, 200.0)) for _ in range(n)],
        'modes': [draw(st.sampled_from(MODES)) for _ in range(n)],
        'ff': [draw(st.floats(0.0, 12.0)) for _ in range(n)],
        'two_d': draw(st.booleans()),
        'k': draw(st.floats(0.01, 100.0)),
    }


def sn_st():
    return st.one_of(st.just(-1.0), st.just(0.0), st.floats(0.01, 60.0), st.floats(0.01, 60.0),
                     st.sampled_from([40.0, 3.064, 1.0, 60.0]))


@st.composite
def scope11_case(draw):
    return {
        'sub': 'scope11',
        'sn': [draw(sn_st()) for _ in range(4)],
        'etype': draw(st.sampled_from(['TF', 'MTF', 'MTF', 'TP', 'TS'])),
        'bpr': draw(st.one_of(st.floats(0.0, 12.0), st.just(0.0))),
    }


@st.composite
def meem_case(draw):
    kind = draw(st.sampled_from(['mission', 'mission', 'low_mission', 'random', 'level', 'high_random']))
    n = draw(st.integers(1, 14))
    if kind in ('mission', 'low_mission'):
        top = draw(st.floats(5000.0, H_MAX)) if kind == 'mission' else draw(st.one_of(
            st.floats(300.0, 6000.0),
            # profiles topping out at (or a hair above) the 3000 m reference level of the pressure-coefficient ramp
            st.sampled_from([3000.0, 3000.0, 3000.0000001, 3000.5, 3001.0])))
        start = draw(st.floats(0.0, min(3000.0, top)))
        nc = draw(st.integers(1, 5))
        nl = draw(st.integers(1, 4))
        nd = draw(st.integers(0, 5))
        up = sorted(start + (top - start) * draw(st.floats(0.0, 1.0)) for _ in range(nc))
        down = sorted((top * draw(st.floats(0.0, 1.0)) for _ in range(nd)), reverse=True)
        alts = up + [top] * nl + down
    elif kind == 'level':
        alts = [draw(alt_st())] * n
    elif kind == 'high_random':
        alts = [draw(st.floats(5000.0, H_MAX)) for _ in range(n)]
        alts[draw(st.integers(0, n - 1))] = draw(st.floats(12000.0, H_MAX))
    else:
        alts = [draw(alt_st()) for _ in range(n)]
    have_mass = draw(st.booleans())
    have_num = draw(st.booleans())
    max_thr = st.sampled_from([-1.0, 0.575, 0.925])
    sn_all_invalid = draw(st.integers(0, 7)) == 0
    return {
        'sub': 'meem',
        'kind': kind,
        'alts': alts,
        'mach': [draw(st.floats(0.0, 0.95)) for _ in alts],
        'etype': draw(st.sampled_from(['TF', 'MTF', 'TP'])),
        'bpr': draw(st.floats(0.0, 12.0)),
        'sn': [-1.0] * 4 if sn_all_invalid else [draw(sn_st()) for _ in range(4)],
        'mass': [draw(st.floats(0.05, 500.0)) for _ in range(4)] if have_mass else None,
        'num': [draw(st.floats(1e12, 1e16)) for _ in range(4)] if have_num else None,
        'pr': draw(st.floats(1.5, 50.0)),
        'mass_max': draw(st.floats(0.05, 800.0)),
        'mass_max_thr': draw(max_thr),
        'num_max': draw(st.floats(1e12, 2e16)),
        'num_max_thr': draw(max_thr),
        'k': draw(st.floats(0.01, 100.0)),
    }


# --------------------------------------------------------------------------
# bodies


def region(h: float) -> str:
    if abs(h - H_TROP) <= 1.0:
        return 'tropopause'
    return 'stratosphere' if h > H_TROP else 'troposphere'


def body_isa(ctx, case):
    A = aeic()
    np, sa = A.np, A.sa
    ctx.case(case)
    alts = [float(a) for a in case['alts']]
    regs = {region(h) for h in alts}
    ctx.label(*[f'isa.{r}' for r in sorted(regs)])
    if regs & {'stratosphere', 'tropopause'}:
        ctx.mark_nontrivial(case)
    sample_once(ctx, case)
    arr = np.array(alts, dtype=float)

    def both(clause, fn, xs):
        """Evaluate fn on the array and on each scalar; results must agree."""
        ok, va = call(ctx, clause, 'array', fn, np.array(xs, dtype=float))
        if not ok:
            return None
        va = flist(va)
        if len(va) != len(xs):
            ctx.fail(clause, 'mismatch', fn.__name__, 'shape', f'{len(va)} values for {len(xs)} inputs')
            return None
        if case['scalar']:
            for x, v in zip(xs, va):
                ok, vs = call(ctx, clause, 'scalar', fn, x)
                if ok and not close(flist(vs)[0], v, 1e-10, 1e-7):  # not bitwise: numpy's scalar and array paths round differently (found by the thorough tier)
                    ctx.fail(clause, 'mismatch', fn.__name__, 'scalar_vs_array', f'{fn.__name__}({x!r}) scalar {vs} array {v}')
        return va

    t = both('isa.temperature', sa.temperature_at_altitude_isa_bada4, alts)
    p = both('isa.pressure', sa.pressure_at_altitude_isa_bada4, alts)
    if t is not None:
        for h, v in zip(alts, t):
            if not close(v, ref_T(h)):
                ctx.fail('isa.temperature', 'mismatch', 'temperature_at_altitude_isa_bada4', region(h),
                         f'T({h!r}) = {v!r}, ISA {ref_T(h)!r}')
    if p is not None:
        for h, v in zip(alts, p):
            if not close(v, ref_p(h)):
                ctx.fail('isa.pressure', 'mismatch', 'pressure_at_altitude_isa_bada4', region(h),
                         f'p({h!r}) = {v!r}, ISA {ref_p(h)!r}')
        # inverse law: altitude_from_pressure(pressure(h)) == h
        ok, back = call(ctx, 'isa.inverse_alt', 'array', sa.altitude_from_pressure_isa_bada4, np.array(p))
        if ok:
            for h, hb in zip(alts, flist(back)):
                if not close(hb, h, 1e-10, 1e-7):
                    ctx.fail('isa.inverse_alt', 'mismatch', 'altitude_from_pressure_isa_bada4', region(h),
                             f'altitude_from_pressure(pressure({h!r})) = {hb!r}')
        # strictly decreasing pressure (law)
        order = sorted(range(len(alts)), key=lambda i: alts[i])
        for i, j in zip(order, order[1:]):
            if alts[j] - alts[i] > 1e-6 and not p[j] < p[i]:
                ctx.fail('isa.pressure_monotone', 'mismatch', 'pressure_at_altitude_isa_bada4', region(alts[j]),
                         f'p({alts[i]!r})={p[i]!r} <= p({alts[j]!r})={p[j]!r}')
    # integer-typed altitudes (a Python int or an int ndarray are legal inputs) must give the same values
    ints = sorted({int(round(h)) for h in alts if 0 <= round(h) <= 25000})[:6]
    if ints:
        ctx.label('isa.integer_typed_altitudes')
        for fn, ref, nm in ((sa.temperature_at_altitude_isa_bada4, ref_T, 'isa.temperature'),
                            (sa.pressure_at_altitude_isa_bada4, ref_p, 'isa.pressure')):
            ok, vi = call(ctx, nm, 'int_array', fn, np.array(ints, dtype=np.int64))
            if ok:
                for h, v in zip(ints, flist(vi)):
                    if not close(v, ref(float(h))):
                        ctx.fail(nm, 'mismatch', fn.__name__, 'integer_dtype', f'{fn.__name__}(int array, {h}) = {v!r}, ISA {ref(float(h))!r}')
            ok, v1 = call(ctx, nm, 'int_scalar', fn, ints[0])
            if ok and not close(flist(v1)[0], ref(float(ints[0]))):
                ctx.fail(nm, 'mismatch', fn.__name__, 'integer_dtype', f'{fn.__name__}({ints[0]}) = {flist(v1)[0]!r}, ISA {ref(float(ints[0]))!r}')
    # inverse law the other way round, and the altitude reference
    ps = [float(x) for x in case['ps']]
    hs = both('isa.altitude', sa.altitude_from_pressure_isa_bada4, ps)
    if hs is not None:
        for pp, hh in zip(ps, hs):
            if not close(hh, ref_h(pp), REL, 1e-6):
                ctx.fail('isa.altitude', 'mismatch', 'altitude_from_pressure_isa_bada4', region(ref_h(pp)),
                         f'h({pp!r}) = {hh!r}, ISA {ref_h(pp)!r}')
        ok, pb = call(ctx, 'isa.inverse_p', 'array', sa.pressure_at_altitude_isa_bada4, np.array(hs))
        if ok:
            for pp, v, hh in zip(ps, flist(pb), hs):
                if not close(v, pp, 1e-10):
                    ctx.fail('isa.inverse_p', 'mismatch', 'pressure_at_altitude_isa_bada4', region(hh),
                             f'pressure(altitude_from_pressure({pp!r})) = {v!r}')
    # continuity at the tropopause (no reference): values eps either side
    eps = float(case['eps'])
    ok, tt = call(ctx, 'isa.continuity', 'T', sa.temperature_at_altitude_isa_bada4, np.array([H_TROP - eps, H_TROP, H_TROP + eps]))
    ok2, pp3 = call(ctx, 'isa.continuity', 'p', sa.pressure_at_altitude_isa_bada4, np.array([H_TROP - eps, H_TROP, H_TROP + eps]))
    if ok and ok2:
        tt, pp3 = flist(tt), flist(pp3)
        if abs(tt[2] - tt[0]) > 0.0065 * 2 * eps * 1.001 + 1e-11 or abs(tt[1] - tt[0]) > 0.0065 * eps * 1.001 + 1e-11:
            ctx.fail('isa.continuity', 'mismatch', 'temperature_at_altitude_isa_bada4', 'tropopause',
                     f'T jumps at 11 km: eps={eps!r} values {tt}')
        # |dp/p| = g/(R T) dh = dh / 6341.6 m
        for a, b, d in ((pp3[0], pp3[1], eps), (pp3[1], pp3[2], eps)):
            if not (b <= a and (a - b) / a <= d / 6300.0 + 1e-13):
                ctx.fail('isa.continuity', 'mismatch', 'pressure_at_altitude_isa_bada4', 'tropopause',
                         f'p jumps at 11 km: eps={eps!r} values {pp3}')
    # documented range error above 25 km
    over = float(case['over'])
    for fn in (sa.temperature_at_altitude_isa_bada4, sa.pressure_at_altitude_isa_bada4, sa.speed_of_sound_at_altitude):
        try:
            r = fn(np.array([alts[0], over]))
        except ValueError:
            pass
        except core.PASS_THROUGH:
            raise
        except Exception as e:  # noqa: BLE001
            ctx.fail_exc('isa.range_error', e, 'above_25km')
        else:
            ctx.fail('isa.range_error', 'returned', fn.__name__, 'above_25km', f'{fn.__name__}({over!r}) returned {r!r}')
    # 25 km itself is inside the documented range
    call(ctx, 'isa.range_error', 'at_25km', sa.pressure_at_altitude_isa_bada4, np.array([H_MAX]))
    # ideal-gas density and the per-point atmospheric state used by the EI models
    if t is not None and p is not None:
        ok, rho = call(ctx, 'isa.density', '', sa.calculate_air_density, np.array(p), np.array(t))
        if ok:
            for h, v, pv, tv in zip(alts, flist(rho), p, t):
                if not close(v, pv / (R_AIR * tv)):
                    ctx.fail('isa.density', 'mismatch', 'calculate_air_density', region(h), f'rho={v!r} at {h!r}')
        tas = float(case['tas'])
        ok, stt = call(ctx, 'isa.state', '', A.AtmosphericState, arr, np.full(len(alts), tas))
        if ok:
            for h, tv, pv, mv in zip(alts, flist(stt.temperature), flist(stt.pressure), flist(stt.mach)):
                if not (close(tv, ref_T(h)) and close(pv, ref_p(h))
                        and close(mv, tas / math.sqrt(KAPPA * R_AIR * ref_T(h)))):
                    ctx.fail('isa.state', 'mismatch', 'AtmosphericState', region(h),
                             f'state at {h!r}: T={tv!r} p={pv!r} M={mv!r}')


def body_sls(ctx, case):
    A = aeic()
    np = A.np
    ctx.case(case)
    pts = case['pts']
    alts = [float(q[0]) for q in pts]
    mach = [float(q[1]) for q in pts]
    ff = [float(q[2]) for q in pts]
    t = [ref_T(h) for h in alts]
    p = [ref_p(h) for h in alts]
    n_eng = int(case['n_eng']) if case['explicit_n'] else 2
    kw = {'n_eng': n_eng} if case['explicit_n'] else {}
    refs = case.get('refs') or {}
    kw.update(refs)
    rkw = {'z': refs.get('z', 3.8), 'p_sl': refs.get('P_SL', 101325.0), 't_sl': refs.get('T_SL', 288.15)}
    for k in refs:
        ctx.label('sls.explicit_' + k)
    if any(h > 0 and m > 0 and f > 0 for h, m, f in zip(alts, mach, ff)):
        ctx.mark_nontrivial(case)
        sample_once(ctx, case)
    ctx.label('sls.explicit_n_eng' if case['explicit_n'] else 'sls.default_n_eng',
              *{f'sls.{region(h)}' for h in alts})
    ok, r = call(ctx, 'sls.eq40', '', A.get_SLS_equivalent_fuel_flow, np.array(ff), np.array(p), np.array(t), np.array(mach), **kw)
    if not ok:
        return
    r = flist(r)
    for i, v in enumerate(r):
        e = ref_sls(ff[i], p[i], t[i], mach[i], n_eng, **rkw)
        if not close(v, e, REL, 0.0):
            ctx.fail('sls.eq40', 'mismatch', 'get_SLS_equivalent_fuel_flow', region(alts[i]),
                     f'ff={ff[i]!r} h={alts[i]!r} M={mach[i]!r} n={n_eng}: {v!r} vs Eq.40 {e!r}')
        if not (math.isfinite(v) and v >= 0):
            ctx.fail('sls.finite', 'mismatch', 'get_SLS_equivalent_fuel_flow', region(alts[i]), f'{v!r}')
    k = float(case['k'])
    ok, r2 = call(ctx, 'sls.linear', '', A.get_SLS_equivalent_fuel_flow, np.array(ff) * k, np.array(p), np.array(t), np.array(mach), **kw)
    if ok:
        for a, b in zip(r, flist(r2)):
            if not close(b, a * k, REL, 1e-300):
                ctx.fail('sls.linear', 'mismatch', 'get_SLS_equivalent_fuel_flow', 'fuel_flow', f'{b!r} vs {k!r}*{a!r}')


def check_cats(ctx, clause_prefix, where, cal, ff, cats):
    """Exactly one documented category per point, thresholds at the
    mid-points, monotone in fuel flow."""
    ordered = (cal[0] + cal[1]) / 2.0 <= (cal[1] + cal[2]) / 2.0
    disc = 'ordered_thresholds' if ordered else 'crossed_thresholds'
    for f, c in zip(ff, cats):
        if c not in RANK:
            ctx.fail(f'{clause_prefix}.one_of', 'mismatch', where, disc, f'category {c!r} for ff={f!r}')
            return False
        allowed = ref_cat(f, cal)
        if c not in allowed and not (c == 'takeoff' and 'climb' in allowed):
            ctx.fail(f'{clause_prefix}.threshold', 'mismatch', where, disc,
                     f'ff={f!r} cal={cal!r}: category {c!r}, documented {allowed!r}')
            return False
    order = sorted(range(len(ff)), key=lambda i: ff[i])
    for i, j in zip(order, order[1:]):
        if RANK[cats[j]] < RANK[cats[i]]:
            ctx.fail(f'{clause_prefix}.monotone', 'mismatch', where, disc,
                     f'ff={ff[i]!r}->{cats[i]!r} but ff={ff[j]!r}->{cats[j]!r} (cal={cal!r})')
            return False
    return True


def body_cat(ctx, case):
    A = aeic()
    np = A.np
    ctx.case(case)
    cal = [float(x) for x in case['cal']]
    ff = [float(x) for x in case['ff']]
    ctx.label(*[f'cat.{c}' for c in flow_classes(cal)])
    ok, r = call(ctx, 'cat.call', '', A.get_thrust_cat_cruise, np.array(ff), tmv(cal))
    if not ok:
        return
    data = np.asarray(r.data)
    if data.shape != (len(ff),):
        ctx.fail('cat.one_of', 'mismatch', 'get_thrust_cat_cruise', 'shape', f'shape {data.shape} for {len(ff)} points')
        return
    cats = [str(c).lower() for c in data.tolist()]
    got = set(cats)
    ctx.label(*[f'cat.got_{c}' for c in sorted(got)])
    if len(got) >= 2 or 'cal_nonmonotone' in flow_classes(cal):
        ctx.mark_nontrivial(case)
    if len(got) == 3:
        sample_once(ctx, case)
    check_cats(ctx, 'cat', 'get_thrust_cat_cruise', cal, ff, cats)


def atm_arrays(case):
    alts = [float(q[0]) for q in case['pts']]
    return alts, [ref_T(h) for h in alts], [ref_p(h) for h in alts]


def body_nox(ctx, case):
    A = aeic()
    np = A.np
    ctx.case(case)
    cal = [float(x) for x in case['cal']]
    ei = [float(x) for x in case['ei']]
    ff = [float(q[1]) for q in case['pts']]
    alts, t, p = atm_arrays(case)
    fc = flow_classes(cal)
    regs = {region(h) for h in alts}
    ctx.label(*[f'nox.{c}' for c in fc], *[f'nox.{r}' for r in sorted(regs)])
    if any(f <= 0 for f in ff):
        ctx.label('nox.nonpositive_ff')
    if 'stratosphere' in regs or 'cal_nonmonotone' in fc or 'cal_equal_flows' in fc:
        ctx.mark_nontrivial(case)
    where = 'nox.BFFM2_EINOx'

    def run(eis):
        return call(ctx, 'nox.call', fc[0], A.BFFM2_EINOx, np.array(ff), tmv(eis), tmv(cal), np.array(t), np.array(p))

    if len(set(cal)) == 1:
        # All four calibration flows equal: the cited log-log regression has a single abscissa, so no
        # reference value exists; the property still claims finite, non-negative results that scale
        # linearly with the certification indices.  One root cause -> one signature.
        ctx.label('nox.cal_all_four_equal_laws_only')
        k = float(case['k'])
        problem = None
        try:
            with warnings.catch_warnings():
                warnings.simplefilter('ignore')
                r1 = flist(A.BFFM2_EINOx(np.array(ff), tmv(ei), tmv(cal), np.array(t), np.array(p)).NOxEI)
                r2 = flist(A.BFFM2_EINOx(np.array(ff), tmv([e * k for e in ei]), tmv(cal), np.array(t), np.array(p)).NOxEI)
        except core.PASS_THROUGH:
            raise
        except Exception as e:  # noqa: BLE001
            problem = f'raised {e!r}'
        else:
            for f_, a, b in zip(ff, r1, r2):
                if not (math.isfinite(a) and a >= 0):
                    problem = f'NOxEI={a!r} at ff={f_!r}'
                elif not close(b, a * k, 1e-7):
                    problem = f'not linear in the indices: NOxEI(k*EI)={b!r} vs k*NOxEI(EI)={a * k!r} (k={k!r}) at ff={f_!r}'
                if problem:
                    break
        if problem:
            ctx.fail('nox.equal_flows', 'mismatch', where, 'all_four_calibration_flows_equal',
                     f'cal={cal!r} ei={ei!r}: {problem}')
        return
    ok, r = run(ei)
    if not ok:
        return
    comps = {n: flist(getattr(r, n)) for n in ('NOxEI', 'NOEI', 'NO2EI', 'HONOEI', 'noProp', 'no2Prop', 'honoProp')}
    for n, v in comps.items():
        if len(v) != len(ff):
            ctx.fail('nox.shape', 'mismatch', where, n, f'{n} has {len(v)} values for {len(ff)} points')
            return
        for x, f_, h in zip(v, ff, alts):
            if not (math.isfinite(x) and x >= 0):
                ctx.fail('nox.finite', 'mismatch', where, 'ff<=0' if f_ <= 0 else region(h), f'{n}={x!r} at ff={f_!r} h={h!r}')
                return
    fit = ref_nox_fit(cal, ei)
    xm = math.fsum(math.log10(f) for f in cal) / 4.0
    cats = []
    for i in range(len(ff)):
        e = ref_nox(ff[i], fit, t[i], p[i])
        v = comps['NOxEI'][i]
        disc = 'ff<=0' if ff[i] <= 0 else region(alts[i])
        # the value is 10**(slope*x + icpt): rounding in the fitted slope is amplified by the number of
        # decades extrapolated, so the tolerance is 1e-9 per decade of exponent
        decades = abs(fit[0]) * abs(math.log10(ff[i] if ff[i] > 0 else 1e-2) - xm)
        if not close(v, e, REL * (1.0 + decades)):
            ctx.fail('nox.value', 'mismatch', where, disc,
                     f'ff={ff[i]!r} h={alts[i]!r} cal={cal!r} ei={ei!r}: NOxEI={v!r}, BFFM2 reference {e!r}')
            return
        trip = (comps['noProp'][i], comps['no2Prop'][i], comps['honoProp'][i])
        if not close(trip[0] + trip[1] + trip[2], 1.0, 1e-12):
            ctx.fail('nox.speciation_sum', 'mismatch', where, '', f'fractions {trip!r} sum to {sum(trip)!r}')
            return
        cat = None
        for c in ('idle', 'approach', 'climb'):
            if all(close(a, b, 1e-12) for a, b in zip(trip, SPEC[c])):
                cat = c
        if cat is None:
            ctx.fail('nox.speciation_value', 'mismatch', where, '', f'fractions {trip!r} are none of the documented triples')
            return
        cats.append(cat)
        for n, frac in (('NOEI', trip[0]), ('NO2EI', trip[1]), ('HONOEI', trip[2])):
            if not close(comps[n][i], v * frac, 1e-12):
                ctx.fail('nox.components', 'mismatch', where, n, f'{n}={comps[n][i]!r} vs NOxEI*fraction {v * frac!r}')
                return
    ctx.label(*[f'nox.cat_{c}' for c in sorted(set(cats))])
    if not check_cats(ctx, 'nox.cat', where, cal, ff, cats):
        return
    k = float(case['k'])
    ok, r2 = run([e * k for e in ei])
    if ok:
        for a, b in zip(comps['NOxEI'], flist(r2.NOxEI)):
            if not close(b, a * k, 1e-7):
                ctx.fail('nox.linear', 'mismatch', where, 'EI_NOx', f'{b!r} vs {k!r}*{a!r}')
                return
    sample_once(ctx, case)


def body_hcco(ctx, case):
    A = aeic()
    np = A.np
    ctx.case(case)
    cal = [float(x) for x in case['cal']]
    ei = [float(x) for x in case['ei']]
    ff = [float(q[1]) for q in case['pts']]
    alts, t, p = atm_arrays(case)
    fit = HCCOFit(cal, ei)
    fc = flow_classes(cal)
    # generator invariants (np.isclose in the code treats |x| <= 1e-8 as 0;
    # the docstring says "== 0"): never generated, guard anyway
    if (0 < abs(fit.den) < 1e-6) or (0 < abs(fit.raw_slope) < 1e-6) or (fit.raw_slope > 0 and fit.margin_a < 1e-9):
        ctx.label('hcco.skipped_near_degenerate')
        ctx.extra.setdefault('hcco_skipped_example', core.jsonable({'cal': cal, 'ei': ei}))
        return
    regs = {region(h) for h in alts}
    ctx.label(f'hcco.{fit.branch}', *[f'hcco.{c}' for c in fc], *[f'hcco.{r}' for r in sorted(regs)])
    where = 'hcco.EI_HCCO'
    if case.get('scalar_atm'):
        targs = (t[0], p[0])
    else:
        targs = (np.array(t), np.array(p))

    def run(eis):
        return call(ctx, 'hcco.call', fit.branch, A.EI_HCCO, np.array(ff), tmv(eis), tmv(cal), *targs)

    ok, r = run(ei)
    if not ok:
        return
    r = flist(r)
    if len(r) != len(ff):
        ctx.fail('hcco.shape', 'mismatch', where, '', f'{len(r)} values for {len(ff)} points')
        return
    segs = set()
    for i, v in enumerate(r):
        if not (math.isfinite(v) and v >= 0):
            ctx.fail('hcco.finite', 'mismatch', where, 'ff<=0' if ff[i] <= 0 else fit.branch,
                     f'EI={v!r} at ff={ff[i]!r} h={alts[i]!r} cal={cal!r} ei={ei!r}')
            return
        if ff[i] <= 0:
            segs.add('nonpositive_ff')
            continue  # the log-log fit is undefined there; only the laws are claimed
        cands, seg = fit.values(ff[i], t[i], p[i])
        segs.add(seg)
        if not any(math.isfinite(c) for c in cands):
            ctx.label('hcco.reference_overflow')
            continue
        decades = abs(fit.slope) * abs(math.log10(ff[i]) - fit.anchor_f)
        if not any(close(v, c, REL * (1.0 + decades)) for c in cands):
            ctx.fail('hcco.value', 'mismatch', where, f'{fit.branch}/{seg}',
                     f'ff={ff[i]!r} h={alts[i]!r} cal={cal!r} ei={ei!r}: EI={v!r}, bilinear reference {cands!r} '
                     f'(slope={fit.slope!r}, intercept flow={p10(fit.xi)!r})')
            return
    ctx.label(*[f'hcco.seg_{s}' for s in sorted(segs)])
    if (fit.branch != 'normal_bilinear' or any('lowthrust' in s for s in segs) or 'stratosphere' in regs
            or 'cal_nonmonotone' in fc):
        ctx.mark_nontrivial(case)
    k = float(case['k'])
    ok, r2 = run([e * k for e in ei])
    if ok:
        fit2 = HCCOFit(cal, [e * k for e in ei])
        for i, (a, b) in enumerate(zip(r, flist(r2))):
            if ff[i] > 0 and abs(math.log10(ff[i]) - fit.xi) <= 1e-9:
                continue  # at the break point rounding may pick either segment
            if fit2.branch != fit.branch:
                continue  # cannot happen away from rule boundaries
            if not close(b, a * k, 1e-7):
                ctx.fail('hcco.linear', 'mismatch', where, fit.branch,
                         f'ff={ff[i]!r}: EI(k*x)={b!r} vs k*EI(x)={a * k!r}, k={k!r} cal={cal!r} ei={ei!r}')
                return
    sample_once(ctx, case)


def body_sox(ctx, case):
    A = aeic()
    ctx.case(case)
    s = float(case['s_ppm'])
    y = float(case['yield'])
    try:
        fuel = A.Fuel(name='verif', energy_MJ_per_kg=case['energy'], EI_H2O=case['ei_h2o'], EI_CO2=case['ei_co2'],
                      non_volatile_carbon_fraction=0.95, lifecycle_CO2=case['lifecycle'],
                      fuel_sulfur_content_nom=s, sulfate_yield_nom=y)
    except core.PASS_THROUGH:
        raise
    except Exception as e:  # noqa: BLE001
        ctx.fail_exc('sox.fuel', e, '')
        return
    ok, r = call(ctx, 'sox.call', '', A.EI_SOx, fuel)
    if not ok:
        return
    so2, so4, sox = float(r.EI_SO2), float(r.EI_SO4), float(r.EI_SOx)
    cls = 'no_sulfur' if s == 0 else ('all_so2' if y == 0 else ('all_so4' if y == 1 else 'mixed'))
    ctx.label(f'sox.{cls}')
    if cls == 'mixed':
        ctx.mark_nontrivial(case)
        sample_once(ctx, case)
    where = 'sox.EI_SOx'
    for n, v in (('SO2', so2), ('SO4', so4), ('SOx', sox)):
        if not (math.isfinite(v) and v >= 0):
            ctx.fail('sox.finite', 'mismatch', where, n, f'{n}={v!r} for S={s!r} ppm yield={y!r}')
            return
    s_g = s / 1000.0  # ppm by mass = mg S / kg fuel -> g S / kg fuel
    e2 = s_g * (1.0 - y) * 64.0 / 32.0
    e4 = s_g * y * 96.0 / 32.0
    if not (close(so2, e2, REL, 1e-300) and close(so4, e4, REL, 1e-300)):
        ctx.fail('sox.value', 'mismatch', where, cls, f'S={s!r} ppm yield={y!r}: SO2={so2!r} SO4={so4!r}, stoichiometry {e2!r} {e4!r}')
        return
    # sulfur atoms conserved (no reference)
    if not close(so2 / 64.0 + so4 / 96.0, s_g / 32.0, 1e-12, 1e-300):
        ctx.fail('sox.atoms', 'mismatch', where, cls, f'S atoms out {so2 / 64.0 + so4 / 96.0!r} vs in {s_g / 32.0!r}')
        return
    if not close(sox, so2 + so4, 1e-12, 1e-300):
        ctx.fail('sox.total', 'mismatch', where, cls, f'SOx={sox!r} vs SO2+SO4={so2 + so4!r}')


def body_pmvol(ctx, case):
    A = aeic()
    np = A.np
    ctx.case(case)
    thr = [float(x) for x in case['thrust']]
    hc = [float(x) for x in case['hc']]
    n = len(thr)
    two_d = bool(case['two_d']) and n % 2 == 0
    shape = (2, n // 2) if two_d else (n,)
    inside = [7.0 <= x <= 100.0 for x in thr]
    ctx.label('pmvol.two_d' if two_d else 'pmvol.one_d', 'pmvol.in_range' if all(inside) else 'pmvol.has_out_of_range')
    if any(7.0 < x < 100.0 and x not in (30.0, 85.0) for x in thr):
        ctx.mark_nontrivial(case)
        sample_once(ctx, case)
    where = 'pmvol.EI_PMvol_FOA3'
    ok, r = call(ctx, 'foa3.call', '', A.EI_PMvol_FOA3, np.array(thr).reshape(shape), np.array(hc).reshape(shape))
    if ok:
        pm, oc = r
        if np.asarray(pm).shape != shape or np.asarray(oc).shape != shape:
            ctx.fail('foa3.shape', 'mismatch', where, '', f'{np.asarray(pm).shape} for input {shape}')
            return
        pm, oc = flist(pm), flist(oc)
        for i in range(n):
            if not (math.isfinite(pm[i]) and pm[i] >= 0 and math.isfinite(oc[i]) and oc[i] >= 0):
                ctx.fail('foa3.finite', 'mismatch', where, '', f'PMvol={pm[i]!r} OCic={oc[i]!r} at thrust {thr[i]!r}')
                return
            if pm[i] != oc[i]:
                ctx.fail('foa3.ocic', 'mismatch', where, '', f'OCic {oc[i]!r} != PMvol {pm[i]!r}')
                return
            if inside[i]:
                e = ref_foa3_delta(thr[i]) * hc[i] / 1000.0
                if not close(pm[i], e):
                    ctx.fail('foa3.value', 'mismatch', where, 'node' if thr[i] in (7.0, 30.0, 85.0, 100.0) else 'between_modes',
                             f'thrust={thr[i]!r} HC={hc[i]!r}: {pm[i]!r} vs FOA3 {e!r}')
                    return
        k = float(case['k'])
        ok, r2 = call(ctx, 'foa3.linear', '', A.EI_PMvol_FOA3, np.array(thr).reshape(shape), np.array(hc).reshape(shape) * k)
        if ok:
            for a, b in zip(pm, flist(r2[0])):
                if not close(b, a * k):
                    ctx.fail('foa3.linear', 'mismatch', where, 'HCEI', f'{b!r} vs {k!r}*{a!r}')
                    return
    # fuel-flow method
    modes = [str(m) for m in case['modes']]
    ffl = [float(x) for x in case['ff']]
    where = 'pmvol.EI_PMvol_FuelFlow'
    ok, r = call(ctx, 'pmvolff.call', '', A.EI_PMvol_FuelFlow, np.array(ffl), A.ThrustModeArray(np.array(modes)))
    if ok:
        pm, oc = flist(r[0]), flist(r[1])
        if len(pm) != n or len(oc) != n:
            ctx.fail('pmvolff.shape', 'mismatch', where, '', f'{len(pm)}/{len(oc)} values for {n} points')
            return
        for i in range(n):
            e = 0.02 / (1.0 - (0.15 if modes[i] == 'idle' else 0.5))
            if not (close(pm[i], e) and close(oc[i], 0.02)):
                ctx.fail('pmvolff.value', 'mismatch', where, modes[i], f'mode {modes[i]}: PMvol={pm[i]!r} OCic={oc[i]!r}, expected {e!r} / 0.02')
                return


def body_scope11(ctx, case):
    A = aeic()
    ctx.case(case)
    sn = [float(x) for x in case['sn']]
    etype, bpr = str(case['etype']), float(case['bpr'])
    ok, r = call(ctx, 'scope11.call', etype, A.calculate_PMnvolEI_scope11, tmv(sn), etype, bpr)
    if not ok:
        return
    cls = set()
    where = 'pmnvol.calculate_PMnvolEI_scope11'
    for i, m in enumerate(A.ThrustMode):
        v = float(r[m])
        e = ref_scope11(sn[i], MODES[i], etype, bpr)
        c = 'no_data' if sn[i] in (-1.0, 0.0) else ('capped' if sn[i] > 40 else 'valid')
        cls.add(c)
        if not (math.isfinite(v) and v >= 0):
            ctx.fail('scope11.finite', 'mismatch', where, f'{etype}/{c}', f'EI={v!r} for SN={sn[i]!r}')
            return
        if not close(v, e, REL, 0.0):
            ctx.fail('scope11.value', 'mismatch', where, f'{etype}/{c}',
                     f'mode {MODES[i]} SN={sn[i]!r} type={etype} BPR={bpr!r}: {v!r} vs SCOPE11 {e!r}')
            return
    ctx.label(f'scope11.{etype}', *[f'scope11.sn_{c}' for c in sorted(cls)])
    if etype in ('TF', 'MTF') and cls & {'valid', 'capped'}:
        ctx.mark_nontrivial(case)
        if 'capped' in cls:
            sample_once(ctx, case)


def body_meem(ctx, case):
    A = aeic()
    np = A.np
    ctx.case(case)
    alts = [float(x) for x in case['alts']]
    mach = [float(x) for x in case['mach']]
    t = [ref_T(h) for h in alts]
    p = [ref_p(h) for h in alts]
    sn = [float(x) for x in case['sn']]
    pr = float(case['pr'])
    have_mass, have_num = case['mass'] is not None, case['num'] is not None
    where = 'pmnvol.PMnvol_MEEM'

    def edb(kmass=1.0, knum=1.0):
        mass = [x * kmass for x in case['mass']] if have_mass else [-1.0] * 4
        num = [x * knum for x in case['num']] if have_num else [-1.0] * 4
        return A.EDBEntry(
            engine='verif', uid='V0001', engine_type=str(case['etype']), BP_Ratio=float(case['bpr']), rated_thrust=100.0,
            fuel_flow=tmv([0.1, 0.3, 0.8, 1.0]), CO_EI_matrix=tmv([1.0] * 4), HC_EI_matrix=tmv([1.0] * 4),
            EI_NOx_matrix=tmv([1.0] * 4), SN_matrix=tmv(sn), nvPM_mass_matrix=tmv(mass), nvPM_num_matrix=tmv(num),
            PR=tmv([pr] * 4), EImass_max=float(case['mass_max']) * kmass, EImass_max_thrust=float(case['mass_max_thr']),
            EInum_max=float(case['num_max']) * knum, EInum_max_thrust=float(case['num_max_thr']))

    def run(**kw):
        return call(ctx, 'meem.call', '', A.PMnvol_MEEM, edb(**kw), np.array(alts), np.array(t), np.array(p), np.array(mach))

    all_invalid = max(sn) < 0
    ctx.label(f'meem.{case["kind"]}', 'meem.mass_given' if have_mass else 'meem.mass_from_sn',
              'meem.num_given' if have_num else 'meem.num_derived',
              *(['meem.all_sn_invalid'] if all_invalid else []),
              *(['meem.stratosphere'] if any(h > H_TROP for h in alts) else []))
    ok, r = run()
    if not ok:
        return
    gmd, mass, num = (flist(x) for x in r)
    if not (len(gmd) == len(mass) == len(num) == len(alts)):
        ctx.fail('meem.shape', 'mismatch', where, '', f'{len(gmd)}/{len(mass)}/{len(num)} values for {len(alts)} points')
        return
    # root-cause classification of non-finite results: the climb branch ramps
    # the compressor pressure coefficient linearly in (altitude - 3000 m) /
    # max(1, top - 3000 m); for climbing points far enough below 3 km relative
    # to the top of the profile the coefficient makes P3 negative.
    top = max(alts)
    bad = set()
    for i in range(len(alts)):
        vals = (gmd[i], mass[i], num[i])
        if all(math.isfinite(v) and v >= 0 for v in vals):
            continue
        climbing = i > 0 and alts[i] > alts[i - 1]
        coef = 0.85 + 0.3 * (alts[i] - 3000.0) / max(1.0, top - 3000.0)
        if climbing and 1.0 + coef * (pr - 1.0) <= 0.0:
            disc = 'climb_point_below_3km_pressure_ramp'
        else:
            disc = 'other'
        ctx.fail('meem.finite', 'mismatch', where, disc,
                 f'point {i}: GMD={vals[0]!r} mass={vals[1]!r} num={vals[2]!r}; alts={alts!r} PR={pr!r}')
        bad.add(i)  # known finding: keep checking the remaining points
    good = [i for i in range(len(alts)) if i not in bad]
    if bad:
        ctx.label('meem.nonfinite_known')
    if all_invalid:
        if any(gmd[i] != 0 or mass[i] != 0 or num[i] != 0 for i in good):
            ctx.fail('meem.invalid_sn_zero', 'mismatch', where, '', f'all smoke numbers invalid but result {gmd!r} {mass!r} {num!r}')
        return
    if len(good) >= 1 and (any(alts[i] > H_TROP for i in good) or have_mass or have_num):
        ctx.mark_nontrivial(case)
    k = float(case['k'])
    if have_mass:
        ok, r2 = run(kmass=k)
        if ok:
            m2 = flist(r2[1])
            for i in good:
                if not close(m2[i], mass[i] * k):
                    ctx.fail('meem.linear', 'mismatch', where, 'nvPM_mass', f'point {i}: {m2[i]!r} vs {k!r}*{mass[i]!r}')
                    return
    if have_num:
        ok, r3 = run(knum=k)
        if ok:
            n3 = flist(r3[2])
            for i in good:
                if not close(n3[i], num[i] * k):
                    ctx.fail('meem.linear', 'mismatch', where, 'nvPM_num', f'point {i}: {n3[i]!r} vs {k!r}*{num[i]!r}')
                    return
    if not bad:
        sample_once(ctx, case)


_SAMPLED: set = set()


def sample_once(ctx, case):
    if case['sub'] not in _SAMPLED:
        _SAMPLED.add(case['sub'])
        ctx.sample(case)


SUBS = [
    # name, strategy factory, body, quick examples, thorough examples per shard
    ('isa', isa_case, body_isa, 600, 6000),
    ('sls', sls_case, body_sls, 600, 8000),
    ('cat', cat_case, body_cat, 800, 8000),
    ('nox', nox_case, body_nox, 900, 9000),
    ('hcco', hcco_case, body_hcco, 1300, 12000),
    ('sox', sox_case, body_sox, 500, 5000),
    ('pmvol', pmvol_case, body_pmvol, 500, 5000),
    ('scope11', scope11_case, body_scope11, 600, 6000),
    ('meem', meem_case, body_meem, 800, 8000),
]
BODIES = {name: body for name, _s, body, _q, _t in SUBS}


def run(ctx: core.Ctx):
    ctx.level = 'exploration'
    ctx.rule = (
        'Nine Hypothesis sub-checks (isa, sls, cat, nox, hcco, sox, pmvol, scope11, meem); a case is one call '
        'configuration (calibration set / fuel / engine record plus 1-24 evaluation points: altitude 0-25 km dense '
        'around 11 km, fuel flow placed relative to the calibration flows: at, between, at the mid-points, 1e-12..1e-4 '
        'off them, 0, negative, below idle, up to 15x take-off). evaluations = cases; every case checks all its points '
        'against scalar references (rel 1e-9) and the reference-free laws. Non-trivial = a point in the stratosphere '
        'or within 1 m of the tropopause, a clamped / flat / low-intercept / low-thrust HC/CO branch, a non-monotone '
        'or equal-flow calibration set, an in-between FOA3 thrust, a valid smoke number, a mixed sulfur yield; '
        'distinct = hash of the case.'
    )
    ctx.assumptions = [
        'ambient temperature and pressure are the ISA values of the generated altitude (the property quantifies over altitudes)',
        'distinct calibration fuel flows differ by a factor >= 1.2 and distinct HC/CO indices by >= 5 % (or are exactly '
        'equal): the code decides "equal" with np.isclose (|x| <= 1e-8) where its documentation says "== 0"; the band in '
        'between is not generated',
        'NOx: at least two distinct calibration flows (a regression through one abscissa is undefined in the cited method)',
        'HC/CO at fuel flow <= 0 and FOA3 outside 7-100 % thrust are held to the laws only (finite, >= 0, linear); the '
        'cited fits are undefined there and the property does not fix the value',
        'MEEM is held to the stated laws only (finite, >= 0, linear in the supplied nvPM indices, zero for all-invalid SN)',
        'high-thrust category may be reported as climb or takeoff (the documentation calls it TAKEOFF_CLIMB)',
    ]
    selftest()
    ctx.max_samples = len(SUBS)
    for i, (name, strat, body, nq, nt) in enumerate(SUBS):
        before = len(ctx.violations)
        try:
            core.run_given(ctx, strat(), lambda c, b=body: b(ctx, c), ctx.n(nq, nt), salt=1000 * (i + 1))
        except core.HarnessError as e:
            # A defect that hits (nearly) every case: once its signatures are recorded, ctx.fail rejects
            # every further case and Hypothesis gives up with Unsatisfiable.  The violations are already
            # recorded; that is the end of this sub-check's search, not a harness problem.
            if len(ctx.violations) > before and type(e.__cause__).__name__ == 'Unsatisfiable':
                ctx.label(f'{name}.search_saturated_after_violation')
                continue
            raise


def replay(ctx: core.Ctx, case):
    selftest()
    BODIES[case['sub']](ctx, case)
