"""C11 — every documented emissions option combination works or is refused by name.

Domain: the Cartesian product of the 12 documented options (41 472
configurations), each loaded through Config.load, on two trajectories:
  'sim' — sample mission 0 flown by the legacy builder with the sample
          performance model (real LTO/EDB data, APU 'APU 131-9');
  'syn' — a fixed synthetic trajectory (zero-burn segment, stratospheric
          points, climb/descent windows) with the performance-model stand-in
          of the repository's tests (has an APU).
thorough: the whole product on both trajectories, sharded by configuration
index (exhaustive).  quick: a pairwise-covering array of the options on both
trajectories plus 1500 Hypothesis-drawn (configuration, trajectory) pairs.

Oracle per (configuration, trajectory): the outcome is (A) an Emissions value
that satisfies the C01 balance oracle and in which every switched-off species
group is absent or all-zero in trajectory_* and lto_*; or (B)
NotImplementedError/ValueError whose message contains the configured value of
a method option.  Anything else is a violation, bucketed by (exception type,
innermost AEIC function, minimal option assignment that triggers it).
"""

from __future__ import annotations

from .. import core
from . import _emis_common as ec

SHARDED = True
shards_exhaustive = True

# The stand-in of tests/test_emissions.py (DummyPerformanceModel) and a
# 9-point trajectory: duplicate point (zero-burn segment), stratospheric
# cruise, 3 climb and 2 descent points, legacy convention len-1.
SYN_CASE = {
    'traj': {
        'burn': [60.0, 140.0, 0.0, 220.0, 300.0, 300.0, 45.0, 30.0], 'reserve': 1500.0, 'top_alt': 12000.0,
        'alt_frac': [0.0, 0.3, 0.3, 0.75, 1.0, 1.0, 0.95, 0.4, 0.05],
        'mach': [0.3, 0.45, 0.45, 0.7, 0.78, 0.78, 0.76, 0.5, 0.3],
        'ff': [1.9, 1.7, 1.7, 1.4, 0.9, 0.85, 0.8, 0.3, 0.25],
        'n_climb': 3, 'n_cruise': 3, 'n_descent': 2,
    },
    'pm': {
        'real': False,
        'lto': {'ff': [0.25, 0.5, 0.9, 1.2], 'nox': [8.0, 12.0, 32.0, 40.0], 'hc': [4.0, 3.0, 1.5, 1.0],
                'co': [20.0, 10.0, 3.0, 2.0]},
        'edb': {'engine_type': 'TF', 'bpr': 5.0, 'sn': [6.0, 8.0, 11.0, 13.0], 'nvpm_mass': [5.0, 5.5, 6.0, 6.5],
                'nvpm_num': [2.0e14, 2.1e14, 2.2e14, 2.3e14], 'pr': 22.0, 'eimass_max': 8.0,
                'eimass_max_thrust': 0.575, 'einum_max': 2.4e14, 'einum_max_thrust': 0.575},
        'apu': {'fuel': 0.03, 'nox': 0.05, 'co': 0.03, 'hc': 0.02, 'pm10': 0.4},
        'aircraft_class': 'wide', 'n_eng': 2,
    },
    'fuel': {'sample': True},
}
SIM_CASE = {'traj': {'simulated': 0}, 'pm': {'sample': True}, 'fuel': {'sample': True}}
# the same synthetic flight with no cruise points at all (climb straight into descent): in lto mode its whole
# trajectory lies outside the counted window
# (aircraft classes differ between the fixed inputs: wide, small, freight, and whatever the sample model says)
NOCRZ_CASE = {**SYN_CASE, 'traj': {**SYN_CASE['traj'], 'n_climb': 5, 'n_cruise': 0, 'n_descent': 4},
              'pm': {**SYN_CASE['pm'], 'aircraft_class': 'small'}}
# the synthetic flight on an aircraft whose performance model names no APU (documented as legal): apu_enabled then has
# nothing to add, whatever its value
NOAPU_CASE = {**SYN_CASE, 'pm': {**SYN_CASE['pm'], 'apu': None, 'aircraft_class': 'freight'}}
TRAJS = ['sim', 'syn', 'nocrz', 'noapu']
CASES = {'sim': SIM_CASE, 'syn': SYN_CASE, 'nocrz': NOCRZ_CASE, 'noapu': NOAPU_CASE}

_INPUTS: dict = {}


def inputs(which: str):
    if which not in _INPUTS:
        _INPUTS[which] = ec.build_inputs(CASES[which])
    return _INPUTS[which]


def check_one(ctx, cfg: dict, which: str, enumerated: bool, memo: dict | None, reload: bool = True):
    case = {'cfg': cfg, 'traj': which}
    ctx.case(case)
    inp = inputs(which)
    if inp is None:
        raise core.HarnessError(
            'the simulated trajectory of the C11 domain is not available (legacy builder failed on sample mission 0 '
            'or produced an increasing fuel mass); see C02')
    out = ec.evaluate(inp, cfg, check_off=True, reload=reload)
    if not reload:
        ctx.label('config.shared_with_previous_flight')
    ctx.label(f'traj.{which}')
    nd = ec.n_nondefault(cfg)
    if out.kind == 'refused':
        ctx.label('outcome.refused_by_name', f'refused.{ec.names_method(out.exc, cfg)}={cfg[ec.names_method(out.exc, cfg)]}')
    elif out.failures:
        ctx.label('outcome.violating')
        ec.report(ctx, inp, cfg, out, check_off=True, enumerated=enumerated, memo=memo)
        return
    else:
        ctx.label('outcome.balanced_inventory')
        off = ec.switched_off_groups(cfg)
        if off:
            ctx.label('inventory.with_switched_off_group')
    if nd >= 2:
        ctx.mark_nontrivial(f'{ec.index_from_config(cfg)}')
        if nd >= 5:
            ctx.sample({'cfg': cfg, 'traj': which, 'outcome': out.kind})


def run(ctx: core.Ctx):
    ctx.level = 'exploration'
    ctx.rule = (
        'Cartesian product of the 12 documented emissions options (41 472 configurations) x 3 trajectories (simulated '
        'sample mission with the sample performance model; synthetic 9-point trajectory with the tests\' stand-in model '
        'and an APU; the same without any cruise point). thorough: whole product sharded by configuration index (exhaustive); quick: greedy '
        'pairwise-covering array (every pair of option values) on both trajectories + Hypothesis-drawn configurations. '
        'evaluations = (configuration, trajectory) pairs. Non-trivial = configuration differing from the default in >= 2 '
        'options; distinct = configuration index. Outcome must be a balanced inventory (C01 oracle) with switched-off '
        'species absent/zero in trajectory and LTO parts, or NotImplementedError/ValueError naming the configured method '
        'value; other outcomes are bucketed by (exception type, innermost AEIC function, minimal option assignment).'
    )
    ctx.assumptions = [
        'option values are the documented enum values (lower case); other option values are C18\'s business',
        'fuel = packaged conventional_jetA (has a life-cycle value)',
        'a method that is accepted and silently produces no trajectory values (p3t3) is a "returns" outcome if the inventory balances',
    ]
    ec.selftest()
    memo: dict = {}
    try:
        # Every combination must work whatever was computed before it in the same process: start from the
        # configuration with everything switched off (so that anything remembered from the first call is the
        # opposite of what the later configurations need), then the defaults, then the rest.
        off = dict(ec.DEFAULTS())
        for k in off:
            if k.endswith('_enabled'):
                off[k] = False
            elif k.endswith('_method'):
                off[k] = 'none'
        for cfg in (off, dict(ec.DEFAULTS())):
            for j, which in enumerate(TRAJS):
                # one loaded configuration serves several flights (as in a real inventory run)
                check_one(ctx, cfg, which, enumerated=True, memo=memo, reload=(j == 0))
        ctx.label('history.all_off_first')
        if ctx.quick:
            rows = ec.pairwise_array(ctx.seed)
            ctx.extra['pairwise_rows'] = len(rows)
            for cfg in [dict(ec.DEFAULTS())] + rows:
                for j, which in enumerate(TRAJS):
                    check_one(ctx, cfg, which, enumerated=True, memo=memo, reload=(j == 0))
            from hypothesis import strategies as st

            strat = st.tuples(ec.st_config(), st.sampled_from(TRAJS))

            def body(c):
                check_one(ctx, c[0], c[1], enumerated=False, memo=None)

            core.run_given(ctx, strat, body, max_examples=1500)
        else:
            for i in range(ec.N_CONFIGS):
                if i % ctx.nshards != ctx.shard:
                    continue
                cfg = ec.config_from_index(i)
                for j, which in enumerate(TRAJS):
                    check_one(ctx, cfg, which, enumerated=True, memo=memo, reload=(j == 0))
            ctx.exhaustive = True
    finally:
        core.reset_config()


def replay(ctx: core.Ctx, case):
    ec.selftest()
    try:
        if isinstance(case, (list, tuple)):
            case = {'cfg': case[0], 'traj': case[1]}
        check_one(ctx, case['cfg'], case['traj'], enumerated=False, memo=None)
    finally:
        core.reset_config()
