"""Shared machinery for the trajectory-store properties (C03, C07-C10, C20):
generated field sets, trajectory descriptions (plain JSON), construction of
real Trajectory objects from them, the expected-value model and an independent
field-by-field comparison (never Container.__eq__)."""

from __future__ import annotations

import hashlib
import json
import math

import numpy as np
from hypothesis import strategies as st

DIMS = ['T', 'TP', 'TS', 'TSP', 'TM', 'TSM']
NUM_TYPES = ['f8', 'f4', 'i4', 'i8']
NPTYPE = {'f8': np.float64, 'f4': np.float32, 'i4': np.int32, 'i8': np.int64, 'str': str}
SPECIES_NAMES = [
    'CO2', 'H2O', 'HC', 'CO', 'NOx', 'NO', 'NO2', 'HONO', 'PMnvol', 'PMnvolGMD',
    'PMvol', 'OCic', 'SOx', 'SO2', 'SO4', 'PMnvolN',
]
MODES = ['idle', 'approach', 'climb', 'takeoff']

BASE_POINT_FIELDS = [
    'fuel_flow', 'aircraft_mass', 'fuel_mass', 'ground_distance', 'altitude', 'flight_level',
    'rate_of_climb', 'flight_time', 'latitude', 'longitude', 'azimuth', 'heading',
    'true_airspeed', 'ground_speed',
]
PHASES_REQUIRED = ['n_climb', 'n_cruise', 'n_descent']
PHASES_OPTIONAL = [
    'n_idle_origin', 'n_taxi_origin', 'n_takeoff', 'n_approach', 'n_taxi_destination',
    'n_idle_destination',
]


# --------------------------------------------------------------------------
# field-set definitions (JSON) -> registered FieldSet


def fs_name(fdef: dict) -> str:
    return 'g' + hashlib.md5(json.dumps(fdef, sort_keys=True).encode()).hexdigest()[:10]


def field_names(fdef: dict) -> list[str]:
    nm = fs_name(fdef)
    return [f'{nm}_{k}' for k in range(len(fdef['fields']))]


def register_fieldset(fdef: dict):
    """Create (or re-create identically) the FieldSet for a definition."""
    from AEIC.storage import Dimensions, FieldMetadata, FieldSet

    name = fs_name(fdef)
    fields = {}
    for fname, f in zip(field_names(fdef), fdef['fields']):
        fields[fname] = FieldMetadata(
            dimensions=Dimensions.from_abbrev(f['dims']),
            field_type=NPTYPE[f['type']],
            description=f.get('description', 'generated field'),
            units=f.get('units', 'u'),
            required=bool(f['required']),
            default=f.get('default'),
        )
    return FieldSet(name, **fields)


@st.composite
def field_def(draw, dims_pool=DIMS, allow_str=True):
    dims = draw(st.sampled_from(dims_pool))
    if dims == 'T' and allow_str and draw(st.integers(0, 4)) == 0:
        typ = 'str'
    else:
        typ = draw(st.sampled_from(NUM_TYPES))
    required = draw(st.booleans())
    f = {'dims': dims, 'type': typ, 'required': required}
    if dims == 'T' and not required and typ != 'str' and draw(st.booleans()):
        f['default'] = draw(st.integers(-5, 5)) if typ[0] == 'i' else draw(st.sampled_from([0.0, 1.5, -2.25]))
    return f


@st.composite
def fieldset_def(draw, max_fields=5, dims_pool=DIMS):
    n = draw(st.integers(1, max_fields))
    return {'fields': [draw(field_def(dims_pool)) for _ in range(n)], 'tag': draw(st.integers(0, 3))}


# --------------------------------------------------------------------------
# value descriptions


def _rng_array(seed: int, n: int, typ: str, raw: bool = False) -> np.ndarray:
    """raw=True: the float64 data a user would assign (for a float32 field it is NOT exactly representable);
    raw=False: the same data cast to the field type = what the store must return."""
    rng = np.random.default_rng(seed)
    if seed % 9 == 0:
        # an array that is zero at every point (a species that is tracked but not emitted on this flight)
        return np.zeros(n, dtype=float if (raw and typ in ('f8', 'f4')) else NPTYPE[typ])
    if typ in ('f8', 'f4'):
        a = rng.normal(0.0, 1000.0, size=n)
        if n > 0:
            # sprinkle special (but legal) values
            k = seed % 5
            if k == 0:
                a[0] = 0.0
            elif k == 1:
                a[-1] = -1e-30
            elif k == 2:
                a[n // 2] = 1e30
        return a if raw else a.astype(NPTYPE[typ])
    if typ == 'i4':
        return rng.integers(-2_000_000_000, 2_000_000_000, size=n, dtype=np.int64).astype(np.int32)
    if typ == 'i8':
        return rng.integers(-(2**62), 2**62, size=n, dtype=np.int64)
    raise ValueError(typ)


# NetCDF default fill values: a value equal to the fill value itself cannot be told from "unset" (inherent to the file
# format), every other value of the type can and has to come back.
FILL = {'i4': -2147483647, 'i8': -9223372036854775806, 'f4': float(np.float32(9.969209968386869e36)),
        'f8': 9.969209968386869e36}
NEAR_FILL = {
    'i4': [-(2**31), -2147483646, -2147483000, -2147462000, 2**31 - 1],
    'i8': [-(2**63), -(2**63) + 1, -(2**63) + 3, -(2**63) + 2**40, 2**63 - 1],
    'f8': [9.9692e36, 9.969209968386868e36, 9.96920996838687e36, 9.97e36, -9.969209968386869e36, 1e37],
    'f4': [9.9692e36, 9.9693e36, 9.97e36, -9.969209968386869e36, 1e37],
}

# flight identifiers: 64-bit; small ones, ones beyond 32 bits, and ones beyond what a float64 holds exactly
FLIGHT_ID = st.one_of(st.integers(0, 2**40), st.integers(2**53, 2**63 - 2**24), st.integers(2**31 - 3, 2**32 + 3))


def scalar_strategy(typ: str):
    if typ == 'f8':
        return st.one_of(st.floats(-1e30, 1e30, allow_nan=False, allow_infinity=False),
                         st.floats(allow_nan=False, allow_infinity=False).filter(lambda v: v != FILL['f8']),
                         st.sampled_from(NEAR_FILL['f8']))
    if typ == 'f4':
        # float64 values: most are not exactly representable in the float32 field they are assigned to
        return st.one_of(st.floats(-1e30, 1e30, allow_nan=False, allow_infinity=False),
                         st.floats(-3.4e38, 3.4e38).filter(lambda v: float(np.float32(v)) != FILL['f4']),
                         st.sampled_from(NEAR_FILL['f4']))
    if typ == 'i4':
        return st.one_of(st.integers(-2_000_000_000, 2_000_000_000),
                         st.integers(-(2**31), 2**31 - 1).filter(lambda v: v != FILL['i4']),
                         st.sampled_from(NEAR_FILL['i4']))
    if typ == 'i8':
        return st.one_of(st.integers(-(2**62), 2**62),
                         st.integers(-(2**63), 2**63 - 1).filter(lambda v: v != FILL['i8']),
                         st.sampled_from(NEAR_FILL['i8']))
    if typ == 'str':
        return st.text(alphabet='abcXYZ 019_-', min_size=1, max_size=12)
    raise ValueError(typ)


@st.composite
def species_subset(draw, pool=None, min_size=1):
    pool = list(pool if pool is not None else SPECIES_NAMES)
    mode = draw(st.sampled_from(['prefix', 'gappy', 'single', 'all'])) if pool == SPECIES_NAMES else 'gappy'
    if mode == 'prefix':
        return pool[: draw(st.integers(min_size, len(pool)))]
    if mode == 'single':
        return [draw(st.sampled_from(pool))]
    if mode == 'all':
        return pool
    sub = draw(st.lists(st.sampled_from(pool), unique=True, min_size=min(min_size, len(pool)), max_size=min(6, len(pool))))
    return [s for s in pool if s in sub]


@st.composite
def field_value(draw, f: dict, species_pool=None, allow_unset=True):
    """JSON description of a value for field definition f.  None = unset."""
    if (not f['required']) and allow_unset and draw(st.integers(0, 2)) == 0:
        return {'unset': draw(st.sampled_from(['none', 'never'])) if f['dims'] == 'T' else 'none'}
    dims, typ = f['dims'], f['type']
    if dims == 'T':
        return {'v': draw(scalar_strategy(typ))}
    if dims == 'TP':
        return {'seed': draw(st.integers(0, 2**31))}
    if dims == 'TM':
        return {'m': [draw(scalar_strategy(typ)) for _ in MODES]}
    sp = draw(species_subset(species_pool))
    if f['required'] and draw(st.integers(0, 7)) == 0:
        # a required species-indexed field holding no species at all: reads back as an empty mapping (an optional one
        # would be indistinguishable from "unset")
        sp = []
    if dims == 'TS':
        return {'s': {s: draw(scalar_strategy(typ)) for s in sp}}
    if dims == 'TSP':
        return {'sseed': {s: draw(st.integers(0, 2**31)) for s in sp}}
    if dims == 'TSM':
        return {'sm': {s: [draw(scalar_strategy(typ)) for _ in MODES] for s in sp}}
    raise ValueError(dims)


@st.composite
def traj_desc(draw, fdefs=(), n_range=(1, 130), identified=None, species_pool=None, fid=None):
    n = draw(st.integers(*n_range))
    d = {
        'n': n,
        'seed': draw(st.integers(0, 2**31)),
        'name': draw(st.one_of(st.none(), st.text(alphabet='abcdef012', min_size=1, max_size=8))),
        'flight_id': fid,
        'extras': {},
    }
    if identified is None and fid is None:
        d['flight_id'] = draw(st.one_of(st.none(), FLIGHT_ID))
    for fdef in fdefs:
        vals = []
        for f in fdef['fields']:
            vals.append(draw(field_value(f, species_pool)))
        d['extras'][fs_name(fdef)] = vals
    return d


def values_for(desc: dict, fdef: dict):
    """The value descriptions of one field set; an 'auto' field set (scalars only) derives them from the trajectory's
    seed when the description does not carry them."""
    vals = desc['extras'].get(fs_name(fdef))
    if vals is None:
        if not fdef.get('auto'):
            raise KeyError(fs_name(fdef))
        vals = [{'v': float(desc['seed'] % 1000) + 0.25 + k} for k, _ in enumerate(fdef['fields'])]
    return vals


def desc_species(desc: dict) -> set[str]:
    out = set()
    for vals in desc['extras'].values():
        for v in vals:
            for key in ('s', 'sseed', 'sm'):
                if key in v:
                    out.update(v[key].keys())
    return out


# --------------------------------------------------------------------------
# expected values (the model) and construction of real objects


def _cast_scalar(v, typ: str):
    if typ == 'str':
        return v
    return NPTYPE[typ](v).item()


def expected_field(f: dict, v: dict, n: int):
    """Model value of one generated field: python scalars / numpy arrays /
    dicts keyed by species name / mode name; None for unset."""
    if 'unset' in v:
        if v['unset'] == 'never' and f.get('default') is not None:
            return f['default']
        return None
    dims, typ = f['dims'], f['type']
    if dims == 'T':
        return _cast_scalar(v['v'], typ)
    if dims == 'TP':
        return _rng_array(v['seed'], n, typ)
    if dims == 'TM':
        return {m: _cast_scalar(x, typ) for m, x in zip(MODES, v['m'])}
    if dims == 'TS':
        return {s: _cast_scalar(x, typ) for s, x in v['s'].items()}
    if dims == 'TSP':
        return {s: _rng_array(sd, n, typ) for s, sd in v['sseed'].items()}
    if dims == 'TSM':
        return {s: {m: _cast_scalar(x, typ) for m, x in zip(MODES, xs)} for s, xs in v['sm'].items()}
    raise ValueError(dims)


def raw_field(f: dict, v: dict, n: int):
    """The value as a user hands it over (uncast: Python floats / float64 arrays even for float32 fields)."""
    if 'unset' in v:
        return None
    dims, typ = f['dims'], f['type']
    if dims == 'T':
        return v['v']
    if dims == 'TP':
        return _rng_array(v['seed'], n, typ, raw=True)
    if dims == 'TM':
        return dict(zip(MODES, v['m']))
    if dims == 'TS':
        return dict(v['s'])
    if dims == 'TSP':
        return {s: _rng_array(sd, n, typ, raw=True) for s, sd in v['sseed'].items()}
    if dims == 'TSM':
        return {s: dict(zip(MODES, xs)) for s, xs in v['sm'].items()}
    raise ValueError(dims)


def expected_traj(desc: dict, fdefs=()) -> dict:
    """name -> expected value for every field of the trajectory."""
    n = desc['n']
    rng = np.random.default_rng(desc['seed'])
    out = {}
    for k, name in enumerate(BASE_POINT_FIELDS):
        out[name] = (rng.normal(0, 1, size=n) * 10.0 ** (k % 5) + k).astype(np.float64)
    out['starting_mass'] = float(rng.uniform(1e4, 4e5))
    out['total_fuel_mass'] = float(rng.uniform(1e2, 1e5))
    out['n_climb'] = int(n // 3)
    out['n_cruise'] = int(n // 3)
    out['n_descent'] = int(n - 2 * (n // 3))
    for p in PHASES_OPTIONAL:
        out[p] = 0
    out['flight_id'] = desc['flight_id']
    out['name'] = desc['name']
    for fdef in fdefs:
        vals = values_for(desc, fdef)
        for fname, f, v in zip(field_names(fdef), fdef['fields'], vals):
            out[fname] = expected_field(f, v, n)
    return out


def to_aeic_value(f: dict, ev, reverse_modes: bool = False):
    """Raw value -> the object a user would assign (SpeciesValues etc.).  reverse_modes: thrust-mode maps are
    filled in the opposite of the enum order (a mapping has no order: the result must be the same)."""
    from AEIC.performance.types import ThrustMode, ThrustModeValues
    from AEIC.types import Species, SpeciesValues

    if ev is None:
        return None
    dims = f['dims']

    def modes(d):
        items = list(d.items())
        if reverse_modes:
            items = items[::-1]
        return ThrustModeValues({ThrustMode(m): x for m, x in items})

    if dims in ('T', 'TP'):
        return ev.copy() if isinstance(ev, np.ndarray) else ev
    if dims == 'TM':
        return modes(ev)
    if dims == 'TS':
        return SpeciesValues({Species[s]: x for s, x in ev.items()})
    if dims == 'TSP':
        return SpeciesValues({Species[s]: x.copy() for s, x in ev.items()})
    if dims == 'TSM':
        return SpeciesValues({Species[s]: modes(xs) for s, xs in ev.items()})
    raise ValueError(dims)


def build_traj(desc: dict, fdefs=(), skip_fieldsets=()):
    """A real Trajectory holding the described values."""
    from AEIC.trajectories import Trajectory

    names = [fs_name(fd) for fd in fdefs if fs_name(fd) not in skip_fieldsets]
    for fd in fdefs:
        register_fieldset(fd)
    t = Trajectory(desc['n'], fieldsets=names or None)
    ev = expected_traj(desc, [fd for fd in fdefs if fs_name(fd) not in skip_fieldsets])
    for name in BASE_POINT_FIELDS:
        setattr(t, name, ev[name].copy())
    for name in ['starting_mass', 'total_fuel_mass'] + PHASES_REQUIRED:
        setattr(t, name, ev[name])
    t.flight_id = ev['flight_id']
    t.name = ev['name']
    for fd in fdefs:
        if fs_name(fd) in skip_fieldsets:
            continue
        vals = values_for(desc, fd)
        for fname, f, v in zip(field_names(fd), fd['fields'], vals):
            if v.get('unset') == 'never':
                continue
            val = to_aeic_value(f, raw_field(f, v, desc['n']), reverse_modes=bool(desc['seed'] % 2))
            cur = getattr(t, fname, None)
            if 'S' in f['dims'] and val is not None and desc['seed'] % 3 == 0 and cur is not None and hasattr(cur, 'keys') \
                    and len(cur) == 0:
                # the other documented way of setting a species-indexed field: filling the (empty) mapping the new
                # trajectory starts with, species by species
                # (values already of the field's own type: an in-place fill passes no conversion hook)
                val = to_aeic_value(f, expected_field(f, v, desc['n']), reverse_modes=bool(desc['seed'] % 2))
                for sp in val.keys():
                    cur[sp] = val[sp]
            else:
                setattr(t, fname, val)
    return t


def build_extras_object(desc: dict, fdefs):
    """An object implementing HasFieldSets with the described extras."""
    from AEIC.storage import FieldSet

    class Extras:
        FIELD_SETS = [FieldSet.from_registry(fs_name(fd)) for fd in fdefs]

    o = Extras()
    ev = expected_traj(desc, fdefs)
    for fd in fdefs:
        vals = desc['extras'][fs_name(fd)]
        for fname, f, v in zip(field_names(fd), fd['fields'], vals):
            setattr(o, fname, to_aeic_value(f, raw_field(f, v, desc['n']), reverse_modes=bool(desc['seed'] % 2)))
    return o


# --------------------------------------------------------------------------
# independent comparison


def _arr_equal(got, want: np.ndarray):
    if not isinstance(got, np.ndarray):
        return f'not an ndarray: {type(got).__name__} {got!r}'[:200]
    if got.dtype != want.dtype:
        return f'dtype {got.dtype} != {want.dtype}'
    if got.shape != want.shape:
        return f'shape {got.shape} != {want.shape}'
    if got.tobytes() != want.tobytes():
        idx = int(np.flatnonzero(got != want)[0]) if (got != want).any() else -1
        return f'values differ at index {idx}: {got[idx]!r} != {want[idx]!r}'
    return None


def _scalar_equal(got, want):
    if isinstance(want, str):
        return None if (isinstance(got, str) and got == want) else f'{got!r} != {want!r}'
    if isinstance(got, (np.ndarray, str)) or got is None or not isinstance(got, (int, float, np.integer, np.floating)):
        return f'{type(got).__name__} {got!r} != {want!r}'[:200]
    if isinstance(want, int) and not isinstance(got, (int, np.integer)):
        return f'integer field read as {type(got).__name__} {got!r}'
    if isinstance(want, float) and not isinstance(got, (float, np.floating)):
        return f'float field read as {type(got).__name__} {got!r}'
    if got != want or (isinstance(want, float) and math.copysign(1, got) != math.copysign(1, want)):
        return f'{got!r} != {want!r}'
    return None


def compare_field(dims: str, got, want):
    """Return None if equal, else (kind, detail)."""
    if want is None:
        if got is None:
            return None
        return ('unset_not_none', f'unset optional field read as {type(got).__name__}: {str(got)[:80]}')
    if got is None:
        return ('lost', f'value read as None, expected {str(want)[:80]}')
    if dims == 'T':
        d = _scalar_equal(got, want)
        return ('scalar', d) if d else None
    if dims == 'TP':
        d = _arr_equal(got, want)
        return ('array', d) if d else None
    if dims == 'TM':
        from AEIC.performance.types import ThrustMode, ThrustModeValues

        if not isinstance(got, ThrustModeValues):
            return ('type', f'{type(got).__name__} is not ThrustModeValues')
        keys = sorted(str(getattr(k, 'value', k)) for k in got.keys())
        if keys != sorted(want):
            return ('modes', f'modes {keys} != {sorted(want)}')
        for m, x in want.items():
            d = _scalar_equal(got[ThrustMode(m)], x)
            if d:
                return ('mode_value', f'{m}: {d}')
        return None
    # species-indexed
    from AEIC.performance.types import ThrustMode, ThrustModeValues
    from AEIC.types import Species, SpeciesValues

    if not isinstance(got, SpeciesValues):
        return ('type', f'{type(got).__name__} is not SpeciesValues')
    gk = sorted(Species(k).name for k in got.keys())
    wk = sorted(want)
    if gk != wk:
        lost = sorted(set(wk) - set(gk))
        invented = sorted(set(gk) - set(wk))
        kind = 'species_lost' if lost else 'species_invented'
        return (kind, f'species read {gk}, written {wk} (lost {lost}, invented {invented})')
    for s, x in want.items():
        g = got[Species[s]]
        if dims == 'TS':
            d = _scalar_equal(g, x)
        elif dims == 'TSP':
            d = _arr_equal(g, x)
        else:
            if not isinstance(g, ThrustModeValues):
                return ('type', f'{s}: {type(g).__name__} is not ThrustModeValues')
            keys = sorted(str(getattr(k, 'value', k)) for k in g.keys())
            d = None
            if keys != sorted(x):
                d = f'modes {keys}'
            else:
                for m, xv in x.items():
                    d = _scalar_equal(g[ThrustMode(m)], xv)
                    if d:
                        d = f'{m}: {d}'
                        break
        if d:
            return ('species_value', f'{s}: {d}')
    return None


BASE_DIMS = {name: 'TP' for name in BASE_POINT_FIELDS}
for _n in ['starting_mass', 'total_fuel_mass', 'flight_id', 'name'] + PHASES_REQUIRED + PHASES_OPTIONAL:
    BASE_DIMS[_n] = 'T'


def field_dims(fdefs) -> dict:
    out = dict(BASE_DIMS)
    for fd in fdefs:
        for fname, f in zip(field_names(fd), fd['fields']):
            out[fname] = f['dims']
    return out


def field_types(fdefs) -> dict:
    out = {n: 'f8' for n in BASE_POINT_FIELDS}
    out.update(starting_mass='f8', total_fuel_mass='f8', flight_id='i8', name='str')
    for n in PHASES_REQUIRED + PHASES_OPTIONAL:
        out[n] = 'i4'
    for fd in fdefs:
        for fname, f in zip(field_names(fd), fd['fields']):
            out[fname] = f['type']
    return out


def compare_traj(traj, desc: dict, fdefs=(), absent_fieldsets=()):
    """Independent field-by-field comparison of a Trajectory read from a
    store with the model.  Returns a list of (field, dims, type, kind, detail)."""
    from AEIC.trajectories import Trajectory

    out = []
    if not isinstance(traj, Trajectory):
        return [('<traj>', '', '', 'type', f'{type(traj).__name__} is not a Trajectory')]
    present = [fd for fd in fdefs if fs_name(fd) not in absent_fieldsets]
    want = expected_traj(desc, present)
    dims = field_dims(present)
    types = field_types(present)
    if len(traj) != desc['n']:
        out.append(('<len>', '', '', 'length', f'len {len(traj)} != {desc["n"]}'))
        return out
    for name, w in want.items():
        try:
            g = getattr(traj, name)
        except AttributeError:
            out.append((name, dims[name], types[name], 'missing', 'field missing from trajectory read back'))
            continue
        r = compare_field(dims[name], g, w)
        if r:
            out.append((name, dims[name], types[name], r[0], r[1]))
    for fd in fdefs:
        if fs_name(fd) in absent_fieldsets:
            for fname in field_names(fd):
                if fname in traj._data:
                    out.append((fname, '', '', 'unexpected_fieldset', 'field of a field set that is not in the opened files'))
    return out
