"""C18 — exactly one immutable configuration; a failed load leaves none.

Model-based stateful test: reference = {unconfigured, configured(values)}.
Oracle for effective values: packaged defaults (+) file (+) kwargs merged
leaf-wise by the harness (tomllib), never by AEIC's deep_update.
"""

from __future__ import annotations

import copy
import os
import tomllib
from pathlib import Path

from hypothesis import strategies as st
from hypothesis.stateful import invariant, rule

from .. import core

LoggedMachine = core.logged_machine_base()

ENUMS = {
    'nox_method': ['bffm2', 'p3t3', 'none'],
    'hc_method': ['bffm2', 'p3t3', 'none'],
    'co_method': ['bffm2', 'p3t3', 'none'],
    'pmvol_method': ['fuel_flow', 'foa3', 'none'],
    'pmnvol_method': ['meem', 'scope11', 'foa3', 'none'],
    'climb_descent_mode': ['trajectory', 'lto'],
}
BOOLS = ['co2_enabled', 'h2o_enabled', 'sox_enabled', 'apu_enabled', 'gse_enabled', 'lifecycle_enabled']
FUELS = ['conventional_jetA', 'SAF']


def _case_variant(draw, s: str) -> str:
    mode = draw(st.sampled_from(['lower', 'upper', 'title', 'mixed']))
    if mode == 'lower':
        return s.lower()
    if mode == 'upper':
        return s.upper()
    if mode == 'title':
        return s.title()
    bits = draw(st.lists(st.booleans(), min_size=len(s), max_size=len(s)))
    return ''.join(c.upper() if b else c.lower() for c, b in zip(s, bits))


@st.composite
def emissions_table(draw):
    out = {}
    keys = draw(st.lists(st.sampled_from(list(ENUMS) + BOOLS + ['fuel']), unique=True, max_size=6))
    for k in keys:
        if k in ENUMS:
            out[k] = _case_variant(draw, draw(st.sampled_from(ENUMS[k])))
        elif k == 'fuel':
            out[k] = draw(st.sampled_from(FUELS))
        else:
            out[k] = draw(st.booleans())
    return out


def _paths():
    data = core.REPO / 'src' / 'AEIC' / 'data'
    return {
        'performance_model': [
            'performance/sample_performance_model.toml',
            str(data / 'performance' / 'sample_performance_model.toml'),
            'performance/random_test_ptf.toml',
        ],
        'engine_file': ['engines/sample_edb.xlsx', str(data / 'engines' / 'sample_edb.xlsx')],
        # 'cwd_wx' exists only relative to the current directory (the machine runs inside its scratch directory)
        'weather_data_dir': ['weather', str(core.TEST_DATA / 'weather'), str(data / 'fuels'), 'cwd_wx'],
    }


@st.composite
def overlay(draw, kw=False):
    """One overlay layer (file or kwargs).  kw=True: keyword arguments, which (unlike TOML) can also say None."""
    out = {}
    paths = _paths()
    if kw:
        paths['weather_data_dir'] = paths['weather_data_dir'] + [None, None]
    if draw(st.booleans()):
        out['emissions'] = draw(emissions_table())
    if draw(st.integers(0, 3)) == 0:
        w = {}
        if draw(st.booleans()):
            w['use_weather'] = draw(st.booleans())
        if draw(st.booleans()):
            w['weather_data_dir'] = draw(st.sampled_from(paths['weather_data_dir']))
        out['weather'] = w
    if draw(st.integers(0, 3)) == 0:
        out['performance_model'] = draw(st.sampled_from(paths['performance_model']))
    if draw(st.integers(0, 5)) == 0:
        out['engine_file'] = draw(st.sampled_from(paths['engine_file']))
    k = draw(st.integers(0, 9))
    if k == 0:
        # an explicit search path under which every packaged and test file resolves
        out['path'] = [str(core.TEST_DATA), str(core.REPO / 'src' / 'AEIC' / 'data')]
    elif k == 1:
        # a search path with a single entry; files that are not under it are given as absolute paths
        data = core.REPO / 'src' / 'AEIC' / 'data'
        out['path'] = [str(core.TEST_DATA)]
        out['performance_model'] = str(data / 'performance' / 'sample_performance_model.toml')
        out['engine_file'] = str(data / 'engines' / 'sample_edb.xlsx')
        out.setdefault('weather', {})['weather_data_dir'] = 'weather'
    return out


INVALID_KINDS = [
    'bad_enum', 'bad_type', 'missing_perf', 'missing_engine', 'missing_weather',
    'missing_config_file', 'malformed_toml', 'bad_enum_in_file', 'missing_perf_in_file',
    'empty_config_path', 'none_for_required',
]


def _toml(d: dict, prefix: str = '') -> str:
    """Tiny TOML writer (strings, bools, nested tables)."""
    lines, tables = [], []
    for k, v in d.items():
        if isinstance(v, dict):
            tables.append((k, v))
        elif isinstance(v, bool):
            lines.append(f'{k} = {"true" if v else "false"}')
        elif isinstance(v, (int, float)):
            lines.append(f'{k} = {v}')
        elif isinstance(v, list):
            lines.append(f'{k} = [' + ', '.join(json_str(x) for x in v) + ']')
        else:
            lines.append(f'{k} = {json_str(v)}')
    out = '\n'.join(lines) + '\n'
    for k, v in tables:
        out += f'\n[{prefix}{k}]\n' + _toml(v, prefix + k + '.')
    return out


def json_str(s: str) -> str:
    import json

    return json.dumps(str(s))


def merge_leafwise(base: dict, over: dict) -> dict:
    out = copy.deepcopy(base)
    for k, v in over.items():
        if isinstance(v, dict) and isinstance(out.get(k), dict):
            out[k] = merge_leafwise(out[k], v)
        else:
            out[k] = copy.deepcopy(v)
    return out


class Unresolvable(Exception):
    """The effective configuration names a file that its effective search path does not contain."""


def expected_path(f: str, search=None) -> Path:
    """Documented lookup: the path as given if it exists, else the first search-path entry containing it.
    The search path is the explicit `path` setting if one is given, else AEIC_PATH followed by the packaged data."""
    p = Path(f)
    if p.exists():
        return p.resolve()
    if p.is_absolute():
        raise Unresolvable(f)
    for base in (search or (core.TEST_DATA, core.REPO / 'src' / 'AEIC' / 'data')):
        if (Path(base) / p).exists():
            return (Path(base) / p).resolve()
    raise Unresolvable(f)


def flatten_expected(eff: dict) -> dict:
    """Expected observable leaves from an effective (merged) dict."""
    out = {}
    for k, v in eff['emissions'].items():
        out[('emissions', k)] = v.lower() if (k in ENUMS) else v
    out[('weather', 'use_weather')] = eff['weather']['use_weather']
    search = [Path(x) for x in eff['path']] if eff.get('path') else None
    wdir = eff['weather']['weather_data_dir']  # optional setting: an explicit None overrides the default and stays None
    out[('weather', 'weather_data_dir')] = None if wdir is None else expected_path(wdir, search)
    out[('performance_model',)] = expected_path(eff['performance_model'], search)
    out[('engine_file',)] = expected_path(eff['engine_file'], search)
    if eff.get('path'):
        out[('path',)] = [Path(x).resolve() for x in eff['path']]
    return out


def observe(cfgobj, key):
    o = cfgobj
    for k in key:
        o = getattr(o, k)
    if key[0] == 'emissions' and key[1] in ENUMS:
        return str(getattr(o, 'value', o)).lower()
    return o


MUT_TARGETS = [
    (('performance_model',), None), (('engine_file',), 'x.xlsx'), (('weather',), None),
    (('emissions',), None), (('path',), []),
    (('weather', 'use_weather'), 'FLIP'), (('weather', 'weather_data_dir'), None),
    (('emissions', 'co2_enabled'), 'FLIP'), (('emissions', 'nox_method'), 'none'),
    (('emissions', 'fuel'), 'other'), (('emissions', 'climb_descent_mode'), 'lto'),
    (('emissions', 'apu_enabled'), 'FLIP'),
]


class ConfigMachine(LoggedMachine):
    def __init__(self):
        super().__init__()
        from AEIC.config import Config

        Config.reset()
        self.model = None  # None = unconfigured, else dict of expected leaves
        self.defaults = tomllib.loads(
            (core.REPO / 'src' / 'AEIC' / 'data' / 'default_config.toml').read_text()
        )
        self.dir = self.ctx.fresh_dir()
        (self.dir / 'cwd_wx').mkdir(exist_ok=True)
        self.old_cwd = os.getcwd()
        os.chdir(self.dir)
        self.nfile = 0
        self.files = []
        self.failed_load_since = False
        self.flags = set()

    def teardown(self):
        from AEIC.config import Config

        os.chdir(self.old_cwd)
        Config.reset()
        if self.flags & {'failed_then_valid', 'split_table', 'file_reused'}:
            self.ctx.mark_nontrivial({'log': self.log})
        for f in self.flags:
            self.ctx.label(f)
        if len(self.log) >= 5:
            self.ctx.sample(self.log[:12])

    # ---- helpers
    def _write(self, text: str) -> str:
        self.nfile += 1
        p = self.dir / f'cfg{self.nfile}.toml'
        p.write_text(text)
        return str(p)

    def _unconfigured_check(self, where: str):
        from AEIC.config import Config, config

        try:
            Config.get()
        except ValueError:
            pass
        except Exception as e:  # noqa: BLE001
            self.ctx.fail_exc('unconfigured.get', e, where)
        else:
            self.ctx.fail('unconfigured.get', 'returned', 'Config.get', where,
                          f'Config.get() returned a configuration although none should be active ({where})')
        try:
            config.emissions
        except ValueError:
            pass
        except Exception as e:  # noqa: BLE001
            self.ctx.fail_exc('unconfigured.read', e, where)
        else:
            self.ctx.fail('unconfigured.read', 'returned', 'config proxy', where,
                          f'reading a setting succeeded although unconfigured ({where})')

    def _values_check(self, where: str):
        from AEIC.config import Config, config

        try:
            got_cfg = Config.get()
        except core.PASS_THROUGH:
            raise
        except Exception as e:  # noqa: BLE001
            self.ctx.fail('active.lost', type(e).__name__, 'Config.get', where.split(' while')[0].split(' ')[0:3] and 'configured',
                          f'{where}: a configuration is active but Config.get() raised {e!r}')
            return
        for src_name, obj in (('get', got_cfg), ('proxy', config)):
            for key, want in self.model.items():
                got = observe(obj, key)
                if got != want:
                    self.ctx.fail('values', 'mismatch', src_name, '.'.join(key),
                                  f'{where}: {".".join(key)} = {got!r}, expected {want!r}')

    # ---- rules
    @rule(file=st.one_of(st.none(), overlay()), kwargs=overlay(kw=True), reuse=st.integers(0, 3))
    def load_valid(self, file, kwargs, reuse=0):
        from AEIC.config import Config

        # Re-use a configuration file written earlier in this history (same path,
        # unchanged on disk), so that caching of parsed files would be exposed.
        if reuse and self.files:
            cfg_prev, file = self.files[(reuse - 1) % len(self.files)]
        else:
            cfg_prev = None
        self.op('load_valid', file=file, kwargs=kwargs, reuse=reuse)
        self.ctx.evaluations += 1
        file_over = file or {}
        if cfg_prev is not None:
            cfgfile = cfg_prev
            self.flags.add('file_reused')
        else:
            cfgfile = self._write(_toml(file)) if file is not None else None
            if cfgfile is not None:
                self.files.append((cfgfile, file))
        eff = merge_leafwise(merge_leafwise(self.defaults, file_over), kwargs)
        if file is not None:
            for t in ('emissions', 'weather'):
                a, b = file_over.get(t), kwargs.get(t)
                if a and b and set(a) - set(b) and set(b) - set(a):
                    self.flags.add('split_table')
        try:
            expected = flatten_expected(eff)
        except Unresolvable as u:
            # The overlays combine to a single-entry search path plus a relative file name that is not under it:
            # the documented lookup cannot find the file, so this load has to be refused like any other failed load.
            self.flags.add('unresolvable_under_explicit_path')
            try:
                Config.load(cfgfile, **copy.deepcopy(kwargs))
            except Exception:  # noqa: BLE001  (any refusal is a refusal)
                pass
            else:
                self.ctx.fail('load_invalid.accepted', 'returned', 'Config.load', 'unresolvable',
                              f'load succeeded although {u} is not under the effective search path {eff.get("path")}')
                return
            if self.model is None:
                self.failed_load_since = True
                self._unconfigured_check('after failed load unresolvable')
            else:
                self._values_check('after failed load unresolvable while configured')
            return
        try:
            Config.load(cfgfile, **copy.deepcopy(kwargs))
        except RuntimeError as e:
            if self.model is None:
                self.ctx.fail_exc('load_valid.refused', e, 'unconfigured')
            self.flags.add('reload_refused')
            return
        except Exception as e:  # noqa: BLE001
            if self.model is None:
                self.ctx.fail_exc('load_valid.refused', e, 'unconfigured')
            else:
                self.ctx.fail_exc('reload.wrong_error', e, 'configured')
            return
        if self.model is not None:
            self.ctx.fail('reload.accepted', 'returned', 'Config.load', '',
                          'a second load succeeded while a configuration was active')
            return
        self.model = expected
        if self.failed_load_since:
            self.flags.add('failed_then_valid')
        self._values_check('after load_valid')

    @rule(kind=st.sampled_from(INVALID_KINDS), extra=overlay(), reuse=st.integers(0, 2))
    def load_invalid(self, kind, extra, reuse=0):
        from AEIC.config import Config

        self.op('load_invalid', kind=kind, extra=extra, reuse=reuse)
        self.ctx.evaluations += 1
        kwargs = copy.deepcopy(extra)
        cfgfile = None
        if reuse and self.files and kind in ('bad_enum', 'bad_type', 'missing_perf', 'missing_engine', 'missing_weather'):
            cfgfile = self.files[(reuse - 1) % len(self.files)][0]  # a valid file plus invalid kwargs
            self.flags.add('file_reused')
        if kind == 'bad_enum':
            kwargs.setdefault('emissions', {})['nox_method'] = 'bogus'
        elif kind == 'bad_type':
            kwargs.setdefault('emissions', {})['co2_enabled'] = [1, 2]
        elif kind == 'missing_perf':
            kwargs['performance_model'] = 'performance/does_not_exist.toml'
        elif kind == 'missing_engine':
            kwargs['engine_file'] = str(self.dir / 'no_such_engine.xlsx')
        elif kind == 'missing_weather':
            kwargs.setdefault('weather', {})['weather_data_dir'] = 'no_such_weather_dir'
        elif kind == 'missing_config_file':
            cfgfile = str(self.dir / 'absent.toml')
        elif kind == 'empty_config_path':
            cfgfile = ''  # a path that cannot be opened, not "no file"
        elif kind == 'none_for_required':
            # None for a setting that has no "unset" state
            which = len(self.log) % 3
            if which == 0:
                kwargs['performance_model'] = None
            elif which == 1:
                kwargs['engine_file'] = None
            else:
                kwargs.setdefault('emissions', {})['co2_enabled'] = None
        elif kind == 'malformed_toml':
            cfgfile = self._write('[emissions\nco2_enabled = tru\n')
        elif kind == 'bad_enum_in_file':
            kwargs.get('emissions', {}).pop('pmvol_method', None)
            cfgfile = self._write(_toml({'emissions': {'pmvol_method': 'nonsense'}}))
        elif kind == 'missing_perf_in_file':
            kwargs.pop('performance_model', None)
            cfgfile = self._write(_toml({'performance_model': 'performance/nope.toml'}))
        try:
            Config.load(cfgfile, **kwargs)
        except Exception:  # noqa: BLE001  (any refusal is a refusal)
            pass
        else:
            self.ctx.fail('load_invalid.accepted', 'returned', 'Config.load', kind,
                          f'invalid load ({kind}) succeeded')
            return
        if self.model is None:
            self.failed_load_since = True
            self.flags.add('failed_load_unconfigured')
            self._unconfigured_check(f'after failed load {kind}')
        else:
            self.flags.add('failed_load_configured')
            self._values_check(f'after failed load {kind} while configured')

    @rule(validate=st.booleans())
    def construct_directly(self, validate):
        """The class itself is public: building a second configuration object while one is active must be refused
        exactly like a second load (only generated while a configuration is active)."""
        from AEIC.config import Config

        if self.model is None:
            return
        self.op('construct_directly', validate=validate)
        self.ctx.evaluations += 1
        data = copy.deepcopy(self.defaults)
        try:
            Config.model_validate(data) if validate else Config(**data)
        except Exception:  # noqa: BLE001  (any refusal is a refusal)
            self.flags.add('direct_construction_refused')
            self._values_check('after refused direct construction')
            return
        self.ctx.fail('reload.accepted', 'returned', 'Config.__init__', 'direct_construction',
                      'a second configuration object was constructed while a configuration was active')

    @rule()
    def reset(self):
        from AEIC.config import Config

        self.op('reset')
        self.ctx.evaluations += 1
        Config.reset()
        self.model = None
        self.failed_load_since = False
        self._unconfigured_check('after reset')

    @rule(target_i=st.integers(0, len(MUT_TARGETS) - 1), via_get=st.booleans())
    def mutate(self, target_i, via_get):
        from AEIC.config import Config, config

        self.op('mutate', target_i=target_i, via_get=via_get)
        self.ctx.evaluations += 1
        key, val = MUT_TARGETS[target_i]
        if self.model is None:
            try:
                setattr(config, key[0], val)
            except ValueError:
                pass
            except Exception as e:  # noqa: BLE001
                self.ctx.fail_exc('unconfigured.mutate', e, key[0])
            else:
                self.ctx.fail('unconfigured.mutate', 'returned', 'proxy', key[0],
                              'assignment on unconfigured proxy succeeded')
            self._unconfigured_check('after mutate while unconfigured')
            return
        root = Config.get() if via_get else config
        obj = root
        for k in key[:-1]:
            obj = getattr(obj, k)
        before = getattr(obj, key[-1])
        if val == 'FLIP':
            val = not before
        try:
            setattr(obj, key[-1], val)
        except Exception:  # noqa: BLE001  (refusal)
            pass
        else:
            self.ctx.fail('mutate.accepted', 'returned', 'setattr', '.'.join(key),
                          f'assignment {".".join(key)} = {val!r} was accepted')
        after = getattr(obj, key[-1])
        if after is not before and after != before:
            self.ctx.fail('mutate.changed', 'mismatch', 'setattr', '.'.join(key),
                          f'value changed from {before!r} to {after!r}')
        self.flags.add('mutate_configured')
        self._values_check('after mutate')

    @invariant()
    def inv(self):
        if self.model is None:
            self._unconfigured_check('invariant')
        else:
            self._values_check('invariant')


def run(ctx: core.Ctx):
    ctx.level = 'exploration'
    ctx.rule = (
        'Hypothesis rule-based histories over load_valid/load_invalid(9 kinds)/reset/mutate with an invariant '
        'comparing Config.get()/proxy with a reference {unconfigured, configured(values)}; expected values = '
        'defaults(+)file(+)kwargs merged leaf-wise by the harness. evaluations = rule executions. A history is '
        'non-trivial when a failed load (while unconfigured) is followed by a successful load, or file and kwargs '
        'set different leaves of one table; distinct = hash of the operation log.'
    )
    ctx.assumptions = [
        'mutation means attribute assignment on the proxy / Config.get() at any nesting level (as the repository tests do)',
        'unknown keys are not generated (pydantic ignores them; the property is silent)',
    ]
    core.run_machine(ctx, ConfigMachine, max_examples=ctx.n(150, 1500), steps=25)


def replay(ctx: core.Ctx, case):
    core.replay_machine(ConfigMachine, ctx, case)
