"""C13 — schedule import creates exactly the flight instances the row implies.

A case is a small OAG schedule file: data year + 1..4 literal CSV rows, fed
either row by row through ``CSVEntry.from_csv_row`` + ``OAGDatabase.add`` or as
a CSV file through ``convert_oag_data``.  The oracle is pure Python: stdlib
``zoneinfo`` with *hand-recorded* IANA zones (data/c13/zones.csv), ``pyproj``
for the great-circle distance, ``datetime.date`` for weekdays; the result is
read back from the SQLite file with plain SELECTs.

Airports come from a harness airports file (data/c13/airports/airports.csv,
OurAirports layout, found by AEIC through ``data_path_overrides`` exactly like
the repository's own test data) plus two airports that AEIC only knows through
its packaged ``airports-patch.csv``.
"""

from __future__ import annotations

import calendar
import csv
import logging
import os
import re
import shutil
import sqlite3
from datetime import date, datetime, timedelta, timezone
from functools import lru_cache
from zoneinfo import ZoneInfo

os.environ.setdefault('TQDM_DISABLE', '1')

from hypothesis import strategies as st  # noqa: E402

from .. import core  # noqa: E402

SHARDED = True

DATA = core.VERIF / 'data' / 'c13'
MILE_KM = 1.609344  # international statute mile, exact by definition
UNKNOWN_CODES = ['QPX', 'QPY', 'ZZZ', 'XXA']
EXCLUDED_EQUIPMENT = ['BUS', 'HOV', 'LCH', 'LMO', 'RFS', 'TRN']  # oag.py comment / docs "non-aviation equipment"
AIRCRAFT = [('737', '738'), ('737', '73H'), ('32S', '320'), ('32S', '321'), ('AT7', 'AT7'), ('777', '77W'),
            ('EMJ', 'E75'), ('DH8', 'DH4'), ('747', '744'), ('330', '333')]
CARRIERS = ['AA', 'AS', 'NH', 'NZ', 'QF', 'VT', 'FJ', 'LH', 'BA', 'EK', 'U2', '9W', 'PG']
WARN_TEXT = {
    'unknown airport code': 'UNKNOWN_AIRPORT',
    'arrival time before departure time': 'TIME_MISORDERING',
    'suspicious distance': 'SUSPICIOUS_DISTANCE',
    'zero distance': 'ZERO_DISTANCE',
}
YEARS = [2019, 2019, 2019, 2020, 2023, 2024]


# --------------------------------------------------------------------------
# reference helpers (oracle)


def _geod():
    from pyproj import Geod

    return Geod(ellps='WGS84')


def epoch_candidates(d: date, minutes: int, zone: str) -> frozenset:
    """UTC epoch seconds of local wall time (d 00:00 + minutes) in `zone`.
    Two values when the wall time is ambiguous (fold) or does not exist (gap):
    either reading is accepted."""
    naive = datetime(d.year, d.month, d.day) + timedelta(minutes=minutes)
    wall = calendar.timegm(naive.timetuple())
    z = ZoneInfo(zone)
    out = set()
    for fold in (0, 1):
        off = naive.replace(tzinfo=z, fold=fold).utcoffset()
        out.add(wall - int(off.total_seconds()))
    return frozenset(out)


def local_date(epoch: int, zone: str) -> date:
    return datetime.fromtimestamp(epoch, tz=timezone.utc).astimezone(ZoneInfo(zone)).date()


@lru_cache(maxsize=None)
def transitions(zone: str, year: int):
    """UTC-offset changes of `zone` within `year`: list of
    (utc_epoch_of_change, offset_before_s, offset_after_s)."""
    z = ZoneInfo(zone)

    def off(e):
        return int(datetime.fromtimestamp(e, tz=timezone.utc).astimezone(z).utcoffset().total_seconds())

    start = calendar.timegm((year, 1, 1, 0, 0, 0)) - 86400
    end = calendar.timegm((year + 1, 1, 1, 0, 0, 0)) + 86400
    out = []
    e, o = start, off(start)
    while e < end:
        e2 = e + 6 * 3600
        o2 = off(e2)
        if o2 != o:
            lo, hi = e, e2
            while hi - lo > 60:
                mid = (lo + hi) // 2 // 60 * 60
                if off(mid) == o:
                    lo = mid
                else:
                    hi = mid
            out.append((hi, o, o2))
        e, o = e2, o2
    return out


def parse_date8(s: str):
    if s in ('00000000', '99999999'):
        return None
    return date(int(s[:4]), int(s[4:6]), int(s[6:8]))


def daterange(a: date, b: date):
    d = a
    while d <= b:
        yield d
        d += timedelta(days=1)


class Env:
    """Harness data, loaded once per process, with start-up self-tests."""

    def __init__(self):
        self.geod = _geod()
        self.airports = {}  # iata -> dict(lat, lon, country, name)
        with open(DATA / 'airports' / 'airports.csv', newline='', encoding='utf-8') as f:
            for r in csv.DictReader(f):
                self.airports[r['iata_code']] = {
                    'lat': float(r['latitude_deg']), 'lon': float(r['longitude_deg']),
                    'country': r['iso_country'], 'name': r['name'],
                }
        self.zones = {}
        with open(DATA / 'zones.csv', newline='', encoding='utf-8') as f:
            for r in csv.DictReader(f):
                self.zones[r['iata_code']] = r['tz']
        patch = {}
        with open(core.REPO / 'src' / 'AEIC' / 'data' / 'airports' / 'airports-patch.csv',
                  newline='', encoding='utf-8') as f:
            for r in csv.DictReader(f):
                if r['iata_code']:
                    patch[r['iata_code']] = r
        for code in self.zones:
            if code not in self.airports:
                if code not in patch:
                    raise core.HarnessError(f'zones.csv lists {code}, which is in neither airports file')
                r = patch[code]
                self.airports[code] = {
                    'lat': float(r['latitude_deg']), 'lon': float(r['longitude_deg']),
                    'country': r['iso_country'], 'name': r['name'],
                }
        for code in self.airports:
            if code not in self.zones:
                raise core.HarnessError(f'no recorded zone for {code}')
        for code in UNKNOWN_CODES:
            if code in self.airports or code in patch:
                raise core.HarnessError(f'"unknown" code {code} is a known airport')
        self.codes = sorted(self.airports)
        self.header = None
        with open(core.TEST_DATA / 'oag' / '2019-extract.csv', newline='') as f:
            self.header = next(csv.reader(f))
        self._selftest()
        self._check_zones()
        # pair tables for the generator
        self.near_pairs = []
        self.far_pairs = []
        for i, a in enumerate(self.codes):
            for b in self.codes[i + 1:]:
                g = self.gc_km(a, b)
                if 40.0 < g < 450.0:
                    self.near_pairs.append((a, b))
        if len(self.near_pairs) < 5:
            raise core.HarnessError('too few near airport pairs')
        self.dateline = [c for c in ('APW', 'PPG', 'CXI', 'TBU', 'NAN', 'HNL', 'AKL', 'CHT', 'PPT', 'NHV')
                         if c in self.airports]
        self.odd = [c for c in self.codes if self._odd_offset(c)]

    def _odd_offset(self, code):
        z = ZoneInfo(self.zones[code])
        o = datetime(2019, 1, 15, 12, tzinfo=z).utcoffset().total_seconds()
        return o % 3600 != 0

    # ---- trusted-base wrappers
    def gc_km(self, a: str, b: str) -> float:
        A, B = self.airports[a], self.airports[b]
        return self.geod.inv(A['lon'], A['lat'], B['lon'], B['lat'])[2] / 1000.0

    def gc_km_latlon_swapped(self, a: str, b: str) -> float:
        """Diagnostic only: what a caller gets who hands pyproj (lat, lon)."""
        A, B = self.airports[a], self.airports[b]
        return self.geod.inv(A['lat'], A['lon'], B['lat'], B['lon'])[2] / 1000.0

    # ---- self tests against values not produced by these helpers
    def _selftest(self):
        # WGS84 constants: quarter meridian 10001965.729 m; one degree of equator 111319.491 m.
        q = self.geod.inv(0.0, 0.0, 0.0, 90.0)[2]
        e1 = self.geod.inv(0.0, 0.0, 1.0, 0.0)[2]
        if abs(q - 10001965.729) > 0.01 or abs(e1 - 111319.491) > 0.01:
            raise core.HarnessError(f'pyproj geodesic self-test failed: {q} {e1}')
        # published great-circle distance JFK-LHR is 5540 km (+-0.3 %)
        if 'JFK' in self.airports and abs(self.gc_km('JFK', 'LHR') - 5540) > 15:
            raise core.HarnessError('JFK-LHR distance self-test failed')
        # epoch conversions worked out by hand: 2019-01-01T00:00Z = 1546300800
        tests = [
            (date(2019, 7, 1), 12 * 60, 'America/New_York', {1561996800}),       # EDT: 16:00Z
            (date(2019, 1, 1), 0, 'Europe/London', {1546300800}),
            (date(2019, 6, 1), 12 * 60, 'Asia/Kathmandu', {1559369700}),          # 06:15Z
            (date(2019, 1, 1), 0, 'Pacific/Kiritimati', {1546300800 - 14 * 3600}),
            (date(2019, 1, 1), 0, 'Pacific/Pago_Pago', {1546300800 + 11 * 3600}),
            (date(2019, 3, 10), 150, 'America/New_York', {1552203000, 1552199400}),  # gap 02:30
            (date(2019, 11, 3), 90, 'America/New_York', {1572759000, 1572762600}),   # fold 01:30
            (date(2019, 1, 15), 600, 'Australia/Sydney', {1547506800}),            # AEDT +11: 23:00Z on the 14th
        ]
        for d, m, z, want in tests:
            got = set(epoch_candidates(d, m, z))
            if got != want:
                raise core.HarnessError(f'epoch self-test failed {d} {m} {z}: {got} != {want}')
        if date(2019, 1, 1).isoweekday() != 2 or date(2024, 2, 29).isoweekday() != 4:
            raise core.HarnessError('weekday self-test failed')
        tr = transitions('America/New_York', 2019)
        if [t[0] for t in tr] != [1552201200, 1572760800]:
            raise core.HarnessError(f'transition finder self-test failed: {tr}')

    def _check_zones(self):
        """False-alarm guard: AEIC looks zones up with timezonefinder; the
        oracle uses hand-recorded zones.  They must agree on every airport the
        generator uses, otherwise a third-party data quirk would be blamed on
        AEIC."""
        from timezonefinder import TimezoneFinder

        tf = TimezoneFinder()
        for code, a in self.airports.items():
            got = tf.certain_timezone_at(lat=a['lat'], lng=a['lon'])
            want = self.zones[code]
            if got == want:
                continue
            ok = got is not None
            if ok:
                try:
                    zg, zw = ZoneInfo(got), ZoneInfo(want)
                    for y in (2019, 2020, 2023, 2024):
                        for doy in range(0, 366, 3):
                            t = datetime(y, 1, 1, 12, tzinfo=timezone.utc) + timedelta(days=doy)
                            if t.astimezone(zg).utcoffset() != t.astimezone(zw).utcoffset():
                                ok = False
                except Exception:  # noqa: BLE001
                    ok = False
            if not ok:
                raise core.HarnessError(f'time zone of {code}: timezonefinder says {got}, harness data says {want}')


_ENV: Env | None = None


def env() -> Env:
    global _ENV
    if _ENV is None:
        _ENV = Env()
    return _ENV


# --------------------------------------------------------------------------
# generator: literal CSV rows


def _hhmm(minutes: int) -> str:
    return f'{minutes // 60:02d}{minutes % 60:02d}'


def _d8(d: date) -> str:
    return f'{d.year:04d}{d.month:02d}{d.day:02d}'


def _arrday_token(draw, off: int) -> str:
    if off == -1:
        return 'P'
    if off == 0:
        return draw(st.sampled_from(['', ' ']))
    return str(off)


def _weighted(draw, pairs):
    """pairs = [(name, weight)]; integer draw so that shrinking goes to the first."""
    expanded = [name for name, w in pairs for _ in range(w)]
    return draw(st.sampled_from(expanded))


@st.composite
def row_strategy(draw, E: Env, year: int, used_keys: set, open_weight: int, force_pair=None):
    cls = {}
    # ---------------- airports
    pair_cls = _weighted(draw, [('any', 42), ('near', 18), ('dateline', 12), ('odd_offset', 12),
                                ('unknown', 7), ('same', 3), ('patch', 6)])
    codes = E.codes
    if force_pair is not None:
        # the directed airport pair of an earlier row of the same file (every row is judged on its own stated distance)
        pair_cls = 'twin'
        a, b = force_pair
    elif pair_cls == 'near':
        a, b = draw(st.sampled_from(E.near_pairs))
        if draw(st.booleans()):
            a, b = b, a
    elif pair_cls == 'dateline':
        a = draw(st.sampled_from(E.dateline))
        b = draw(st.sampled_from([c for c in E.dateline if c != a]))
    elif pair_cls == 'odd_offset':
        a = draw(st.sampled_from(E.odd))
        b = draw(st.sampled_from([c for c in codes if c != a]))
        if draw(st.booleans()):
            a, b = b, a
    elif pair_cls == 'patch':
        a = draw(st.sampled_from(['FRU', 'KIV', 'DSA', 'ISN', 'ETH', 'LGP', 'MJV']))  # the last five are of type 'closed'
        b = draw(st.sampled_from([c for c in codes if c != a]))
        if draw(st.booleans()):
            a, b = b, a
    elif pair_cls == 'same':
        a = b = draw(st.sampled_from(codes))
    else:
        a = draw(st.sampled_from(codes))
        b = draw(st.sampled_from([c for c in codes if c != a]))
    ka, kb = a, b  # known airports used to derive times/distances
    dep, arr = a, b
    if pair_cls == 'unknown':
        which = draw(st.sampled_from(['dep', 'arr', 'both']))
        if which in ('dep', 'both'):
            dep = draw(st.sampled_from(UNKNOWN_CODES))
        if which in ('arr', 'both'):
            arr = draw(st.sampled_from(UNKNOWN_CODES))
    cls['pair'] = pair_cls
    za, zb = E.zones[ka], E.zones[kb]

    # ---------------- effective range
    y0, y1 = date(year, 1, 1), date(year, 12, 31)
    ndays = (y1 - y0).days + 1
    range_cls = _weighted(draw, [('short', 26), ('single', 12), ('dst', 20), ('long', 8), ('year_edge', 8),
                                 ('cross_year', 3), ('open_from', open_weight), ('open_to', open_weight),
                                 ('open_both', open_weight)])
    trs = [(t, 'o') for t in transitions(za, year)] + [(t, 'd') for t in transitions(zb, year)]
    tr_pick = None
    if range_cls == 'dst' and not trs:
        range_cls = 'short'
    if range_cls == 'single':
        f = t = y0 + timedelta(days=draw(st.integers(0, ndays - 1)))
    elif range_cls == 'short':
        f = y0 + timedelta(days=draw(st.integers(0, ndays - 1)))
        t = min(y1, f + timedelta(days=draw(st.integers(1, 20))))
    elif range_cls == 'dst':
        tr_pick = draw(st.sampled_from(trs))
        (te, o1, o2), side = tr_pick
        zone = za if side == 'o' else zb
        tdate = local_date(te - 1, zone)
        f = tdate - timedelta(days=draw(st.integers(1, 8)))
        t = tdate + timedelta(days=draw(st.integers(1, 8)))
        f, t = max(f, y0), min(t, y1)
        if f > t:
            f = t
    elif range_cls == 'long':
        f = y0 + timedelta(days=draw(st.integers(0, ndays - 60)))
        t = min(y1, f + timedelta(days=draw(st.integers(40, 366))))
    elif range_cls == 'year_edge':
        if draw(st.booleans()):
            f, t = y0, y0 + timedelta(days=draw(st.integers(0, 30)))
        else:
            t = y1
            f = y1 - timedelta(days=draw(st.integers(0, 30)))
    elif range_cls == 'cross_year':
        if draw(st.booleans()):
            f = y0 - timedelta(days=draw(st.integers(1, 20)))
            t = y0 + timedelta(days=draw(st.integers(0, 20)))
        else:
            f = y1 - timedelta(days=draw(st.integers(0, 20)))
            t = y1 + timedelta(days=draw(st.integers(1, 20)))
    elif range_cls == 'open_from':
        f, t = None, y0 + timedelta(days=draw(st.integers(0, 45)))
        if draw(st.integers(0, 4)) == 0:
            t = y0 + timedelta(days=draw(st.integers(0, ndays - 1)))
    elif range_cls == 'open_to':
        t, f = None, y1 - timedelta(days=draw(st.integers(0, 45)))
        if draw(st.integers(0, 4)) == 0:
            f = y0 + timedelta(days=draw(st.integers(0, ndays - 1)))
    else:
        f = t = None
    efffrom = '00000000' if f is None else _d8(f)
    effto = draw(st.sampled_from(['99999999', '99999999', '00000000'])) if t is None else _d8(t)
    if f is None and draw(st.integers(0, 5)) == 0:
        efffrom = '99999999'
    rf, rt = f or y0, t or y1
    cls['range'] = range_cls

    # ---------------- weekdays
    day_cls = _weighted(draw, [('all', 30), ('subset', 40), ('one', 18), ('workdays', 9), ('empty', 3)])
    if day_cls == 'all':
        dset = {1, 2, 3, 4, 5, 6, 7}
    elif day_cls == 'workdays':
        dset = {1, 2, 3, 4, 5}
    elif day_cls == 'one':
        dset = {draw(st.integers(1, 7))}
    elif day_cls == 'empty':
        dset = set()
    else:
        dset = set(draw(st.lists(st.integers(1, 7), min_size=1, max_size=6, unique=True)))
    if range_cls == 'single' and dset and draw(st.integers(0, 3)) > 0:
        dset.add(rf.isoweekday())  # make the single day an operating day most of the time
    if range_cls in ('short', 'dst', 'year_edge') and dset and draw(st.integers(0, 2)) == 0:
        dset.add(rt.isoweekday())  # last day of the range is an operating day
    fmt = draw(st.sampled_from(['pos_rstrip', 'pos_rstrip', 'pos_full', 'compact']))
    if fmt == 'compact':
        days = ''.join(str(d) for d in sorted(dset))
    else:
        days = ''.join(str(d) if d in dset else ' ' for d in range(1, 8))
        if fmt == 'pos_rstrip':
            days = days.rstrip()
    cls['days'] = day_cls

    # ---------------- times
    gc = E.gc_km(ka, kb) if ka != kb else 0.0
    if tr_pick is not None:
        time_cls = _weighted(draw, [('dst_wall', 45), ('tight', 25), ('realistic', 20), ('random', 10)])
    else:
        time_cls = _weighted(draw, [('realistic', 50), ('random', 30), ('tight', 20)])
    ref = rf + timedelta(days=draw(st.integers(0, min(6, (rt - rf).days))))  # reference date for derived times
    depm = draw(st.integers(0, 1439))
    arrm, off = None, None
    dur_min = int(gc / 800.0 * 60) + draw(st.integers(20, 90))
    if time_cls == 'dst_wall':
        (te, o1, o2), side = tr_pick
        lo, hi = min(o1, o2), max(o1, o2)
        # a wall time inside (or up to 45 min around) the gap / fold
        wall = te + lo + draw(st.integers(-45 * 60, (hi - lo) + 45 * 60)) // 60 * 60
        wd = datetime.fromtimestamp(wall, tz=timezone.utc)
        wmin = wd.hour * 60 + wd.minute
        if side == 'o':
            depm = wmin
        else:
            arrm = wmin
            # pick the departure so that the arrival is `dur_min` later on the transition day
            arr_e = min(epoch_candidates(wd.date(), wmin, zb))
            dl = datetime.fromtimestamp(arr_e - dur_min * 60, tz=timezone.utc).astimezone(ZoneInfo(za))
            depm = dl.hour * 60 + dl.minute
            off = (wd.date() - dl.date()).days
    if time_cls == 'random':
        arrm = draw(st.integers(0, 1439))
        off = draw(st.sampled_from([-1, 0, 0, 1, 2]))
    elif arrm is None:
        dep_e = min(epoch_candidates(ref, depm, za))
        if time_cls == 'tight':
            delta = draw(st.sampled_from([-60, 0, 0, 60, 300, -3600, 3600]))
        else:
            delta = dur_min * 60
        al = datetime.fromtimestamp(dep_e + delta, tz=timezone.utc).astimezone(ZoneInfo(zb))
        arrm = al.hour * 60 + al.minute
        off = (al.date() - ref).days
    if off is None or off < -1 or off > 2:
        off = draw(st.sampled_from([-1, 0, 1, 2]))
        time_cls = 'random'
    cls['time'] = time_cls
    arrday = _arrday_token(draw, off)

    # ---------------- distance (statute miles, integer)
    T = max(50.0, 0.10 * gc)
    cands = [('exact', 22), ('within', 16), ('implausible', 16), ('edge_in', 12), ('edge_out', 12), ('zero', 6)]
    if gc < 450:
        cands.append(('over10_under50', 16))
    elif gc > 650:
        cands.append(('over50_under10', 16))
    dist_cls = _weighted(draw, cands)
    if force_pair is not None and draw(st.booleans()):
        # same pair, opposite verdict: no stated distance (always kept) after/before a grossly wrong one
        dist_cls = 'zero' if used_keys and getattr(used_keys, 'last_dist', None) == 'implausible' else 'implausible'
    try:
        used_keys.last_dist = dist_cls
    except AttributeError:
        pass
    sign = draw(st.sampled_from([1, -1]))
    u = draw(st.integers(0, 1000)) / 1000.0
    if dist_cls == 'exact':
        diff = 0.0
    elif dist_cls == 'within':
        diff = u * 0.9 * min(50.0, 0.10 * gc)
    elif dist_cls == 'over10_under50':
        diff = 0.10 * gc * 1.03 + u * max(0.0, 50.0 * 0.96 - 0.10 * gc * 1.03)
    elif dist_cls == 'over50_under10':
        diff = 50.0 * 1.04 + u * max(0.0, 0.10 * gc * 0.97 - 50.0 * 1.04)
    elif dist_cls == 'edge_in':
        diff = T * (0.95 + 0.04 * u)
    elif dist_cls == 'edge_out':
        diff = T * (1.01 + 0.05 * u)
    elif dist_cls == 'implausible':
        diff = T * (1.2 + 4.0 * u)
    else:
        diff = None
    if diff is None:
        miles = 0
    else:
        if sign < 0 and gc - diff < 2.0:
            sign = 1
        miles = max(1, int(round((gc + sign * diff) / MILE_KM)))
        # keep the integer-mile value out of the 0.5 % guard band around the decision threshold
        for _ in range(8):
            r = abs(miles * MILE_KM - gc) / T
            if abs(r - 1.0) > 0.006:
                break
            miles += 1 if (miles * MILE_KM > gc) == (r >= 1.0) else -1
            miles = max(1, miles)
    cls['dist'] = dist_cls

    # ---------------- filter fields
    service = _weighted(draw, [('J', 60), ('S', 15), ('Q', 15), ('V', 2), ('U', 2), ('F', 2), ('C', 2), ('G', 2), ('', 2)])
    stops = _weighted(draw, [('00', 97), ('01', 2), ('02', 1)])
    operating = _weighted(draw, [('O', 57), ('', 40), ('N', 3)])
    if draw(st.integers(0, 32)) == 32:
        gen = inp = draw(st.sampled_from(EXCLUDED_EQUIPMENT))
    else:
        gen, inp = draw(st.sampled_from(AIRCRAFT))
    carrier = draw(st.sampled_from(CARRIERS))
    fl = draw(st.integers(0, 9999))
    while (carrier, fl) in used_keys:
        fl = (fl + 1) % 10000
    used_keys.add((carrier, fl))
    if fl == 0:
        fltno = draw(st.sampled_from(['', '0']))
    else:
        fltno = draw(st.sampled_from(['{}', '{}', '{:>4}', '{:04d}'])).format(fl)
    seats = f'{draw(st.integers(0, 853)):04d}'
    row = {
        'carrier': carrier, 'fltno': fltno, 'depapt': dep, 'arrapt': arr,
        'depctry': E.airports[ka]['country'] if dep == ka and draw(st.booleans()) else '',
        'arrctry': E.airports[kb]['country'] if arr == kb and draw(st.booleans()) else '',
        'deptim': _hhmm(depm), 'arrtim': _hhmm(arrm), 'arrday': arrday, 'days': days,
        'stops': stops, 'genacft': gen, 'inpacft': inp, 'service': service, 'seats': seats,
        'efffrom': efffrom, 'effto': effto, 'longest': draw(st.sampled_from(['L', 'L', ''])),
        'distance': f'{miles:07d}', 'operating': operating,
    }
    return {'row': row, 'cls': cls}


class _Used(set):
    """The set of used flight keys of one generated file, plus the distance class of the previous row."""
    last_dist = None


@st.composite
def case_strategy(draw, E: Env):
    year = draw(st.sampled_from(YEARS))
    mode = _weighted(draw, [('add', 82), ('convert', 18)])
    n = draw(st.integers(1, 4))
    used = _Used()
    # open-ended rows are rarer in file mode: one failing row aborts the whole file there
    ow = 7 if mode == 'add' else 3
    rows = []
    for _ in range(n):
        known = [(r['row']['depapt'], r['row']['arrapt']) for r in rows
                 if r['row']['depapt'] in E.airports and r['row']['arrapt'] in E.airports and r['row']['depapt'] != r['row']['arrapt']]
        twin = draw(st.sampled_from(known)) if known and draw(st.integers(0, 3)) == 0 else None
        rows.append(draw(row_strategy(E, year, used, ow, force_pair=twin)))
    return {'year': year, 'mode': mode, 'rows': [r['row'] for r in rows], 'cls': [r['cls'] for r in rows],
            'final_commit': draw(st.booleans())}


# --------------------------------------------------------------------------
# oracle


def dist_decision(given_km: float, gc_km: float) -> str:
    """The documented rule (docs/src/oag.md, _distance_check docstring)."""
    if gc_km < 1.0:
        return 'ZERO_DISTANCE'
    if given_km > 0:
        ad = abs(given_km - gc_km)
        if ad > 50.0 and 100.0 * ad / gc_km > 10.0:
            return 'SUSPICIOUS_DISTANCE'
    return 'keep'


def dist_in_guard_band(given_km: float, gc_km: float) -> bool:
    if gc_km < 1.0 or given_km <= 0:
        return False
    T = max(50.0, 0.10 * gc_km)
    return abs(abs(given_km - gc_km) / T - 1.0) < 0.004


def expect_row(E: Env, year: int, row: dict) -> dict:
    x = {'filter': 'keep', 'unknown': [], 'dist': None, 'dist_variant': None, 'flight': None, 'dates': []}
    # documented filter
    if row['service'] in ('V', 'U') or int(row['stops']) != 0 or row['operating'] == 'N' \
            or row['genacft'] in EXCLUDED_EQUIPMENT:
        x['filter'] = 'skip'
        return x
    if row['service'] not in ('J', 'S', 'Q'):
        x['filter'] = 'either'  # docs: "not J, S or Q" ignored; code: only V, U ignored
    dep, arr = row['depapt'], row['arrapt']
    x['unknown'] = [c for c in (dep, arr) if c not in E.airports]
    if x['unknown']:
        return x
    miles = int(row['distance'])
    given = miles * MILE_KM
    gc = E.gc_km(dep, arr)
    x['dist'] = dist_decision(given, gc)
    x['dist_guard'] = dist_in_guard_band(given, gc)
    x['dist_variant'] = dist_decision(given, E.gc_km_latlon_swapped(dep, arr))
    x['gc'] = gc
    f, t = parse_date8(row['efffrom']), parse_date8(row['effto'])
    rf, rt = f or date(year, 1, 1), t or date(year, 12, 31)
    dset = {d for d in range(1, 8) if str(d) in row['days']}
    depm = int(row['deptim']) // 100 * 60 + int(row['deptim']) % 100
    arrm = int(row['arrtim']) // 100 * 60 + int(row['arrtim']) % 100
    off = {'P': -1, '': 0, ' ': 0}.get(row['arrday'])
    if off is None:
        off = int(row['arrday'])
    fl = row['fltno'].strip()
    x['flight'] = {
        'carrier': row['carrier'],
        'flight_number': str(int(fl)) if fl else '0',
        'origin': dep, 'destination': arr,
        'day_of_week_mask': sum(1 << (d - 1) for d in dset),
        'departure_time': depm, 'arrival_time': arrm, 'arrival_day_offset': off,
        'service_type': row['service'], 'aircraft_type': row['inpacft'],
        'distance': given, 'seat_capacity': int(row['seats']),
        'effective_from': rf.isoformat(), 'effective_to': rt.isoformat(),
        'od_pair': min(dep, arr) + max(dep, arr),
    }
    za, zb = E.zones[dep], E.zones[arr]
    for d in daterange(rf, rt):
        if d.isoweekday() not in dset:
            continue
        D = epoch_candidates(d, depm, za)
        A = epoch_candidates(d + timedelta(days=off), arrm, zb)
        combos = [(a >= p) for p in D for a in A]
        must = 'present' if all(combos) else ('absent' if not any(combos) else 'either')
        x['dates'].append({'date': d, 'D': D, 'A': A, 'must': must})
    x['range'] = (rf, rt)
    x['open'] = f is None or t is None
    x['zones'] = (za, zb)
    x['off'] = off
    return x


# --------------------------------------------------------------------------
# running the code under test


def _reset_globals():
    """The airports/countries registries and the Config are process-global."""
    from AEIC.config import Config
    import AEIC.utils.airports as ap

    ap._airports = None
    ap._countries = None
    Config.reset()
    Config.load(data_path_overrides=[DATA, core.TEST_DATA])


def _read_db(path):
    con = sqlite3.connect(f'file:{path}?mode=ro', uri=True)
    try:
        def table(name):
            cur = con.execute(f'SELECT * FROM {name}')
            cols = [c[0] for c in cur.description]
            return [dict(zip(cols, r)) for r in cur.fetchall()]

        return {'flights': table('flights'), 'schedules': table('schedules'), 'airports': table('airports'),
                'countries': table('countries')}
    finally:
        con.close()


def _full_row(E: Env, row: dict) -> dict:
    out = {h: '' for h in E.header}
    out.update(row)
    return out


def body(ctx: core.Ctx, case: dict):
    E = env()
    ctx.case(case)
    year, mode, rows = case['year'], case['mode'], case['rows']
    _reset_globals()
    from AEIC.missions.oag import CSVEntry, OAGDatabase, convert_oag_data

    d = ctx.fresh_dir()
    try:
        dbfile = d / 'm.sqlite'
        exp = [expect_row(E, year, r) for r in rows]
        status = [None] * len(rows)  # add mode: 'none' | True | False | 'aborted'
        warnings: dict | None = {}
        unknown_seen = None
        if mode == 'add':
            db = OAGDatabase(str(dbfile), year)
            try:
                for i, r in enumerate(rows):
                    line = i + 2
                    try:
                        entry = CSVEntry.from_csv_row(_full_row(E, r), line)
                        if entry is None:
                            status[i] = 'none'
                            continue
                        status[i] = bool(db.add(entry))
                    except core.PASS_THROUGH:
                        raise
                    except Exception as e:  # noqa: BLE001
                        ctx.label('exception')
                        ctx.fail_exc('import', e, _exc_disc(exp[i]))
                        status[i] = 'aborted'
                warnings = {ln: w.warn_type.name for ln, w in db.warnings.items()}
                unknown_seen = set(db.unknown_airports)
                if case.get('final_commit', True):
                    db.commit()  # not needed for durability: add() commits by default
            finally:
                db.close()
        else:
            csvfile = d / 'in.csv'
            with open(csvfile, 'w', newline='') as f:
                w = csv.DictWriter(f, fieldnames=E.header, quoting=csv.QUOTE_ALL)
                w.writeheader()
                for r in rows:
                    w.writerow(_full_row(E, r))
            wfile = d / 'warnings.txt'
            try:
                convert_oag_data(str(csvfile), year, str(dbfile), str(wfile))
            except core.PASS_THROUGH:
                raise
            except Exception as e:  # noqa: BLE001
                ctx.label('exception')
                where = core.aeic_frame(e)
                if where.endswith('.report'):
                    # the database is complete at this point; only the warnings report is lost
                    ctx.fail_exc('convert.report', e, 'no_entry_added' if isinstance(e, ZeroDivisionError) else '')
                    warnings = None
                else:
                    disc = ''
                    for x in exp:
                        if _exc_disc(x):
                            disc = _exc_disc(x)
                    ctx.fail_exc('import', e, disc)
                    return  # known finding: the import was aborted, nothing to compare
            if warnings is not None:
                warnings = {}
                if wfile.exists():
                    for ln in wfile.read_text().splitlines():
                        m = re.match(r'^(\d+): (.+?) - ', ln)
                        if m:
                            if m.group(2) not in WARN_TEXT:
                                ctx.fail('warning.type', 'mismatch', 'writable_database.report', 'unknown_text',
                                         f'unrecognised warning line {ln!r}')
                                continue
                            warnings[int(m.group(1))] = WARN_TEXT[m.group(2)]
        got = _read_db(dbfile)
        _compare(ctx, E, case, exp, status, warnings, unknown_seen, got)
    finally:
        shutil.rmtree(d, ignore_errors=True)


def _exc_disc(x: dict) -> str:
    if x.get('open'):
        return 'open_ended_effective_date'
    return ''


def _compare(ctx, E, case, exp, status, warnings, unknown_seen, got):
    rows, mode, year = case['rows'], case['mode'], case['year']
    ap_by_id = {a['id']: a for a in got['airports']}
    flights_by_key: dict = {}
    for fr in got['flights']:
        flights_by_key.setdefault((fr['carrier'], str(fr['flight_number'])), []).append(fr)
    sched_by_flight: dict = {}
    for s in got['schedules']:
        sched_by_flight.setdefault(s['flight_id'], []).append(s)
    seen_keys = set()
    exp_unknown = set()
    for i, (r, x) in enumerate(zip(rows, exp)):
        line = i + 2
        fl = r['fltno'].strip()
        key = (r['carrier'], str(int(fl)) if fl else '0')
        seen_keys.add(key)
        cl = (case.get('cls') or [{}] * len(rows))[i]
        _labels(ctx, x, cl, mode)
        if status[i] == 'aborted':
            continue  # known finding: this row's import raised half-way; nothing to compare for it
        frs = flights_by_key.get(key, [])
        if len(frs) > 1:
            ctx.fail('flight.count', 'mismatch', 'oag.add', 'duplicate_flight',
                     f'line {line}: {len(frs)} flight records for one schedule row {r}')
            continue
        kept = len(frs) == 1
        wtype = warnings.get(line) if warnings is not None else None
        if mode == 'add' and status[i] in (True, False) and status[i] != kept:
            ctx.fail('flight.count', 'mismatch', 'oag.add', 'return_value',
                     f'line {line}: add() returned {status[i]} but flight record present = {kept}')
            continue
        # ---- documented silent filter
        if x['filter'] == 'skip':
            ctx.label('skip:filter')
            if kept or (mode == 'add' and status[i] != 'none'):
                ctx.fail('filter', 'mismatch', 'oag.is_row_valid', _filter_reason(r),
                         f'line {line}: row must be ignored ({_filter_reason(r)}) but was imported: {r}')
            elif wtype is not None:
                ctx.fail('filter', 'mismatch', 'oag.is_row_valid', 'warning_for_filtered_row',
                         f'line {line}: ignored row produced warning {wtype}')
            continue
        if x['filter'] == 'either' and not kept and wtype is None and (mode != 'add' or status[i] == 'none'):
            ctx.label('skip:undocumented_service_code')
            continue
        if mode == 'add' and status[i] == 'none':
            ctx.fail('filter', 'mismatch', 'oag.from_csv_row', 'valid_row_rejected',
                     f'line {line}: from_csv_row returned None for a row that passes the documented filter: {r}')
            continue
        # ---- unknown airport
        if x['unknown']:
            ctx.label('skip:unknown_airport')
            exp_unknown.update(x['unknown'])
            if kept:
                ctx.fail('skip.unknown_airport', 'mismatch', 'oag.add', 'kept',
                         f'line {line}: row with unknown airport {x["unknown"]} was imported')
            elif warnings is not None and wtype != 'UNKNOWN_AIRPORT':
                ctx.fail('skip.unknown_airport', 'mismatch', 'writable_database._get_or_add_airport', 'warning',
                         f'line {line}: expected UNKNOWN_AIRPORT warning, got {wtype}')
            continue
        # ---- distance rule
        if kept:
            actual = 'keep'
        elif wtype in ('ZERO_DISTANCE', 'SUSPICIOUS_DISTANCE'):
            actual = wtype
        elif warnings is None:
            # file mode, report() crashed (reported above): the reason of a drop is not observable
            actual = next((v for v in (x['dist'], x['dist_variant']) if v != 'keep'), 'dropped')
        else:
            actual = f'dropped_with_{wtype}'
        if actual != x['dist'] and not x['dist_guard']:
            given = int(r['distance']) * MILE_KM
            detail = (f'line {line}: {r["depapt"]}->{r["arrapt"]} stated {given:.1f} km, great-circle {x["gc"]:.1f} km: '
                      f'documented rule says {x["dist"]}, importer did {actual}; row {r}')
            if actual == x['dist_variant']:
                ctx.fail('distance.rule', 'mismatch', 'writable_database._distance_check', 'latlon_swapped',
                         detail + ' [decision equals the rule evaluated on GEOD.inv(lat, lon, lat, lon)]')
            else:
                ctx.fail('distance.rule', 'mismatch', 'writable_database._distance_check',
                         f'documented_{x["dist"]}_observed_{actual}'.lower(), detail)
        if not kept:
            ctx.label('skip:' + str(actual).lower())
            continue
        ctx.label('kept')
        if wtype not in (None, 'TIME_MISORDERING'):
            ctx.fail('warning.type', 'mismatch', 'oag.add', 'warning_for_kept_row',
                     f'line {line}: row was imported but carries warning {wtype}')
        _check_flight(ctx, E, line, r, x, frs[0], ap_by_id)
        _check_instances(ctx, E, line, r, x, frs[0], sched_by_flight.get(frs[0]['id'], []), wtype,
                         warnings is not None)
        nt = (len(x['dates']) >= 2 and x['zones'][0] != x['zones'][1]) or x['open'] or x['off'] in (-1, 2) \
            or cl.get('dist') in ('over10_under50', 'over50_under10', 'edge_in', 'edge_out')
        if nt:
            ctx.mark_nontrivial({'year': year, 'row': r})
            ctx.sample({'year': year, 'mode': mode, 'row': r, 'instances': len(sched_by_flight.get(frs[0]['id'], []))})
    # ---- nothing else in the database
    aborted_keys = set()
    for i, r in enumerate(rows):
        if status[i] == 'aborted':
            fl = r['fltno'].strip()
            aborted_keys.add((r['carrier'], str(int(fl)) if fl else '0'))
    for key, frs in flights_by_key.items():
        if key not in seen_keys:
            ctx.fail('flight.count', 'mismatch', 'oag.add', 'flight_without_row',
                     f'flight record {frs[0]} corresponds to no input row')
    flight_ids = {fr['id'] for fr in got['flights']}
    for s in got['schedules']:
        if s['flight_id'] not in flight_ids:
            ctx.fail('instances.dates', 'mismatch', 'writable_database._add_schedule', 'orphan_instance',
                     f'schedule row {s} refers to no flight')
    if unknown_seen is not None and not aborted_keys and unknown_seen != exp_unknown:
        ctx.fail('skip.unknown_airport', 'mismatch', 'writable_database._get_or_add_airport', 'unknown_set',
                 f'unknown_airports = {sorted(unknown_seen)}, expected {sorted(exp_unknown)}')


def _filter_reason(r):
    if r['service'] in ('V', 'U'):
        return 'service'
    if int(r['stops']) != 0:
        return 'stops'
    if r['operating'] == 'N':
        return 'non_operating'
    return 'equipment'


def _labels(ctx, x, cl, mode):
    ctx.label('mode:' + mode)
    for k in ('pair', 'range', 'time', 'dist', 'days'):
        if k in cl:
            ctx.label(f'{k}:{cl[k]}')
    ctx.extra['rows'] = ctx.extra.get('rows', 0) + 1


def _check_flight(ctx, E, line, r, x, fr, ap_by_id):
    want = x['flight']
    for side in ('origin', 'destination'):
        a = ap_by_id.get(fr[side])
        code = want[side]
        if a is None or a['iata_code'] != code:
            ctx.fail('flight.' + side, 'mismatch', 'writable_database._add_flight', side,
                     f'line {line}: {side} id {fr[side]} is {a and a["iata_code"]}, expected {code}')
            continue
        ref = E.airports[code]
        if abs(a['latitude'] - ref['lat']) > 1e-9 or abs(a['longitude'] - ref['lon']) > 1e-9 \
                or a['country'] != ref['country']:
            ctx.fail('airport.record', 'mismatch', 'writable_database._get_or_add_airport', 'fields',
                     f'line {line}: airport record {a} differs from the airports file {ref}')
    for k in ('carrier', 'day_of_week_mask', 'departure_time', 'arrival_time', 'arrival_day_offset',
              'service_type', 'aircraft_type', 'seat_capacity', 'effective_from', 'effective_to', 'od_pair'):
        if fr[k] != want[k]:
            disc = k
            if k in ('effective_from', 'effective_to') and x['open']:
                disc = k + '_open_ended'
            ctx.fail('flight.' + k, 'mismatch', 'writable_database._add_flight', disc,
                     f'line {line}: flights.{k} = {fr[k]!r}, expected {want[k]!r}; row {r}')
    if str(fr['flight_number']) != want['flight_number']:
        ctx.fail('flight.flight_number', 'mismatch', 'writable_database._add_flight', 'flight_number',
                 f'line {line}: flights.flight_number = {fr["flight_number"]!r}, expected {want["flight_number"]!r}')
    if abs(fr['distance'] - want['distance']) > 1e-9 * max(1.0, want['distance']):
        ctx.fail('flight.distance', 'mismatch', 'oag.add', 'distance',
                 f'line {line}: flights.distance = {fr["distance"]!r} km, expected {want["distance"]!r} km')


def _check_instances(ctx, E, line, r, x, fr, sched, wtype, have_warnings):
    za, zb = x['zones']
    rf, rt = x['range']
    where = 'writable_database._add_schedule'
    ctx.label('inst:' + ('0' if not x['dates'] else '1' if len(x['dates']) == 1 else
                         '2-9' if len(x['dates']) < 10 else '10-99' if len(x['dates']) < 100 else '100+'))
    if za != zb:
        ctx.label('zones_differ')
    if any(len(e['D']) > 1 or len(e['A']) > 1 for e in x['dates']):
        ctx.label('dst_gap_or_fold_hit')
    trs = {local_date(t[0] - 1, za) for t in transitions(za, rf.year)} | \
          {local_date(t[0] - 1, zb) for t in transitions(zb, rf.year)}
    if any(rf <= t <= rt for t in trs) and len(x['dates']) >= 2:
        ctx.label('range_spans_dst_change')
    musts = [e['must'] for e in x['dates']]
    if 'absent' in musts and 'present' in musts:
        ctx.label('misordered:some')
    elif 'absent' in musts:
        ctx.label('misordered:all')
    by_dep = {}
    for e in x['dates']:
        for p in e['D']:
            by_dep[p] = e
    exp_dates = {e['date']: e for e in x['dates']}
    matched = set()
    ctx_row = f'line {line}: {r["depapt"]}({za})->{r["arrapt"]}({zb}) row {r}'
    for s in sorted(sched, key=lambda s: (s['departure_timestamp'], s['id'])):
        dep, arrv, day = s['departure_timestamp'], s['arrival_timestamp'], s['day']
        e = by_dep.get(dep)
        if e is None:
            ld = local_date(dep, za)
            if ld in exp_dates:
                ctx.fail('instances.departure_utc', 'mismatch', where,
                         'zones_differ' if za != zb else 'same_zone',
                         f'{ctx_row}: instance for local date {ld} departs at {dep}, expected one of '
                         f'{sorted(exp_dates[ld]["D"])}')
                matched.add(ld)
            else:
                if ld < rf or ld > rt:
                    disc = 'outside_effective_range'
                else:
                    disc = 'non_operating_weekday'
                ctx.fail('instances.dates', 'mismatch', where, disc,
                         f'{ctx_row}: unexpected instance departing {dep} (local date {ld}, weekday '
                         f'{ld.isoweekday()}); range {rf}..{rt}')
            continue
        if e['date'] in matched:
            ctx.fail('instances.dates', 'mismatch', where, 'duplicate_date',
                     f'{ctx_row}: two instances for {e["date"]}')
            continue
        matched.add(e['date'])
        if arrv not in e['A']:
            ctx.fail('instances.arrival_utc', 'mismatch', where, 'zones_differ' if za != zb else 'same_zone',
                     f'{ctx_row}: instance of {e["date"]}: arrival {arrv}, expected one of {sorted(e["A"])} '
                     f'(departure {dep})')
        elif arrv < dep:
            ctx.fail('instances.misordered', 'mismatch', where, 'misordered_kept',
                     f'{ctx_row}: instance of {e["date"]} stored with arrival {arrv} < departure {dep}')
        if day != dep // 86400:
            ctx.fail('instances.day', 'mismatch', where, 'day',
                     f'{ctx_row}: instance of {e["date"]}: day = {day}, expected {dep // 86400}')
    for e in x['dates']:
        if e['date'] in matched:
            continue
        if e['must'] == 'present':
            if e['date'] == rt and e['date'] != rf:
                disc = 'last_day_of_range'
            elif e['date'] == rf and e['date'] != rt:
                disc = 'first_day_of_range'
            else:
                disc = 'operating_day_missing'
            ctx.fail('instances.dates', 'mismatch', where, disc,
                     f'{ctx_row}: no instance for {e["date"]} (weekday {e["date"].isoweekday()}); '
                     f'range {rf}..{rt}; stored {len(sched)} instances')
    n_dropped_sure = sum(1 for e in x['dates'] if e['must'] == 'absent')
    n_maybe = sum(1 for e in x['dates'] if e['must'] == 'either' and e['date'] not in matched)
    if fr['number_of_flights'] != len(sched):
        ctx.fail('flight.number_of_flights', 'mismatch', 'oag.add', 'count',
                 f'{ctx_row}: number_of_flights = {fr["number_of_flights"]}, stored instances = {len(sched)}, '
                 f'candidate dates = {len(x["dates"])}')
    if have_warnings:
        if n_dropped_sure and wtype != 'TIME_MISORDERING':
            ctx.fail('warning.time_misordering', 'mismatch', where, 'missing',
                     f'{ctx_row}: {n_dropped_sure} instances dropped (arrival before departure) without warning')
        if not n_dropped_sure and not n_maybe and wtype == 'TIME_MISORDERING':
            ctx.fail('warning.time_misordering', 'mismatch', where, 'spurious',
                     f'{ctx_row}: TIME_MISORDERING warning although no instance has arrival before departure')


# --------------------------------------------------------------------------
# entry points


def run(ctx: core.Ctx):
    logging.disable(logging.CRITICAL)
    E = env()
    ctx.level = 'exploration'
    ctx.rule = (
        'Hypothesis-generated schedule files: data year in {2019,2020,2023,2024}, 1-4 literal OAG CSV rows, imported '
        'row by row (CSVEntry.from_csv_row + OAGDatabase.add, 82 %) or as a CSV file (convert_oag_data, 18 %). '
        f'Airports: {len(E.codes)} real airports with hand-recorded IANA zones (checked against timezonefinder at '
        'start-up) + unknown codes; ranges single/short/around a DST change of either airport/long/year edge/'
        'crossing the year/open-ended at either or both ends; weekday subsets in OAG spacing; times realistic, '
        'random, tight (arrival = departure +-1 min) or on the DST gap/fold wall time; arrival-day tokens '
        "P,'',' ',1,2; distances exact/within/10%-50km band both ways/just inside and outside the threshold/"
        'implausible/0. evaluations = files (cases); coverage.rows = rows. A row is non-trivial when it was '
        'imported and has >= 2 instances with origin and destination in different zones, or an open-ended range, '
        'or arrival-day offset -1/2, or a distance in the decision band; distinct = hash of (year, row).'
    )
    ctx.assumptions = [
        'time zones of airports: hand-recorded IANA names, required to agree with timezonefinder (else exit 2)',
        'local times in a DST gap or fold: either UTC reading accepted',
        'service codes other than J,S,Q,V,U: either outcome accepted (documentation and code disagree)',
        'stated distance 0 means "not stated": row kept (code comment and DESIGN.md; docs are silent)',
        'stated distances within 0.4 % of the decision threshold are not judged (integer statute miles)',
        'orphan airport records left by skipped rows are not judged',
    ]
    strat = case_strategy(E)
    core.run_given(ctx, strat, lambda c: body(ctx, c), max_examples=ctx.n(500, 4000))


def replay(ctx: core.Ctx, case):
    logging.disable(logging.CRITICAL)
    body(ctx, case)
