"""C16 — ground speed is |airspeed vector + wind vector|.

The harness writes ERA5-style weather files (xarray -> NetCDF: ``u``, ``v``,
``t`` on ``pressure_level`` [hPa] x ``latitude`` x ``longitude``, optionally a
24-hour ``valid_time`` axis) into a fresh directory, loads an AEIC
configuration whose ``weather.weather_data_dir`` is that directory, builds
``Weather(config.weather.weather_data_dir)`` exactly like the legacy builder
does, and queries ``get_ground_speed``.

Oracle: the wind fields are *affine* in (pressure, latitude, longitude) for
each hour (tri-linear interpolation reproduces affine fields exactly), so the
wind at the query point is known in closed form from the harness' own ISA
pressure; expected ``gs = hypot(TAS*sin(h)+u, TAS*cos(h)+v)`` with h in
degrees clockwise from north.  The stated relations are separate clauses
(no wind, tail/head wind, rotation of heading+wind, triangle bounds, refusal
outside the domain, hour slice).  Non-affine fields are used for the bounds
and refusal clauses only.

Root-cause attribution: when an observed value disagrees with the oracle the
harness evaluates the named alternative hypotheses (east/north components of
the airspeed exchanged, wrong hour, decoy azimuth, ...).  A value explained by
"east/north components exchanged" is ONE signature whatever clause exposed
it; if that signature is a listed known finding the case continues under that
hypothesis, so every other deviation is still reported.
"""

from __future__ import annotations

import math
import shutil

from hypothesis import strategies as st

from .. import core

SHARDED = True


class _Seen(Exception):
    """The signature was already reported in this run: stop this case quietly
    (a plain return keeps Hypothesis satisfied; ctx.fail would reject())."""


def _fail(ctx, clause, kind, where, disc, detail):
    if f'{ctx.pid}:{clause}:{kind}:{where}:{disc}' in ctx.session_seen:
        raise _Seen()
    return ctx.fail(clause, kind, where, disc, detail)


def _fail_exc(ctx, clause, exc, disc=''):
    if isinstance(exc, core.PASS_THROUGH):
        raise exc
    if f'{ctx.pid}:{clause}:{type(exc).__name__}:{core.aeic_frame(exc)}:{disc}' in ctx.session_seen:
        raise _Seen()
    return ctx.fail_exc(clause, exc, disc)


REL_TOL = 1e-9
WHERE = 'weather.get_ground_speed'
SWAP = 'east_north_components_exchanged'

STD_LEVELS = [1000.0, 975.0, 950.0, 925.0, 900.0, 875.0, 850.0, 825.0, 800.0, 775.0, 750.0, 700.0, 650.0,
              600.0, 550.0, 500.0, 450.0, 400.0, 350.0, 300.0, 250.0, 225.0, 200.0, 175.0, 150.0]

# ---- harness ISA (ICAO standard atmosphere, BADA constants), written from the equations
T0, P0, G0, R_AIR, BETA, H_TROP = 288.15, 101325.0, 9.80665, 287.05287, -0.0065, 11000.0
T_TROP = T0 + BETA * H_TROP
P_TROP = P0 * (T_TROP / T0) ** (-G0 / (BETA * R_AIR))


def isa_pressure(h):
    """Pa at geopotential altitude h [m]."""
    if h <= H_TROP:
        return P0 * ((T0 + BETA * h) / T0) ** (-G0 / (BETA * R_AIR))
    return P_TROP * math.exp(-G0 / (R_AIR * T_TROP) * (h - H_TROP))


def isa_altitude(p):
    """m at pressure p [Pa]."""
    if p >= P_TROP:
        return T0 / BETA * ((p / P0) ** (-BETA * R_AIR / G0) - 1.0)
    return H_TROP - R_AIR * T_TROP / G0 * math.log(p / P_TROP)


def gs_formula(tas, h_deg, u, v):
    h = math.radians(h_deg)
    return math.hypot(tas * math.sin(h) + u, tas * math.cos(h) + v)


def gs_exchanged(tas, h_deg, u, v):
    """Prediction if the east and north components of the airspeed are exchanged
    (equivalently: u and v exchanged)."""
    h = math.radians(h_deg)
    return math.hypot(tas * math.cos(h) + u, tas * math.sin(h) + v)


def self_test():
    # ICAO Doc 7488 table values [Pa]
    for h, p in [(0, 101325.0), (1000, 89874.6), (5000, 54019.9), (10000, 26436.3), (11000, 22632.1),
                 (15000, 12044.6), (20000, 5474.89)]:
        if abs(isa_pressure(h) - p) > 2e-5 * p:
            raise core.HarnessError(f'ISA self-test at {h} m: {isa_pressure(h)} vs {p}')
        if abs(isa_altitude(isa_pressure(h)) - h) > 1e-6:
            raise core.HarnessError(f'ISA inverse self-test at {h} m')
    # hand-derived vector sums
    for tas, h, u, v, want in [(200, 0, 0, 20, 220.0), (200, 90, 20, 0, 220.0), (200, 180, 0, 20, 180.0),
                               (200, 270, 20, 0, 180.0), (200, 90, 0, 20, math.sqrt(200**2 + 20**2)),
                               (100, 0, 30, 0, math.sqrt(100**2 + 30**2)), (50, 45, 0, 0, 50.0)]:
        if abs(gs_formula(tas, h, u, v) - want) > 1e-9:
            raise core.HarnessError(f'vector-sum self-test {tas, h, u, v}: {gs_formula(tas, h, u, v)} vs {want}')
    if abs(gs_exchanged(200, 0, 0, 20) - math.sqrt(200**2 + 20**2)) > 1e-9:
        raise core.HarnessError('hypothesis self-test')


# --------------------------------------------------------------------------
# wind fields (closed form; the same function fills the grid and serves as oracle)


def field_wind(field, p, lat, lon, hour, day, grid):
    """(u, v) of the synthetic field at pressure p [hPa], lat, lon, for file
    hour index `hour` (0 when the file has no time axis) and day index."""
    typ = field['type']
    if typ == 'zero':
        return 0.0, 0.0
    if typ == 'uniform':
        th = math.radians(field['dir'] + 15.0 * hour + 97.0 * day)
        u, v = field['W'] * math.sin(th), field['W'] * math.cos(th)
        if field.get('quant'):
            # packed files: the components are whole multiples of the packing step, so packing is lossless
            s = field['quant']
            u, v = round(u / s) * s, round(v / s) * s
        return u, v
    if typ == 'affine':
        pn = (p - grid['pref']) / grid['pspan']
        an = (lat - grid['latref']) / grid['latspan']
        on = (lon - grid['lonref']) / grid['lonspan']
        hn = (hour - 11.5) / 11.5 + 0.7 * day
        cu, cv = field['cu'], field['cv']
        return (cu[0] + cu[1] * pn + cu[2] * an + cu[3] * on + cu[4] * hn,
                cv[0] + cv[1] * pn + cv[2] * an + cv[3] * on + cv[4] * hn)
    raise core.HarnessError('closed form requested for a non-affine field')


def grid_axes(g):
    import numpy as np

    pl = np.array(g['levels'], dtype='f8')
    lat = g['lat0'] + g['dlat'] * np.arange(g['nlat'], dtype='f8')
    lon = g['lon0'] + g['dlon'] * np.arange(g['nlon'], dtype='f8')
    if g['lat_desc']:
        lat = lat[::-1].copy()
    return pl, lat, lon


def grid_consts(pl, lat, lon):
    return {
        'pref': float((pl.max() + pl.min()) / 2), 'pspan': float((pl.max() - pl.min()) / 2),
        'latref': float((lat.max() + lat.min()) / 2), 'latspan': float((lat.max() - lat.min()) / 2),
        'lonref': float((lon.max() + lon.min()) / 2), 'lonspan': float((lon.max() - lon.min()) / 2),
    }


def fill_arrays(field, pl, lat, lon, hours, day, gc):
    """u, v arrays of shape (len(hours), npl, nlat, nlon)."""
    import numpy as np

    P, LA, LO = np.meshgrid(pl, lat, lon, indexing='ij')
    U = np.empty((len(hours),) + P.shape)
    V = np.empty_like(U)
    for i, h in enumerate(hours):
        if field['type'] == 'arbitrary':
            I, J, K = np.meshgrid(np.arange(len(pl)), np.arange(len(lat)), np.arange(len(lon)), indexing='ij')
            ph = 12.9898 * I + 78.233 * J + 37.719 * K + 4.1 * h + 2.3 * day + field['phase']
            U[i] = field['amp'] * np.sin(ph)
            V[i] = field['amp'] * np.cos(1.7 * ph + 0.3)
        elif field['type'] == 'zero':
            U[i] = 0.0
            V[i] = 0.0
        elif field['type'] == 'uniform':
            u, v = field_wind(field, 0, 0, 0, h, day, gc)
            U[i] = u
            V[i] = v
        else:
            pn = (P - gc['pref']) / gc['pspan']
            an = (LA - gc['latref']) / gc['latspan']
            on = (LO - gc['lonref']) / gc['lonspan']
            hn = (h - 11.5) / 11.5 + 0.7 * day
            cu, cv = field['cu'], field['cv']
            U[i] = cu[0] + cu[1] * pn + cu[2] * an + cu[3] * on + cu[4] * hn
            V[i] = cv[0] + cv[1] * pn + cv[2] * an + cv[3] * on + cv[4] * hn
    return U, V


def write_day(path, case, day, date):
    import numpy as np
    import pandas as pd
    import xarray as xr

    pl, lat, lon = grid_axes(case['grid'])
    gc = grid_consts(pl, lat, lon)
    taxis = case['time_axis']
    hours = list(range(24)) if taxis == 'hours24' else [0]
    U, V = fill_arrays(case['field'], pl, lat, lon, hours, day, gc)
    T = np.full(U.shape, 250.0, dtype='f4')
    coords = {'pressure_level': pl, 'latitude': lat, 'longitude': lon, 'number': 0}
    if taxis == 'hours24':
        dims = ('valid_time', 'pressure_level', 'latitude', 'longitude')
        coords['valid_time'] = pd.date_range(date, periods=24, freq='h')
    else:
        dims = ('pressure_level', 'latitude', 'longitude')
        U, V, T = U[0], V[0], T[0]
        if taxis == 'scalar':
            coords['valid_time'] = pd.Timestamp(date) + pd.Timedelta(hours=12)
    ds = xr.Dataset({'u': (dims, U), 'v': (dims, V), 't': (dims, T)}, coords=coords,
                    attrs={'Conventions': 'CF-1.7', 'institution': 'AEIC verification harness'})
    enc = None
    if case['field'].get('quant'):
        # CF packing as used by distributed reanalysis files: int16 counts with scale_factor/add_offset/_FillValue
        s = case['field']['quant']
        enc = {k: {'dtype': 'int16', 'scale_factor': s, 'add_offset': off, '_FillValue': -32767}
               for k, off in (('u', 3.0), ('v', -2.0))}
    ds.to_netcdf(path, encoding=enc)
    ds.close()
    return U, V, pl, lat, lon, gc


# --------------------------------------------------------------------------
# generators (plain JSON descriptions)

DATES = ['2024-09-01', '2024-02-28', '2024-02-29', '2023-12-31', '2019-06-30', '2031-01-09',
         '2024-12-30', '2021-01-02']  # the last two: ISO week-year differs from the calendar year

HEADINGS = st.one_of(
    st.sampled_from([0.0, 90.0, 180.0, 270.0, 45.0, 135.0, 225.0, 315.0]),
    st.floats(0.0, 360.0, exclude_max=True),
)
COEF = st.floats(-10.0, 10.0)
HOURCOEF = st.one_of(st.floats(3.0, 10.0), st.floats(-10.0, -3.0))


@st.composite
def grid_desc(draw):
    n = draw(st.integers(3, 12))
    start = draw(st.integers(0, len(STD_LEVELS) - n))
    stride_ok = (len(STD_LEVELS) - start) // n
    stride = draw(st.integers(1, max(1, min(3, stride_ok))))
    levels = STD_LEVELS[start:start + n * stride:stride][:n]
    if draw(st.integers(0, 4)) == 0:
        levels = levels[::-1]  # ascending pressure (old CDS layout)
    nlat, nlon = draw(st.integers(3, 12)), draw(st.integers(3, 12))
    dlat = draw(st.sampled_from([0.25, 0.5, 1.0, 2.5]))
    dlon = draw(st.sampled_from([0.25, 0.5, 1.0, 2.5]))
    lat0 = draw(st.integers(-340, 340 - int(4 * dlat * (nlat - 1)))) / 4.0
    if draw(st.integers(0, 3)) == 0:
        # files in the 0..360 longitude convention (native ERA5 layout): queries use the file's own coordinate values
        lon0 = draw(st.integers(0, 1436 - int(4 * dlon * (nlon - 1)))) / 4.0
    else:
        lon0 = draw(st.integers(-720, 716 - int(4 * dlon * (nlon - 1)))) / 4.0
    return {'levels': levels, 'lat0': lat0, 'dlat': dlat, 'nlat': nlat, 'lat_desc': draw(st.integers(0, 3)) > 0,
            'lon0': lon0, 'dlon': dlon, 'nlon': nlon}


@st.composite
def field_desc(draw, typ):
    if typ == 'zero':
        return {'type': 'zero'}
    if typ == 'uniform':
        f = {'type': 'uniform', 'W': draw(st.one_of(st.floats(0.5, 120.0), st.sampled_from([20.0, 120.0]))),
             'dir': draw(HEADINGS)}
        if draw(st.integers(0, 2)) == 0:
            f['quant'] = 2.0 ** -6
        return f
    if typ == 'arbitrary':
        return {'type': 'arbitrary', 'amp': draw(st.floats(5.0, 80.0)), 'phase': draw(st.floats(0.0, 6.0))}
    cu = [draw(st.floats(-40.0, 40.0)), draw(COEF), draw(COEF), draw(COEF), draw(HOURCOEF)]
    cv = [draw(st.floats(-40.0, 40.0)), draw(COEF), draw(COEF), draw(COEF), draw(HOURCOEF)]
    return {'type': 'affine', 'cu': cu, 'cv': cv}


POS1 = st.one_of(
    st.tuples(st.just('frac'), st.floats(0.0, 1.0)),
    st.tuples(st.just('node'), st.integers(0, 11)),
    st.tuples(st.just('edge'), st.sampled_from([0, -1])),
)


@st.composite
def query_desc(draw, ftype):
    kind = draw(st.sampled_from(['in'] * 5 + ['out']))
    q = {
        'kind': kind,
        'lat': list(draw(POS1)), 'lon': list(draw(POS1)),
        'pf': draw(st.one_of(st.floats(0.002, 0.998), st.sampled_from([0.002, 0.5, 0.998]))),
        'tas': draw(st.one_of(st.floats(50.0, 300.0), st.floats(1.0, 350.0), st.sampled_from([200.0]))),
        'via': draw(st.sampled_from(['azimuth', 'azimuth', 'point'])),
    }
    if draw(st.integers(0, 3)) == 0:
        q['int_alt'] = True
    if draw(st.integers(0, 2)) == 0:
        q['az_conv'] = 'negative'
    if ftype in ('uniform', 'affine') and draw(st.integers(0, 2)) == 0:
        # heading relative to the local wind direction: 0 = pure tailwind, 180 = pure headwind
        q['hrel'] = draw(st.sampled_from([0.0, 0.0, 180.0, 180.0, 90.0, 270.0]))
    else:
        q['h'] = draw(HEADINGS)
    if kind == 'out':
        q['side'] = draw(st.sampled_from(['north', 'south', 'east', 'west', 'above', 'below']))
        q['margin'] = draw(st.one_of(st.sampled_from([1e-6, 0.01, 1.0]), st.floats(1e-6, 20.0)))
    return q


@st.composite
def weather_case(draw, ftype):
    field = draw(field_desc(ftype))
    taxis = draw(st.sampled_from(['hours24', 'hours24', 'none', 'scalar']))
    two_days = draw(st.integers(0, 3)) == 0
    ngroups = draw(st.integers(2, 3))
    groups = []
    for _ in range(ngroups):
        groups.append({
            'day': draw(st.integers(0, 1)) if two_days else 0,
            'hour': draw(st.one_of(st.integers(0, 23), st.sampled_from([0, 23]))),
            'minute': draw(st.sampled_from([0, 0, 17, 59])),
            'q': draw(st.lists(query_desc(field['type']), min_size=2, max_size=4)),
        })
    case = {'date': draw(st.sampled_from(DATES)), 'grid': draw(grid_desc()), 'time_axis': taxis, 'field': field,
            'two_days': two_days, 'groups': groups}
    if field['type'] == 'uniform':
        # rotation relation: same TAS and same heading relative to the wind in two different hours/days
        case['rot'] = {'tas': draw(st.floats(50.0, 300.0)), 'rel': draw(HEADINGS),
                       'hours': [draw(st.integers(0, 23)), draw(st.integers(0, 23))],
                       'days': [0, 1 if two_days else 0], 'pf': draw(st.floats(0.01, 0.99)),
                       'latf': draw(st.floats(0.0, 1.0)), 'lonf': draw(st.floats(0.0, 1.0))}
    return case


# --------------------------------------------------------------------------
# checking


def coord_value(axis, spec, lo_to_hi=True):
    """Coordinate value from a position spec on a stored axis (numpy array)."""
    mode, x = spec
    amin, amax = float(axis.min()), float(axis.max())
    if mode == 'frac':
        return min(max(amin + x * (amax - amin), amin), amax), 'interior' if 0.0 < x < 1.0 else 'edge'
    if mode == 'node':
        return float(axis[x % len(axis)]), 'node'
    return (amin if x == 0 else amax), 'edge'


def cell_corner_max(Uh, Vh, pl, lat, lon, p, la, lo):
    """max |W| over the corners of the grid cell containing (p, la, lo)."""
    import numpy as np

    def bracket(axis, x):
        order = np.argsort(axis)
        srt = axis[order]
        j = int(np.searchsorted(srt, x, side='right')) - 1
        j = min(max(j, 0), len(srt) - 2)
        return [int(order[j]), int(order[j + 1])]

    best = 0.0
    for i in bracket(pl, p):
        for j in bracket(lat, la):
            for k in bracket(lon, lo):
                best = max(best, math.hypot(float(Uh[i, j, k]), float(Vh[i, j, k])))
    return best


class WeatherCheck:
    def __init__(self, ctx, case):
        self.ctx = ctx
        self.case = case
        self.swap_seen = False

    def ts(self, day, hour, minute):
        import pandas as pd

        return pd.Timestamp(self.dates[day]).tz_localize('UTC') + pd.Timedelta(hours=hour, minutes=minute)

    def call(self, t, lat, lon, az_point, alt, tas, az_param):
        """-> ('ok', float) | ('refused', ValueError) | ('error', exc); no ctx.fail in here."""
        from AEIC.trajectories.ground_track import GroundTrack
        from AEIC.types import Location

        try:
            pt = GroundTrack.Point(Location(longitude=lon, latitude=lat), az_point)
            before = (pt.location.longitude, pt.location.latitude, pt.azimuth)
            self.point_mutated = None
            try:
                if az_param is None:
                    return 'ok', float(self.w.get_ground_speed(time=t, gt_point=pt, altitude=alt, true_airspeed=tas))
                return 'ok', float(self.w.get_ground_speed(time=t, gt_point=pt, altitude=alt, true_airspeed=tas,
                                                            azimuth=az_param))
            finally:
                after = (pt.location.longitude, pt.location.latitude, pt.azimuth)
                if after != before:
                    self.point_mutated = (before, after)  # the point is the caller's (it is reused along a track)
        except ValueError as e:
            return 'refused', e
        except Exception as e:  # noqa: BLE001
            return 'error', e

    def hour_index(self, hour):
        return hour if self.case['time_axis'] == 'hours24' else 0

    # -- verdict on one in-domain value whose wind is known in closed form
    def judge(self, got, tas, h, u, v, clause, ctx_txt, alt_hyp):
        """Return 'ok' | 'swap' (explained by the known hypothesis) | 'bad'."""
        want = gs_formula(tas, h, u, v)
        W = math.hypot(u, v)
        tol = REL_TOL * (tas + W + 1.0)
        if got == got and abs(got - want) <= tol:
            return 'ok'
        exch = gs_exchanged(tas, h, u, v)
        detail = (f'{ctx_txt}: got {got!r}; |TAS(sin h, cos h) + (u, v)| = {want!r} with TAS={tas!r}, h={h!r} deg, '
                  f'wind (u, v) = ({u!r}, {v!r}) [exposed by clause {clause}]')
        if got == got and abs(got - exch) <= tol:
            self.swap_seen = True
            _fail(self.ctx, 'gs.vector_sum', 'mismatch', WHERE, SWAP,
                          detail + f'; equals {exch!r} = |TAS(cos h, sin h) + (u, v)|, i.e. the east and north '
                          'components of the airspeed (or of the wind) are exchanged')
            return 'swap'
        # attribute to the first named hypothesis that predicts the value (each also in
        # combination with the component exchange, which is reported by its own signature)
        cands = [
            ('wind_subtracted', gs_formula(tas, h, -u, -v), gs_exchanged(tas, h, -u, -v)),
            ('heading_degrees_used_as_radians', math.hypot(tas * math.sin(h) + u, tas * math.cos(h) + v),
             math.hypot(tas * math.cos(h) + u, tas * math.sin(h) + v)),
            ('wind_ignored', tas, tas),
        ]
        for name, (hu, hv, hh) in alt_hyp.items():
            cands.append((name, gs_formula(tas, hh, hu, hv), gs_exchanged(tas, hh, hu, hv)))
        disc = 'other'
        if got == got:
            for name, a, b in cands:
                if abs(got - a) <= tol or abs(got - b) <= tol:
                    disc = name
                    break
        if disc != 'other':
            clause = 'vector_sum'  # one signature per named root cause, whatever clause exposed it
        _fail(self.ctx, 'gs.' + clause, 'mismatch', WHERE, disc, detail)
        return 'bad'

    def run(self):
        import pandas as pd
        from AEIC.config import config
        from AEIC.weather import Weather

        ctx, case = self.ctx, self.case
        d = ctx.fresh_dir()
        self.w = None
        try:
            d0 = pd.Timestamp(case['date'])
            self.dates = [d0, d0 + pd.Timedelta(days=1)]
            self.days = {}
            for day in ([0, 1] if case['two_days'] else [0]):
                self.days[day] = write_day(d / self.dates[day].strftime('%Y%m%d.nc'), case, day, self.dates[day])
            core.load_config(weather={'use_weather': True, 'weather_data_dir': str(d)})
            try:
                self.w = Weather(data_dir=config.weather.weather_data_dir)
            except Exception as e:  # noqa: BLE001
                raise core.HarnessError(f'Weather() refused the harness directory: {e!r}') from e
            for g in case['groups']:
                for q in g['q']:
                    self.query(g, q)
            if 'rot' in case:
                self.rotation(case['rot'])
            self.missing_day()
        finally:
            if self.w is not None and getattr(self.w, '_main_ds', None) is not None:
                try:
                    self.w._main_ds.close()
                except Exception:  # noqa: BLE001
                    pass
            core.reset_config()
            shutil.rmtree(d, ignore_errors=True)

    def resolve(self, q, day, hour):
        """Position/altitude/heading of a query; returns dict."""
        U, V, pl, lat, lon, gc = self.days[day]
        la, lac = coord_value(lat, q['lat'])
        lo, loc = coord_value(lon, q['lon'])
        pmin, pmax = float(pl.min()), float(pl.max())
        p_target = pmin + q['pf'] * (pmax - pmin)
        alt = isa_altitude(p_target * 100.0)
        if q.get('int_alt') and 0.01 <= q['pf'] <= 0.99:
            # altitude handed over as a whole number of metres in an integer
            alt = int(round(alt))
            self.ctx.label('altitude.integer')
        p = isa_pressure(float(alt)) / 100.0
        return {'lat': la, 'lon': lo, 'alt': alt, 'p': p, 'latc': lac, 'lonc': loc, 'pmin': pmin, 'pmax': pmax}

    def query(self, g, q):
        ctx, case = self.ctx, self.case
        day, hour = g['day'], g['hour']
        t = self.ts(day, hour, g['minute'])
        hi = self.hour_index(hour)
        U, V, pl, lat, lon, gc = self.days[day]
        r = self.resolve(q, day, hour)
        ftype = case['field']['type']
        tas = q['tas']
        ctx.extra['queries'] = ctx.extra.get('queries', 0) + 1

        if q['kind'] == 'out':
            self.outside(t, q, r, lat, lon)
            return

        closed = ftype != 'arbitrary'
        if closed:
            u, v = field_wind(case['field'], r['p'], r['lat'], r['lon'], hi, day, gc)
            W = math.hypot(u, v)
        if 'hrel' in q and closed and W > 1e-6:
            h = (math.degrees(math.atan2(u, v)) + q['hrel']) % 360.0
            rel = q['hrel']
        else:
            h = q.get('h', q.get('hrel', 0.0))
            rel = None
        h = h % 360.0
        if h >= 360.0:
            h = 0.0
        if q['via'] == 'azimuth':
            az_param, az_point = h, (h + 77.0) % 360.0  # the explicit azimuth must win over the point's (not 90: that coincides with the exchanged-components finding)
            if q.get('az_conv') == 'negative' and h > 180.0:
                # the same direction in the (-180, 180] convention, which is what a geodesic library hands a caller
                az_param = h - 360.0
                ctx.label('azimuth.negative_convention')
        else:
            az_param, az_point = None, h
        st_, got = self.call(t, r['lat'], r['lon'], az_point, r['alt'], tas, az_param)
        where = f"{r['latc']}/{r['lonc']}"
        ctx.label('pos.' + where, 'via.' + q['via'], 'field.' + ftype)
        if getattr(self, 'point_mutated', None):
            b, a = self.point_mutated
            _fail(ctx, 'argument.mutated', 'mismatch', WHERE, 'gt_point',
                  f'get_ground_speed changed the ground-track point it was given: {b} -> {a} (explicit azimuth {az_param!r}); '
                  f'the next call with the same point and no explicit azimuth would use the wrong heading')
            return
        qtxt = (f"get_ground_speed(time={t}, point=({r['lon']!r}, {r['lat']!r}, az={az_point!r}), altitude={r['alt']!r}, "
                f"tas={tas!r}, azimuth={az_param!r}) on {ftype} field, time_axis={case['time_axis']}, day {day}")
        if st_ == 'refused':
            _fail(ctx, 'in_domain.refused', 'ValueError', WHERE,
                  'on_domain_edge' if 'edge' in (r['latc'], r['lonc']) else 'inside_domain',
                     f"{qtxt}: refused ({got}) although the point is inside the domain: p={r['p']!r} hPa in "
                     f"[{r['pmin']}, {r['pmax']}], lat in [{lat.min()}, {lat.max()}], lon in [{lon.min()}, {lon.max()}]")
            return
        if st_ == 'error':
            _fail_exc(ctx, 'in_domain.error', got, ftype)
            return

        if not closed:
            Wc = cell_corner_max(U[hi] if U.ndim == 4 else U, V[hi] if V.ndim == 4 else V, pl, lat, lon,
                                 r['p'], r['lat'], r['lon'])
            tol = 1e-9 * (tas + Wc + 1.0)
            ctx.label('clause.bounds_arbitrary')
            if not (got == got and max(0.0, tas - Wc) - tol <= got <= tas + Wc + tol):
                _fail(ctx, 'gs.bounds', 'mismatch', WHERE, 'arbitrary_field',
                         f'{qtxt}: got {got!r} outside [|TAS-W|, TAS+W] with W <= {Wc!r} (largest corner wind of the cell)')
            return

        # alternative hypotheses for attribution (wind u, wind v, heading)
        alt_hyp = {}
        if case['time_axis'] == 'hours24':
            for dh in (1, -1):
                hu, hv = field_wind(case['field'], r['p'], r['lat'], r['lon'], (hi + dh) % 24, day, gc)
                alt_hyp[f'hour_slice_off_by_{dh:+d}'] = (hu, hv, h)
        if case['two_days']:
            hu, hv = field_wind(case['field'], r['p'], r['lat'], r['lon'], hi, 1 - day, gc)
            alt_hyp['other_day_file'] = (hu, hv, h)
        if az_param is not None:
            alt_hyp['point_azimuth_used_instead_of_argument'] = (u, v, az_point)
        if ftype == 'affine':
            hu, hv = field_wind(case['field'], r['p'] * 100.0, r['lat'], r['lon'], hi, day, gc)
            alt_hyp['pressure_in_pa'] = (hu, hv, h)

        if ftype == 'zero':
            clause = 'no_wind'
        elif rel == 0.0:
            clause = 'tailwind'
        elif rel == 180.0:
            clause = 'headwind'
        else:
            clause = 'vector_sum'
        ctx.label('clause.' + clause)
        if ftype != 'zero' and (h % 90.0 != 0.0 or ftype == 'affine' or case['time_axis'] == 'hours24'):
            self.nontrivial = True
        # the stated special cases, from the property text (independent of gs_formula)
        if clause == 'tailwind':
            special = tas + W
        elif clause == 'headwind':
            special = abs(tas - W)
        elif clause == 'no_wind':
            special = tas
        else:
            special = None
        verdict = self.judge(got, tas, h, u, v, clause, qtxt, alt_hyp)
        if verdict == 'ok' and special is not None and abs(got - special) > 1e-7 * (tas + W + 1.0):
            _fail(ctx, 'gs.' + clause, 'mismatch', WHERE, 'special_case',
                     f'{qtxt}: got {got!r}, the stated special case gives {special!r} (W={W!r})')
            return
        # triangle bounds hold whatever the direction convention
        tol = 1e-9 * (tas + W + 1.0)
        if verdict != 'bad' and not (abs(tas - W) - tol <= got <= tas + W + tol):
            _fail(ctx, 'gs.bounds', 'mismatch', WHERE, 'closed_form_field',
                     f'{qtxt}: got {got!r} outside [{abs(tas - W)!r}, {tas + W!r}]')

    def outside(self, t, q, r, lat, lon):
        ctx = self.ctx
        side, m = q['side'], q['margin']
        la, lo, alt = r['lat'], r['lon'], r['alt']
        if side == 'north':
            la = float(lat.max()) + m
        elif side == 'south':
            la = float(lat.min()) - m
        elif side == 'east':
            lo = float(lon.max()) + m
        elif side == 'west':
            lo = float(lon.min()) - m
        elif side == 'above':
            # pressure below the lowest level, but not above 25 km (a different refusal)
            alt = min(isa_altitude(r['pmin'] * 100.0 * (1.0 - min(m / 20.0, 0.9)) * (1.0 - 1e-6)), 24999.0)
        else:
            # pressure above the highest level, altitude kept >= 0
            alt = isa_altitude(r['pmax'] * 100.0) * (1.0 - 1e-6) * max(0.0, 1.0 - min(m / 20.0, 1.0))
        p = isa_pressure(alt) / 100.0
        really_out = (la > lat.max() or la < lat.min() or lo > lon.max() or lo < lon.min()
                      or p < r['pmin'] or p > r['pmax'])
        if not really_out or abs(la) > 90.0 or abs(lo) > 360.0:
            ctx.label('outside.skipped')
            return
        h = q.get('h', 0.0)
        st_, got = self.call(t, la, lo, h, alt, q['tas'], h)
        ctx.label('outside.' + side, 'clause.refusal')
        self.outside_seen = True
        if st_ == 'refused':
            return
        if st_ == 'error':
            _fail_exc(ctx, 'outside.error', got, side if side in ('above', 'below') else 'horizontal')
            return
        _fail(ctx, 'outside.accepted', 'returned', WHERE, 'level_range' if side in ('above', 'below') else 'horizontal',
                 f'point outside the weather domain ({side} by {m!r}: lat={la!r}, lon={lo!r}, p={p!r} hPa; domain '
                 f"lat [{lat.min()}, {lat.max()}], lon [{lon.min()}, {lon.max()}], p [{r['pmin']}, {r['pmax']}]) "
                 f'returned {got!r} instead of being refused')

    def missing_day(self):
        """There is no wind data for a day without a file: a query for such a time must be refused - also when it is
        repeated (the Weather object has a file of another day open by then) - and never answered from another day."""
        import pandas as pd

        ctx, case = self.ctx, self.case
        U, V, pl, lat, lon, gc = self.days[0]
        la = float(lat.min()) + 0.5 * float(lat.max() - lat.min())
        lo = float(lon.min()) + 0.5 * float(lon.max() - lon.min())
        pmin, pmax = float(pl.min()), float(pl.max())
        alt = isa_altitude((pmin + 0.5 * (pmax - pmin)) * 100.0)
        ok_first = self.call(self.ts(0, 6, 0), la, lo, 45.0, alt, 200.0, None)
        if ok_first[0] != 'ok':
            return  # judged by the in-domain clauses
        t = pd.Timestamp(self.dates[0]).tz_localize('UTC') + pd.Timedelta(days=5, hours=6)
        ctx.label('clause.missing_day')
        for attempt in (1, 2):
            st_, got = self.call(t, la, lo, 45.0, alt, 200.0, None)
            ctx.extra['queries'] = ctx.extra.get('queries', 0) + 1
            if st_ == 'ok':
                _fail(ctx, 'missing_day.accepted', 'returned', WHERE, f'attempt_{attempt}',
                      f'a query for {t} (no weather file for that day) returned {got!r} on attempt {attempt} instead of being refused')
                return
        again = self.call(self.ts(0, 6, 0), la, lo, 45.0, alt, 200.0, None)
        if again[0] != 'ok' or abs(again[1] - ok_first[1]) > 1e-9 * (abs(ok_first[1]) + 1.0):
            _fail(ctx, 'missing_day.state', 'mismatch', WHERE, 'after_refusal',
                  f'after two refused queries for a day without data the original query gives {again!r}, before {ok_first!r}')

    def rotation(self, rot):
        """Heading and (uniform) wind rotated together leave the ground speed unchanged."""
        ctx, case = self.ctx, self.case
        field = case['field']
        out = []
        for hour, day in zip(rot['hours'], rot['days']):
            U, V, pl, lat, lon, gc = self.days[day]
            hi = self.hour_index(hour)
            u, v = field_wind(field, 0, 0, 0, hi, day, gc)
            wdir = math.degrees(math.atan2(u, v))
            h = (wdir + rot['rel']) % 360.0
            if h >= 360.0:
                h = 0.0
            la = float(lat.min()) + rot['latf'] * float(lat.max() - lat.min())
            lo = float(lon.min()) + rot['lonf'] * float(lon.max() - lon.min())
            la, lo = min(la, float(lat.max())), min(lo, float(lon.max()))
            pmin, pmax = float(pl.min()), float(pl.max())
            alt = isa_altitude((pmin + rot['pf'] * (pmax - pmin)) * 100.0)
            st_, got = self.call(self.ts(day, hour, 0), la, lo, h, alt, rot['tas'], None)
            ctx.extra['queries'] = ctx.extra.get('queries', 0) + 1
            if st_ != 'ok':
                if st_ == 'refused':
                    _fail(ctx, 'in_domain.refused', 'ValueError', WHERE, 'inside_domain', f'rotation query refused: {got}')
                else:
                    _fail_exc(ctx, 'in_domain.error', got, 'uniform')
                return
            verdict = self.judge(got, rot['tas'], h, u, v, 'rotation', f'rotation query hour={hour} day={day}', {})
            out.append((verdict, got, h, u, v))
        ctx.label('clause.rotation')
        if all(o[0] == 'ok' for o in out):
            a, b = out[0][1], out[1][1]
            if not field.get('quant') and abs(a - b) > 1e-8 * (rot['tas'] + field['W'] + 1.0):
                _fail(ctx, 'gs.rotation', 'mismatch', WHERE, 'uniform_field',
                         f'rotating heading and wind together changed the ground speed: {out}')
        if (out[0][2] - out[1][2]) % 360.0 != 0.0 and field['W'] > 0:
            self.nontrivial = True


def _give_up(ctx):
    return bool(ctx.violations) and ctx.out_of_time()


def body(ctx, case):
    if _give_up(ctx):
        return
    ctx.case(case)
    ctx.label('file.field.' + case['field']['type'], 'file.time_axis.' + case['time_axis'],
              'file.packed_int16' if case['field'].get('quant') else 'file.float64',
              'file.two_days' if case['two_days'] else 'file.one_day',
              'file.lat_descending' if case['grid']['lat_desc'] else 'file.lat_ascending')
    chk = WeatherCheck(ctx, case)
    chk.nontrivial = False
    try:
        chk.run()
    except _Seen:
        ctx.label('stopped_at_already_reported_signature')
    if chk.swap_seen:
        ctx.label('case.continued_under_exchange_hypothesis')
    if chk.nontrivial:
        ctx.mark_nontrivial(case)
        if case['field']['type'] != 'zero':
            ctx.sample({k: case[k] for k in ('date', 'time_axis', 'field', 'two_days')} |
                       {'grid': case['grid'], 'first_group': case['groups'][0]})


def run(ctx: core.Ctx):
    ctx.level = 'exploration'
    ctx.rule = (
        'Hypothesis-generated ERA5-style weather directories written by the harness (3-12 pressure levels out of the '
        'ERA5 set, descending or ascending; 3-12 x 3-12 lat/lon nodes, latitude descending or ascending; time axis: 24 '
        'hours / none / scalar coordinate; optionally a second day file) with wind fields zero / uniform (|W|<=120, '
        'direction turning 15 deg per hour) / affine in (pressure, lat, lon) with a different field per hour and day / '
        'non-affine; 2-3 timestamps x 2-4 queries per directory: position interior, on nodes, on the domain edge, or '
        'outside on each of the six sides; heading free, cardinal, or relative to the local wind (tail, head, cross); '
        'heading passed by azimuth= (with a decoy azimuth in the point) or by the point. evaluations = weather '
        'directories; coverage.queries = get_ground_speed calls. Oracle: closed-form wind at the harness-ISA pressure + '
        'hypot(TAS sin h + u, TAS cos h + v); deviations are attributed to named hypotheses. Non-trivial: non-zero wind '
        'with a heading that is not a multiple of 90 deg, or an affine field, or a 24-hour time axis; distinct = hash of the case.'
    )
    ctx.assumptions = [
        'tri-linear interpolation reproduces fields that are affine in (pressure level, latitude, longitude) exactly; '
        'non-affine fields are used only for the triangle bounds (largest corner wind of the enclosing cell) and refusals',
        'files hold float64 winds; int16-packed/float32 storage (rounding 1e-7) is not exercised',
        'pressure from the ICAO/BADA ISA with the standard constants (self-tested against ICAO Doc 7488 table values); '
        'in-domain pressures stay 0.2 % inside the level range because the exact level cannot be hit through an altitude',
        'timestamps are tz-aware UTC on the day of the file, as the legacy builder passes mission.departure',
        'exchanging sin/cos of the heading is observationally identical to exchanging u and v: one root-cause discriminator',
    ]
    ctx.budget_s = 240.0 if ctx.quick else 2400.0  # only enforced once a violation exists
    self_test()
    try:
        # stratified by field type (deterministic shares, everything else drawn by Hypothesis)
        for i, (ftype, nq, nt) in enumerate([('affine', 50, 600), ('uniform', 35, 450), ('arbitrary', 15, 200),
                                             ('zero', 10, 150)]):
            core.run_given(ctx, weather_case(ftype), lambda c: body(ctx, c), ctx.n(nq, nt), salt=10 * i)
    finally:
        core.reset_config()


def replay(ctx: core.Ctx, case):
    self_test()
    try:
        body(ctx, case)
    finally:
        core.reset_config()
