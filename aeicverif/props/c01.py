"""C01 — the emissions inventory balances.

Observed at the `Emissions` value returned by
`AEIC.emissions.compute_emissions(pm, fuel, traj)`.

Generated per case (Hypothesis, JSON description -> real objects):
a real `Trajectory` (synthetic profile or a legacy-builder simulation), a
`Fuel`, LTO/EDB/APU data behind the repository's duck-typed performance-model
stand-in (10 %: a real LegacyPerformanceModel), aircraft class, engine count
and one of the 41 472 option combinations.  Oracle: `_emis_common.check_view`
(independent re-summation with math.fsum, clauses 1-9 of DESIGN.md).
Configurations that the code refuses *by name* are unsupported and skipped
(counted); every other outcome must be a balanced inventory.
"""

from __future__ import annotations

from .. import core
from . import _emis_common as ec

SHARDED = True


def _labels(ctx, case, inp: ec.Inputs, cfg):
    t = case['traj']
    tf = inp.tf
    n = tf['n']
    mode = cfg['climb_descent_mode']
    ctx.label(f'mode.{mode}', 'traj.simulated' if 'simulated' in t else 'traj.synthetic')
    nz = tf['n_climb'] + tf['n_descent']
    ctx.label('window.none_zeroed' if nz == 0 else ('window.everything_zeroed' if nz >= n else 'window.partial'))
    if tf['n_climb'] + tf['n_descent'] + (0 if 'simulated' in t else case['traj']['n_cruise']) == n - 1:
        ctx.label('phase.legacy_len_minus_1')
    fm = tf['fuel_mass']
    burns = [fm[i - 1] - fm[i] for i in range(1, n)]
    zero, pos = any(b == 0.0 for b in burns), any(b > 0.0 for b in burns)
    strat = any(a > 11000.0 for a in tf['altitude'])
    if zero:
        ctx.label('fuel.has_zero_burn_segment')
    if strat:
        ctx.label('alt.stratospheric')
    alt = tf['altitude']
    if 0.0 < max(alt) < 4000.0 and any(alt[i] > alt[i - 1] for i in range(1, n)):
        ctx.label('alt.low_flight_climbing_top_below_4km')
    if max(alt) == 0.0:
        ctx.label('alt.all_zero')
    p = case['pm']
    ctx.label('pm.sample' if p.get('sample') else ('pm.real_legacy_model' if p.get('real') else 'pm.stand_in'))
    apu = inp.pf['apu_flow']
    ctx.label('apu.none' if apu is None else ('apu.zero_fuel_unknown' if apu == 0.0 else 'apu.present'))
    if cfg['lifecycle_enabled']:
        ctx.label('lifecycle.on' if inp.ff['lifecycle'] is not None else 'lifecycle.on_fuel_without_value')
    ctx.label(f'len.{"2-5" if n <= 5 else "6-40" if n <= 40 else "41+"}')
    nontrivial = (zero and pos) or (mode == 'lto' and nz > 0) or strat
    return nontrivial


def body_for(ctx):
    def body(case):
        ctx.case(case)
        cfg = case['cfg']
        inp = ec.build_inputs(case)
        if inp is None:
            ctx.label('skipped.simulation_unavailable')
            return
        nontrivial = _labels(ctx, case, inp, cfg)
        out = ec.evaluate(inp, cfg, check_off=False)
        if out.kind == 'refused':
            ctx.label('outcome.unsupported_refused_by_name_skipped')
            return
        if out.failures:
            ctx.label('outcome.failures')
            ec.report(ctx, inp, cfg, out, check_off=False, enumerated=False)
            return
        ctx.label('outcome.balanced')
        # Second call in the same process with the same performance-model object and the same loaded
        # configuration but another fuel: the inventory must balance against *that* fuel (nothing may be
        # remembered from the previous call).
        try:
            upd = {'EI_H2O': inp.fuel.EI_H2O * 1.07 + 3.0, 'EI_CO2': inp.fuel.EI_CO2 * 0.93 - 5.0}
            fuel2 = inp.fuel.model_copy(update=upd)
        except core.PASS_THROUGH:
            raise
        except Exception:  # noqa: BLE001  (harness cannot derive a second fuel: skip the sub-check)
            fuel2 = None
        if fuel2 is not None:
            inp2 = ec.Inputs(inp.pm, fuel2, inp.traj)
            out2 = ec.evaluate(inp2, cfg, check_off=False, reload=False)
            ctx.label('second_call.other_fuel')
            if out2.kind != 'refused' and out2.failures:
                f = out2.failures[0]
                ctx.fail('second_call.' + f.clause, f.kind, f.where, 'same_model_and_config_other_fuel',
                         'second compute_emissions call with the same performance model and configuration but another fuel: '
                         + f.detail)
                return
            # the inventory returned by the first call is a value: the second call must not have changed it
            try:
                again = ec.view_of(out.obj)
            except core.PASS_THROUGH:
                raise
            except Exception as e:  # noqa: BLE001
                again = repr(e)
            if again != out.view:
                diff = [k for k in out.view if not isinstance(again, dict) or again.get(k) != out.view[k]]
                ctx.fail('result.altered_by_later_call', 'mismatch', 'emission.compute_emissions', (diff or ['?'])[0],
                         f'the inventory returned by the first call changed after a second call with another fuel: parts {diff[:4]}')
                return
        if nontrivial:
            tf = inp.tf
            ctx.mark_nontrivial({
                'cfg': ec.index_from_config(cfg), 'split': [tf['n'], tf['n_climb'], tf['n_descent']],
                'fm': [round(x, 3) for x in tf['fuel_mass'][:50]], 'alt': [round(x, 0) for x in tf['altitude'][:50]],
            })
            if tf['n'] <= 8:
                ctx.sample(case)

    return body


def run(ctx: core.Ctx):
    ctx.level = 'exploration'
    ctx.rule = (
        'Hypothesis draws (trajectory, fuel, LTO/EDB/APU data, aircraft class, engines, 12 options); the inventory '
        'returned by compute_emissions is re-summed with math.fsum (clauses: fuel.segments, traj.ei_times_fuel, '
        'traj.window_zero, lto.ei_times_fuel, fuel.total, total.sum, lifecycle.value, counted_once, speciation.nox/sox, '
        'finite_nonneg). A case is non-trivial when it has a zero-burn and a positive-burn segment, or a non-empty '
        'zeroed climb/descent window (lto mode), or a stratospheric point, and the inventory was returned and balanced; '
        'distinct = hash(config index, phase split, rounded fuel-mass and altitude profile). Failures are bucketed by '
        '(clause, component/species group, minimal option assignment found by resetting options to defaults).'
    )
    ctx.assumptions = [
        'fuel mass is non-increasing along the trajectory and >= 0 (C02 guarantees it for simulated trajectories)',
        'phase counts are point counts of the required phases: n_climb+n_cruise+n_descent = len or len-1 (legacy builder), optional phases 0',
        'LTO fuel flows increase idle<approach<climb<takeoff by >= 5 % or neighbours are exactly equal; LTO emission indices > 0',
        'nvPM matrices are positive or contain the documented -1 sentinel; APU data within 3x of APU_data.toml or the zero-fuel unknown APU',
        'a configuration refused with NotImplementedError/ValueError naming the method value (or RuntimeError for a fuel '
        'without life-cycle value) is unsupported and not judged here (C11)',
        'altitude 0..25000 m (the ISA routine refuses more), Mach 0..0.95',
    ]
    ec.selftest()
    try:
        core.run_given(ctx, ec.st_case(), body_for(ctx), max_examples=ctx.n(1200, 10000))
    finally:
        core.reset_config()


def replay(ctx: core.Ctx, case):
    ec.selftest()
    try:
        body_for(ctx)(case)
    finally:
        core.reset_config()
