"""C17 — each simulated flight is independent of the builder's history and failures.

Rule-based state machine: one LegacyBuilder per history (options drawn once),
a pool of performance tables and missions per history so that repeats occur,
rules fly_valid / fly_invalid(kind) / fly_invalid_weather(kind).  Oracle for
every call: a brand-new builder with the same options flies the same mission
(fresh Mission object, same performance model object) and must give
bit-identical per-point arrays and metadata, or an exception of the same type
with the same message.  Every exception must not be an unrelated internal
error; for the invalid kinds (failure built in by construction) the exception
must belong to the kind's family; after every call the builder carries no
context; with mass iteration a returned trajectory meets the tolerance.
"""

from __future__ import annotations

import shutil
from contextlib import contextmanager

from hypothesis import strategies as st
from hypothesis.stateful import initialize, rule

from .. import core
from . import _fly_common as fc

SHARDED = True
LoggedMachine = core.logged_machine_base()

KINDS = ['unknown_origin', 'unknown_destination', 'destination_above_cruise', 'origin_above_ceiling',
         'envelope_cruise_level', 'mass_above_envelope', 'too_short']
WX_KINDS = ['wx_missing_dir', 'wx_missing_day', 'wx_outside_domain']
WX_BOX = (33.0, 43.0, -85.0, -71.0)  # tests/data/weather/20240901.nc: lat 33..43, lon -85..-71


# --------------------------------------------------------------------------
# strategies


@st.composite
def wx_mission(draw):
    """Route inside the weather file's domain (with a margin), long enough to fly."""
    a = [draw(st.floats(33.6, 36.5)), draw(st.floats(-84.4, -80.0))]
    b = [draw(st.floats(39.5, 42.4)), draw(st.floats(-75.5, -71.6))]
    if draw(st.booleans()):
        a, b = b, a
    el = st.one_of(st.just(0.0), st.floats(0.0, 400.0))
    return {'o': a + [draw(el)], 'd': b + [draw(el)], 'lf': draw(st.floats(0.5, 1.0)),
            'fid': draw(st.one_of(st.none(), st.integers(1, 10**9))), 'cls': 'wx'}


MODES = ('block', 'fine', 'weather')


@st.composite
def history_options(draw, mode):
    """Builder options of a history.  Steps are coarse (a weather flight costs
    ~15 ms per point, and every call is flown twice).  'block': the shipped
    default discretisation scaled by two for climb and cruise (50-point phases,
    hand-over exactly on the per-point buffers' block boundary)."""
    if mode == 'block':
        return {'clm': 0.02, 'crz': 0.02, 'des': draw(st.sampled_from([0.02, 0.25, 0.5])),
                'iterate': draw(st.sampled_from([True, True, False])), 'max_iters': draw(st.sampled_from([1, 2, 3, 3, 8, 0])),
                'reltol': draw(st.sampled_from([1e-9, 1e-6, 1e-5, 1e-4, 1e-3, 1e-2, 0.05, 0.2]))}
    weather = mode == 'weather'
    n = st.integers(2, 4) if weather else st.one_of(st.integers(2, 12), st.integers(2, 25))
    frac = st.one_of(n.map(lambda k: 1.0 / k), n.map(lambda k: 1.0 / (k + 0.5)))
    return {
        'clm': draw(frac), 'crz': draw(frac), 'des': draw(frac),
        'iterate': draw(st.booleans()),
        'max_iters': draw(st.integers(1, 2) if weather else st.one_of(st.integers(1, 5), st.sampled_from([8, 12, 0]))),
        # tight tolerances (the leftover of the last descent segment alone is 1e-4..1e-5 of the trip fuel) to loose ones
        'reltol': draw(st.sampled_from([1e-9, 1e-6, 1e-5, 1e-4, 1e-3, 1e-2, 1e-2, 0.05, 0.2])),
    }


@st.composite
def history_config(draw, mode):
    weather = mode == 'weather'
    opts = draw(history_options(mode))
    if weather:
        tables = draw(st.lists(fc.tables(weather_ok=True, dist_km=1200.0), min_size=1, max_size=2))
        missions = draw(st.lists(wx_mission(), min_size=3, max_size=5))
    else:
        tables = draw(st.lists(fc.tables(dist_km=3000.0), min_size=2, max_size=3))
        alt = min(t['max_alt_ft'] for t in tables)
        rts = fc.route().filter(lambda r: r['dist_km'] <= 3500.0)
        missions = draw(st.lists(rts.flatmap(lambda r: fc.mission(rt=r, max_alt_ft=alt, above=False)),
                                 min_size=4, max_size=12))
    return {'mode': mode, 'opts': opts, 'weather': weather, 'tables': tables, 'missions': missions}


_MI, _TI = st.integers(0, 11), st.integers(0, 2)
_FID = st.sampled_from([None, None, 7, 7, 123456789, 2**40 + 1])  # per call: consecutive flights often differ
_VALID = st.fixed_dictionaries({'a': st.just('valid'), 'mi': _MI, 'ti': _TI, 'fid': _FID})
_VALID_MASS = st.fixed_dictionaries({'a': st.just('valid'), 'mi': _MI, 'ti': _TI, 'fid': _FID,
                                     'smf': st.floats(0.45, 0.98)})
# low load factors: the first pass may be flyable while the corrected (lighter) mass of a later pass leaves the table
_VALID_LOW = st.fixed_dictionaries({'a': st.just('valid'), 'mi': _MI, 'ti': _TI, 'fid': _FID, 'lf': st.floats(0.0, 0.35)})
_INVALID = st.fixed_dictionaries({'a': st.just('invalid'), 'k': st.sampled_from(list(range(91))), 'mi': _MI, 'ti': _TI})
WX_POOL = WX_KINDS + KINDS[:2] + WX_KINDS + KINDS[2:]  # weather histories: kind = WX_POOL[k % 13], others: KINDS[k % 7]
ACTIONS = st.one_of(_VALID, _VALID, _VALID_MASS, _VALID_LOW, st.just({'a': 'again'}), _INVALID, _INVALID, _INVALID)


# --------------------------------------------------------------------------
# observation helpers


def snapshot(traj) -> dict:
    import numpy as np

    snap = {'len': len(traj)}
    for f in fc.POINT_FIELDS:
        a = np.ascontiguousarray(getattr(traj, f))
        snap[f] = (str(a.dtype), a.shape, a.tobytes())
    for f in fc.META_FIELDS:
        v = getattr(traj, f)
        snap[f] = (type(v).__name__, repr(v))
    return snap


def diff_snapshots(a: dict, b: dict):
    for k in a:
        if a[k] != b.get(k):
            return k
    return None


class BuilderMachine(LoggedMachine):
    wx_dir = None  # set by _env()

    def __init__(self):
        super().__init__()
        self.cfg = None
        self.builder = None
        self.n_failed = 0
        self.last_failed = False
        self.flown = set()
        self.last_valid = None
        self.flags = set()
        self.calls = 0

    # ---- set-up (called by the @initialize rule of the per-mode subclasses, and directly by replay)
    def setup(self, cfg):
        self.op('setup', cfg=cfg)
        self.cfg = cfg
        self.builder = fc.make_builder(cfg['opts'], use_weather=cfg['weather'])
        self.options0 = (repr(self.builder.options), self.builder.frac_step_clm, self.builder.frac_step_crz,
                         self.builder.frac_step_des)
        self.ctx.label('history:mode:' + cfg.get('mode', '?'),
                       'history:iterate' if cfg['opts']['iterate'] else 'history:single_pass')

    def teardown(self):
        if {'valid_ok_after_failure', 'repeat'} <= self.flags:
            self.ctx.mark_nontrivial({'log': self.log})
            self.ctx.sample([{'op': s['op'], 'args': {k: v for k, v in s['args'].items() if k != 'cfg'}}
                             for s in self.log[:14]])
        for f in self.flags:
            self.ctx.label('history:' + f)

    # ---- one call on the history builder and on a fresh builder
    def _fly(self, builder, pm, mdesc, codes, apt, sm, departure=None, mission=None):
        with fc.airports(apt):
            if mission is None:
                mission = fc.make_mission(mdesc, origin=codes[0], destination=codes[1], departure=departure)
            self._last_mission = mission
            try:
                traj = builder.fly(pm, mission, starting_mass=sm)
            except core.PASS_THROUGH:
                raise
            except Exception as e:  # noqa: BLE001
                return ('exc', e)
            return ('ok', traj)

    def _call(self, kind, mdesc, codes, apt, tdesc, max_alt_ft, sm, departure=None, must_raise=False, family=None,
              mention=None):
        ctx = self.ctx
        ctx.evaluations += 1
        self.calls += 1
        o = self.cfg['opts']
        pm = fc.build_pm(tdesc, max_alt_ft=max_alt_ft)
        got = self._fly(self.builder, pm, mdesc, codes, apt, sm, departure)
        snap_got = snapshot(got[1]) if got[0] == 'ok' else None  # taken before anything else is flown
        fresh_builder = fc.make_builder(o, use_weather=self.cfg['weather'])
        # every other call flies the *same* Mission object with the fresh builder (a mission is a value: flying it must
        # not change it), the others an equal new one
        same = self._last_mission if self.calls % 2 == 0 else None
        if same is not None:
            ctx.label('mission_object:reused')
        ref = self._fly(fresh_builder, pm, mdesc, codes, apt, sm, departure, mission=same)
        prev = getattr(self, 'prev_result', None)
        if prev is not None:
            # the trajectory returned by the previous successful call must not be altered by this (usually different) flight
            k = diff_snapshots(prev[1], snapshot(prev[0]))
            if k is not None:
                ctx.fail('result.altered_by_later_flight', 'mismatch', 'base.fly', 'len<=50' if prev[1]['len'] <= 50 else 'len>50',
                         f'field {k} of the trajectory returned by the previous call ({prev[1]["len"]} points) changed when {kind} was flown')
        self.prev_result = (got[1], snap_got) if snap_got is not None else None
        if snap_got is not None:
            # a returned trajectory is a result: flying again (here: the same mission on another builder) must not alter it
            k = diff_snapshots(snap_got, snapshot(got[1]))
            if k is not None:
                ctx.fail('result.altered_by_later_flight', 'mismatch', 'base.fly', 'len<=50' if len(got[1]) <= 50 else 'len>50',
                         f'{kind}: field {k} of an already returned trajectory ({len(got[1])} points) changed when another flight was flown')
        where = 'after_failure' if self.last_failed else ('first_call' if self.calls == 1 else 'after_success')

        # -- no leftover context, options untouched
        if 'ctx' in vars(self.builder) or hasattr(self.builder, 'ctx'):
            if ctx.fail('leftover', 'mismatch', 'base.fly', 'failed_call' if got[0] == 'exc' else 'successful_call',
                        f'builder still carries a context after a {got[0]} call ({kind})'):
                vars(self.builder).pop('ctx', None)
        now = (repr(self.builder.options), self.builder.frac_step_clm, self.builder.frac_step_crz,
               self.builder.frac_step_des)
        if now != self.options0:
            ctx.fail('leftover.options', 'mismatch', 'base.fly', kind, f'builder options changed: {self.options0} -> {now}')

        # -- differential against the fresh builder
        if got[0] != ref[0]:
            ctx.fail('independence', 'mismatch', 'base.fly', where,
                     f'{kind}: history builder -> {got[0]} {got[1]!r}, fresh builder -> {ref[0]} {ref[1]!r}')
        elif got[0] == 'exc':
            if type(got[1]) is not type(ref[1]) or str(got[1]) != str(ref[1]):
                ctx.fail('independence', 'mismatch', 'base.fly', where,
                         f'{kind}: history builder raised {got[1]!r}, fresh builder raised {ref[1]!r}')
        else:
            k = diff_snapshots(snap_got, snapshot(ref[1]))
            if k is not None:
                ctx.fail('independence', 'mismatch', 'base.fly', where,
                         f'{kind}: field {k} differs between the history builder and a fresh builder '
                         f'({getattr(got[1], k) if k != "len" else len(got[1])!r} vs '
                         f'{getattr(ref[1], k) if k != "len" else len(ref[1])!r})')

        # -- the reason surfaced
        if got[0] == 'exc':
            e = got[1]
            ctx.label(f'{kind}:raised:{type(e).__name__}')
            if isinstance(e, fc.INTERNAL_ERRORS):
                masked = isinstance(e, AttributeError) and "'ctx'" in str(e) and e.__context__ is not None
                disc = ('context_constructor_failed' if masked else
                        'explicit_starting_mass' if (sm is not None and kind in ('valid', 'mass_above_envelope')) else kind)
                detail = f'[original error: {e.__context__!r}] ' if masked else ''
                ctx.fail('reject.internal_error', type(e).__name__, core.aeic_frame(e), disc,
                         f'{kind}: {detail}{e!r}')
            elif family is not None and not isinstance(e, family):
                ctx.fail('reject.reason', type(e).__name__, core.aeic_frame(e), kind,
                         f'{kind}: expected {[c.__name__ for c in family]}, got {e!r}')
            elif mention is not None and mention not in str(e):
                ctx.fail('reject.reason', 'message', core.aeic_frame(e), kind, f'{kind}: {e!r} does not mention {mention!r}')
            elif kind == 'valid' and isinstance(e, RuntimeError) and not (o['iterate'] and 'converge' in str(e)):
                ctx.fail('reject.reason', 'RuntimeError', core.aeic_frame(e), 'valid', f'unexpected {e!r}')
            elif isinstance(e, RuntimeError) and 'converge' in str(e) and (e.__cause__ or e.__context__) is not None:
                # "reports non-convergence" means the iterations ran out; a rejection of a later pass (corrected mass
                # outside the envelope) re-labelled as non-convergence hides the original reason
                ctx.fail('reject.reason', 'masked', core.aeic_frame(e), 'nonconvergence_wraps_rejection',
                         f'{kind}: {e!r} replaces the original rejection {(e.__cause__ or e.__context__)!r}')
        else:
            ctx.label(f'{kind}:returned')
            traj = got[1]
            if must_raise:
                ctx.fail('reject.accepted', 'returned', 'base.fly', kind, f'{kind}: a trajectory of {len(traj)} points was returned')
            want_fid = mdesc.get('fid')
            if traj.flight_id != want_fid:
                ctx.fail('metadata.flight_id', 'mismatch', 'base.fly', where,
                         f'trajectory flight_id {traj.flight_id!r}, mission flight_id {want_fid!r}')
            if traj.name != f'{codes[0]}_{codes[1]}_738':
                ctx.fail('metadata.name', 'mismatch', 'base.fly', where, f'trajectory name {traj.name!r} for {codes}')
            if o['iterate']:
                tfm, sm0, last = float(traj.total_fuel_mass), float(traj.starting_mass), float(traj.aircraft_mass[-1])
                res = abs(tfm - (sm0 - last)) / abs(tfm)
                if not res < o['reltol']:
                    ctx.fail('iterate.tolerance', 'mismatch', 'base._iterate_mass', 'returned_unconverged',
                             f'leftover trip fuel / trip fuel = {res!r} >= tolerance {o["reltol"]!r} '
                             f'(total_fuel_mass {tfm!r}, starting_mass {sm0!r}, final mass {last!r})')
                else:
                    self.flags.add('iterated_within_tolerance')
                    if o['reltol'] <= 1e-4:
                        self.flags.add('iterated_within_tight_tolerance')

        # -- bookkeeping for the non-trivial rule
        key = core.short_hash([mdesc, tdesc, max_alt_ft, sm, kind])
        if key in self.flown:
            self.flags.add('repeat')
        self.flown.add(key)
        if got[0] == 'ok' and kind == 'valid' and self.n_failed > 0:
            self.flags.add('valid_ok_after_failure')
        if got[0] == 'exc':
            self.n_failed += 1
        self.last_failed = got[0] == 'exc'

    # ---- rules
    def _pick(self, mi, ti):
        ms, ts = self.cfg['missions'], self.cfg['tables']
        mi, ti = mi % len(ms), ti % len(ts)
        return ms[mi], (f'A{mi:02d}', f'B{mi:02d}'), ts[ti]

    def _valid(self, mi, ti, smf, fid=None, lf=None):
        m, codes, t = self._pick(mi, ti)
        m = dict(m, fid=fid)
        if lf is not None:
            m['lf'] = lf
        sm = None
        if smf is not None:
            info = fc.table_info(t)
            sm = info['m_lo'] + smf * (info['m_hi'] - info['m_lo'])
        apt = {codes[0]: tuple(m['o']), codes[1]: tuple(m['d'])}
        self.last_valid = (mi, ti, smf, fid, lf)
        self._call('valid', m, codes, apt, t, None, sm)

    # One dispatching rule: Hypothesis' swarm testing switches whole rules off per example, which
    # would make most histories all-valid or all-invalid; the mix is what matters here.
    @rule(action=ACTIONS)
    def step(self, action):
        self.op('step', action=action)
        a = action['a']
        if a == 'valid':
            self._valid(action['mi'], action['ti'], action.get('smf'), action.get('fid'), action.get('lf'))
        elif a == 'again':
            # repeat the most recent valid mission (whatever happened in between)
            if self.last_valid is not None:
                self._valid(*self.last_valid)
        else:
            pool = WX_POOL if self.cfg['weather'] else KINDS
            kind = pool[action['k'] % len(pool)]
            if kind in WX_KINDS:
                self.fly_invalid_weather(kind, action['mi'], action['ti'])
            else:
                self.fly_invalid(kind, action['mi'], action['ti'])

    def fly_invalid(self, kind, mi, ti):
        from AEIC.trajectories.ground_track import GroundTrack

        m, codes, t = self._pick(mi, ti)
        m = dict(m)
        apt = {codes[0]: tuple(m['o']), codes[1]: tuple(m['d'])}
        info = fc.table_info(t)
        max_alt, sm, must, family, mention = None, None, True, (ValueError,), None
        if kind == 'unknown_origin':
            apt.pop(codes[0])
            mention = codes[0]
        elif kind == 'unknown_destination':
            apt.pop(codes[1])
            mention = codes[1]
        elif kind == 'destination_above_cruise':
            # destination + 3000 ft reaches the ceiling, the cruise level is below the ceiling
            apt[codes[1]] = (m['d'][0], m['d'][1], info['ceiling_m'] + 100.0)
        elif kind == 'origin_above_ceiling':
            apt[codes[0]] = (m['o'][0], m['o'][1], info['ceiling_m'] + 200.0)
        elif kind == 'envelope_cruise_level':
            # ceiling - 7000 ft above the highest tabulated cruise level
            max_alt = int(info['crz_fl_max'] * 100 + 7000 + 800)
        elif kind == 'mass_above_envelope':
            sm = 1.2 * info['m_hi']
        elif kind == 'too_short':
            # shorter than the descent alone (18.23 m per metre of descent, >= 1000 m to descend)
            lon, lat, _ = fc.geod().fwd(m['o'][1], m['o'][0], 45.0, 4000.0)
            apt[codes[0]] = (m['o'][0], m['o'][1], 0.0)
            apt[codes[1]] = (float(lat), float(lon), 0.0)
            must = t['max_alt_ft'] >= 14000
            family = (GroundTrack.Exception, ValueError)
        self._call(kind, m, codes, apt, t, max_alt, sm, must_raise=must, family=family, mention=mention)

    def fly_invalid_weather(self, kind, mi, ti):
        m, codes, t = self._pick(mi, ti)
        apt = {codes[0]: tuple(m['o']), codes[1]: tuple(m['d'])}
        if kind == 'wx_missing_dir':
            off = self.wx_dir.with_name(self.wx_dir.name + '.off')
            self.wx_dir.rename(off)
            try:
                self._call(kind, m, codes, apt, t, None, None, must_raise=True, family=(FileNotFoundError,))
            finally:
                off.rename(self.wx_dir)
        elif kind == 'wx_missing_day':
            # The day file is looked up at the first ground-speed evaluation; an envelope rejection can come
            # earlier, so FileNotFoundError is required only if the same flight on the existing day succeeds.
            pm = fc.build_pm(t)
            ctrl = self._fly(fc.make_builder(self.cfg['opts'], use_weather=True), pm, m, codes, apt, None)
            strict = ctrl[0] == 'ok'
            self.ctx.label('wx_missing_day:strict' if strict else 'wx_missing_day:loose')
            self._call(kind, m, codes, apt, t, None, None, departure='2024-09-02T12:00:00', must_raise=True,
                       family=(FileNotFoundError,) if strict else (FileNotFoundError, ValueError))
        else:
            # destination far outside the weather domain (mid-Atlantic)
            apt[codes[1]] = (m['d'][0], -40.0, 0.0)
            self._call(kind, m, codes, apt, t, None, None, must_raise=True, family=(ValueError,))


# --------------------------------------------------------------------------


def machine_for(mode):
    """Machine class whose histories are all of one mode (fixed shares of the
    budget instead of a drawn flag: the weather and 50-point-block histories
    are the expensive/rare ones)."""

    class M(BuilderMachine):
        @initialize(cfg=history_config(mode))
        def init(self, cfg):
            self.setup(cfg)

    M.__name__ = M.__qualname__ = f'BuilderMachine_{mode}'
    return M


@contextmanager
def _env(ctx: core.Ctx):
    """Configuration with a private weather directory (a copy of the test
    suite's only day file) so that 'missing directory' can be provoked."""
    wx = ctx.fresh_dir() / 'wx'
    wx.mkdir()
    shutil.copy(core.TEST_DATA / 'weather' / '20240901.nc', wx / '20240901.nc')
    core.load_config(weather={'weather_data_dir': str(wx)})
    BuilderMachine.wx_dir = wx.resolve()
    try:
        yield
    finally:
        core.reset_config()


@st.composite
def tolerance_case(draw):
    t = draw(fc.tables(dist_km=3000.0))
    rts = fc.route().filter(lambda r: r['dist_km'] <= 3500.0)
    m = draw(rts.flatmap(lambda r: fc.mission(rt=r, max_alt_ft=t['max_alt_ft'], above=False)))
    return {'tolerance_sweep': True, 'table': t, 'mission': m,
            # a fine geometric grid: a leftover that exceeds the tolerance by a few per cent needs the tolerance to fall
            # into a narrow window relative to the residuals of the individual passes
            'reltol': 10.0 ** -(draw(st.integers(50, 450)) / 100.0), 'step': draw(st.sampled_from([0.25, 0.2, 0.34]))}


def tolerance_body(ctx: core.Ctx, case):
    """With mass iteration enabled a returned trajectory leaves at most the requested relative tolerance of trip fuel."""
    ctx.case(case)
    ctx.evaluations += 1
    m, t = case['mission'], case['table']
    o = {'iterate': True, 'max_iters': 12, 'reltol': case['reltol'], 'clm': case['step'], 'crz': case['step'], 'des': case['step']}
    codes = ('A00', 'B00')
    apt = {codes[0]: tuple(m['o']), codes[1]: tuple(m['d'])}
    pm = fc.build_pm(t)
    with fc.airports(apt):
        mission = fc.make_mission(m, origin=codes[0], destination=codes[1])
        try:
            traj = fc.make_builder(o).fly(pm, mission)
        except core.PASS_THROUGH:
            raise
        except fc.INTERNAL_ERRORS as e:
            ctx.fail_exc('reject.internal_error', e, 'tolerance_sweep', case)
            return
        except Exception:  # noqa: BLE001  (a rejection or a non-convergence report: judged by the histories above)
            ctx.label('tolerance_sweep:rejected_or_not_converged')
            return
    tfm, sm0, last = float(traj.total_fuel_mass), float(traj.starting_mass), float(traj.aircraft_mass[-1])
    res = abs(tfm - (sm0 - last)) / abs(tfm)
    ctx.label('tolerance_sweep:returned')
    if not res < case['reltol']:
        ctx.fail('iterate.tolerance', 'mismatch', 'base._iterate_mass', 'returned_unconverged',
                 f'leftover trip fuel / trip fuel = {res!r} >= tolerance {case["reltol"]!r} '
                 f'(total_fuel_mass {tfm!r}, starting_mass {sm0!r}, final mass {last!r})', case)
    ctx.mark_nontrivial({'tol': case['reltol'], 'res': res})


def run(ctx: core.Ctx):
    fc.selftest()
    ctx.level = 'exploration'
    ctx.rule = (
        'Hypothesis rule-based histories on one LegacyBuilder (options drawn per history: step fractions, '
        'iterate_mass, max iterations 1-5, tolerance); three strata with fixed budget shares: 50-point climb/cruise phases, '
        'arbitrary coarse steps, weather on (3-5 points per phase); per-history pool of '
        '1-3 performance tables and 3-12 missions; one rule with actions valid / valid with an explicit starting mass / again '
        '(repeat the latest valid mission) / '
        'fly_invalid(7 kinds: unknown origin/destination, destination above cruise level, origin above the ceiling, '
        'cruise level above the tabulated envelope, starting mass above the envelope, route shorter than the descent) '
        'and, in weather histories, 3 weather kinds (directory missing, day file missing, route leaving the domain). '
        'Every call is repeated on a brand-new builder with the same options: bit-identical arrays and metadata or '
        'the same exception type and message. evaluations = builder calls. A history is non-trivial when a valid '
        'flight succeeds after at least one failed flight and some (mission, table, kind) is flown twice; distinct = '
        'hash of the operation log. Plus a tolerance sweep: single iterated flights with tolerances on a fine geometric grid; '
        'a returned trajectory leaves less than the requested relative tolerance of trip fuel.'
    )
    ctx.assumptions = [
        'the same performance-model object is given to the history builder and to the fresh builder (a Mission object is never reused)',
        'unrelated internal error = AttributeError, KeyError, TypeError, UnboundLocalError, NameError, IndexError, AssertionError',
        'a valid mission may legitimately be rejected (envelope, non-convergence); only the exception family is judged',
        'weather histories use routes inside the test file domain (33-43N, 85-71W) on 2024-09-01',
    ]
    with _env(ctx):
        core.run_machine(ctx, machine_for('block'), max_examples=ctx.n(16, 130), steps=16, salt=0)
        core.run_machine(ctx, machine_for('fine'), max_examples=ctx.n(16, 160), steps=16, salt=20)
        core.run_machine(ctx, machine_for('weather'), max_examples=ctx.n(6, 40), steps=16, salt=40)
        core.run_given(ctx, tolerance_case(), lambda c: tolerance_body(ctx, c), ctx.n(250, 2500), salt=60)


def replay(ctx: core.Ctx, case):
    fc.selftest()
    if isinstance(case, dict) and case.get('tolerance_sweep'):
        with _env(ctx):
            return tolerance_body(ctx, case)
    with _env(ctx):
        core.replay_machine(BuilderMachine, ctx, case, invariants=())
