"""Shared machinery for C01 (inventory balance) and C11 (option product).

* the 12 documented emissions options, their values and defaults;
* builders that turn a plain-JSON case description into the real AEIC objects
  (Trajectory, Fuel, LTO/EDB/APU data, performance-model stand-in or a real
  LegacyPerformanceModel);
* `evaluate()` — load the configuration, run `compute_emissions`, classify the
  outcome and apply the balance oracle;
* the balance oracle itself (`check_view`): an independent re-summation with
  `math.fsum` over a plain-Python *view* of the returned `Emissions` value.  It
  never calls into `AEIC.emissions`;
* root-cause discrimination: the minimal option assignment that still triggers
  a failure, found by resetting options to their defaults one at a time;
* a pairwise covering array of the option space;
* Hypothesis strategies for the case descriptions.

Tolerances (stated once): products "index x fuel" are recomputed with the same
two operands, so they agree to 1 ulp -> rel 1e-12.  Sums are compared with
`math.fsum` of the parts against numpy/Python running sums -> rel 1e-9 of the
sum of absolute parts.  Fuel-burn differences are required exactly.
"""

from __future__ import annotations

import contextlib
import copy
import io
import itertools
import math
import tomllib

from .. import core

# --------------------------------------------------------------------------
# option space (documented in config/emissions.py and default_config.toml)

OPTIONS: dict[str, list] = {
    'climb_descent_mode': ['trajectory', 'lto'],
    'co2_enabled': [True, False],
    'h2o_enabled': [True, False],
    'sox_enabled': [True, False],
    'nox_method': ['bffm2', 'p3t3', 'none'],
    'hc_method': ['bffm2', 'p3t3', 'none'],
    'co_method': ['bffm2', 'p3t3', 'none'],
    'pmvol_method': ['fuel_flow', 'foa3', 'none'],
    'pmnvol_method': ['meem', 'scope11', 'foa3', 'none'],
    'apu_enabled': [True, False],
    'gse_enabled': [True, False],
    'lifecycle_enabled': [True, False],
}
OPTION_NAMES = list(OPTIONS)
METHOD_OPTIONS = ['nox_method', 'hc_method', 'co_method', 'pmvol_method', 'pmnvol_method']
N_CONFIGS = math.prod(len(v) for v in OPTIONS.values())  # 41 472

MODES = ['idle', 'approach', 'climb', 'takeoff']
# ICAO reference LTO cycle, minutes in mode (ICAO Annex 16 vol. II): taxi/idle
# 26, approach 4, climb-out 2.2, take-off 0.7.
TIM_MIN = {'idle': 26.0, 'approach': 4.0, 'climb': 2.2, 'takeoff': 0.7}
APU_TIME_S = 900.0  # documented default of get_APU_emissions (Stettler 2011)

SPECIES = [
    'CO2', 'H2O', 'HC', 'CO', 'NOx', 'NO', 'NO2', 'HONO', 'PMnvol', 'PMnvolGMD',
    'PMvol', 'OCic', 'SOx', 'SO2', 'SO4', 'PMnvolN',
]
NOX_CHILDREN = ['NO', 'NO2', 'HONO']
SOX_CHILDREN = ['SO2', 'SO4']

# species groups governed by one switch (config/emissions.py:enabled_species)
GROUPS = {
    'co2': ['CO2'],
    'h2o': ['H2O'],
    'sox': ['SOx', 'SO2', 'SO4'],
    'nox': ['NOx', 'NO', 'NO2', 'HONO'],
    'hc': ['HC'],
    'co': ['CO'],
    'pmvol': ['PMvol', 'OCic'],
    'pmnvol': ['PMnvol', 'PMnvolGMD', 'PMnvolN'],
}
GROUP_OF = {s: g for g, ss in GROUPS.items() for s in ss}


def defaults() -> dict:
    """Default option values, read from the packaged default_config.toml with
    tomllib (lower-cased; the enums are case-insensitive)."""
    d = tomllib.loads((core.REPO / 'src' / 'AEIC' / 'data' / 'default_config.toml').read_text())['emissions']
    out = {}
    for k in OPTION_NAMES:
        v = d[k]
        out[k] = v.lower() if isinstance(v, str) else v
        if out[k] not in OPTIONS[k]:
            raise core.HarnessError(f'default {k}={v!r} is not one of the documented values')
    return out


_DEFAULTS: dict | None = None


def DEFAULTS() -> dict:
    global _DEFAULTS
    if _DEFAULTS is None:
        _DEFAULTS = defaults()
    return _DEFAULTS


def config_from_index(i: int) -> dict:
    """Mixed-radix decoding of 0 <= i < N_CONFIGS (first option fastest)."""
    cfg = {}
    for k in OPTION_NAMES:
        vals = OPTIONS[k]
        cfg[k] = vals[i % len(vals)]
        i //= len(vals)
    return cfg


def index_from_config(cfg: dict) -> int:
    i, mul = 0, 1
    for k in OPTION_NAMES:
        i += OPTIONS[k].index(cfg[k]) * mul
        mul *= len(OPTIONS[k])
    return i


def switched_off_groups(cfg: dict) -> list[str]:
    off = []
    for g in ('co2', 'h2o', 'sox'):
        if not cfg[f'{g}_enabled']:
            off.append(g)
    for g in ('nox', 'hc', 'co', 'pmvol', 'pmnvol'):
        if cfg[f'{g}_method'] == 'none':
            off.append(g)
    return off


def n_nondefault(cfg: dict) -> int:
    d = DEFAULTS()
    return sum(1 for k in OPTION_NAMES if cfg[k] != d[k])


def assignment_str(cfg: dict, keys) -> str:
    return ','.join(f'{k}={str(cfg[k]).lower()}' for k in sorted(keys)) or 'defaults'


def pairwise_array(seed: int) -> list[dict]:
    """Greedy covering array of strength 2 over OPTIONS: every pair of values
    of every two options occurs in at least one row.  Deterministic; the seed
    rotates value and option order so that different seeds give different
    rows."""
    names = OPTION_NAMES[seed % len(OPTION_NAMES):] + OPTION_NAMES[: seed % len(OPTION_NAMES)]
    vals = {k: OPTIONS[k][(seed // 7) % len(OPTIONS[k]):] + OPTIONS[k][: (seed // 7) % len(OPTIONS[k])] for k in names}
    uncovered = set()
    for a, b in itertools.combinations(names, 2):
        for va in vals[a]:
            for vb in vals[b]:
                uncovered.add((a, va, b, vb))
    rows = []
    while uncovered:
        # start the row from an uncovered pair (the smallest in a fixed order)
        a, va, b, vb = min(uncovered, key=lambda p: (names.index(p[0]), vals[p[0]].index(p[1]),
                                                      names.index(p[2]), vals[p[2]].index(p[3])))
        row = {a: va, b: vb}
        for k in names:
            if k in row:
                continue
            best, best_gain = None, -1
            for v in vals[k]:
                gain = 0
                for k2, v2 in row.items():
                    p = (k, v, k2, v2) if names.index(k) < names.index(k2) else (k2, v2, k, v)
                    if p in uncovered:
                        gain += 1
                if gain > best_gain:
                    best, best_gain = v, gain
            row[k] = best
        for x, y in itertools.combinations(names, 2):
            uncovered.discard((x, row[x], y, row[y]))
        rows.append({k: row[k] for k in OPTION_NAMES})
    return rows


# --------------------------------------------------------------------------
# ISA (harness copy; used only to turn a Mach number into a true airspeed)


def isa_temperature(alt_m: float) -> float:
    return 288.15 - 0.0065 * alt_m if alt_m <= 11000.0 else 216.65


def speed_of_sound(alt_m: float) -> float:
    return math.sqrt(1.4 * 287.05287 * isa_temperature(alt_m))


# --------------------------------------------------------------------------
# builders: JSON description -> AEIC objects


def _tmv(values, mutable=False):
    from AEIC.performance.types import ThrustModeValues

    t = ThrustModeValues(*[float(v) for v in values])
    # mutable tables are what arithmetic on ThrustModeValues produces (e.g. `EI * 1.0`); same numbers
    return t.copy(mutable=True) if mutable else t


def build_fuel(d: dict):
    from AEIC.types import Fuel

    kw = dict(
        name=d.get('name', 'generated'),
        energy_MJ_per_kg=d['energy'],
        EI_H2O=d['EI_H2O'],
        EI_CO2=d['EI_CO2'],
        non_volatile_carbon_fraction=d.get('nvcf', 0.95),
        fuel_sulfur_content_nom=d['sulfur_ppm'],
        sulfate_yield_nom=d['sulfate_yield'],
    )
    if d.get('lifecycle') is not None:
        kw['lifecycle_CO2'] = d['lifecycle']
    return Fuel(**kw)


def build_lto(d: dict):
    from AEIC.performance.types import LTOPerformance

    # every other generated data set carries mutable tables (decided by the data itself, so replay is exact):
    # the inventory of a flight must not depend on, or change, the engine data it was given
    mut = int(round(d['ff'][0] * 1e6)) % 2 == 1
    return LTOPerformance(
        source='generated', ICAO_UID='GEN0001', rated_thrust=d.get('rated_thrust', 100.0) * 1000.0,
        thrust_pct=_tmv(d.get('thrust_pct', [7.0, 30.0, 85.0, 100.0])),
        fuel_flow=_tmv(d['ff'], mut), EI_NOx=_tmv(d['nox'], mut), EI_HC=_tmv(d['hc'], mut), EI_CO=_tmv(d['co'], mut),
    )


def build_edb(d: dict, lto: dict):
    from AEIC.performance.edb import EDBEntry

    return EDBEntry(
        engine=d.get('engine', 'Generated Engine'), uid=d.get('uid', 'GEN0001'),
        engine_type=d['engine_type'], BP_Ratio=float(d['bpr']), rated_thrust=100.0,
        fuel_flow=_tmv(lto['ff']), CO_EI_matrix=_tmv(lto['co']), HC_EI_matrix=_tmv(lto['hc']),
        EI_NOx_matrix=_tmv(lto['nox']), SN_matrix=_tmv(d['sn']),
        nvPM_mass_matrix=_tmv(d['nvpm_mass']), nvPM_num_matrix=_tmv(d['nvpm_num']),
        PR=_tmv([d['pr']] * 4), EImass_max=float(d['eimass_max']),
        EImass_max_thrust=float(d['eimass_max_thrust']), EInum_max=float(d['einum_max']),
        EInum_max_thrust=float(d['einum_max_thrust']),
    )


def build_apu(d):
    from AEIC.performance.apu import APU

    if d is None:
        return None
    if d == 'unknown':
        return APU.unknown('unknown APU')
    return APU(name='generated APU', defra='0000', fuel_kg_per_s=d['fuel'], NOx_g_per_kg=d['nox'],
               CO_g_per_kg=d['co'], HC_g_per_kg=d['hc'], PM10_g_per_kg=d['pm10'])


class StandInPM:
    """The duck-typed performance model the repository's own tests use
    (tests/test_emissions.py:DummyPerformanceModel): compute_emissions reads
    exactly lto, edb, apu, aircraft_class, number_of_engines."""

    def __init__(self, d: dict):
        from AEIC.types import AircraftClass

        self.lto = build_lto(d['lto'])
        self.edb = build_edb(d['edb'], d['lto'])
        self.apu = build_apu(d['apu'])
        self.aircraft_class = AircraftClass(d['aircraft_class'])
        self.number_of_engines = int(d['n_eng'])


_SAMPLE_PM_DATA = None
REAL_APU_NAMES = ['APU 131-9', 'APU GTCP30-54', 'APU GTCP 36-100', 'APU GTCP 331-350']


def sample_pm_data() -> dict:
    global _SAMPLE_PM_DATA
    if _SAMPLE_PM_DATA is None:
        p = core.REPO / 'src' / 'AEIC' / 'data' / 'performance' / 'sample_performance_model.toml'
        _SAMPLE_PM_DATA = tomllib.loads(p.read_text())
    return _SAMPLE_PM_DATA


def build_real_pm(d: dict):
    """A real LegacyPerformanceModel (sample table) whose LTO block, aircraft
    class, engine count and APU name come from the case.  The EDB entry is the
    one the model itself reads from the packaged workbook."""
    from AEIC.performance.models import PerformanceModel

    data = copy.deepcopy(sample_pm_data())
    lto = d['lto']
    tp = lto.get('thrust_pct', [7.0, 30.0, 85.0, 100.0])
    for i, m in enumerate(MODES):
        data['LTO_performance']['mode_data'][m] = {
            'thrust_frac': tp[i] / 100.0, 'fuel_kgs': lto['ff'][i], 'EI_NOx': lto['nox'][i],
            'EI_HC': lto['hc'][i], 'EI_CO': lto['co'][i],
        }
    data['aircraft_class'] = d['aircraft_class']
    data['number_of_engines'] = int(d['n_eng'])
    data.pop('APU_name', None)
    if d['apu'] is not None:
        data['APU_name'] = d['apu']  # a name: real APU database entry or an unknown name
    return PerformanceModel.from_data(data)


def pm_facts(pm) -> dict:
    """Plain numbers the oracle needs from the performance model *inputs*."""
    apu = pm.apu
    return {
        'lto_ff': [float(pm.lto.fuel_flow[m]) for m in _thrust_modes()],
        'apu_flow': None if apu is None else float(apu.fuel_kg_per_s),
        'aircraft_class': str(getattr(pm.aircraft_class, 'value', pm.aircraft_class)),
    }


def _thrust_modes():
    from AEIC.performance.types import ThrustMode

    return [ThrustMode(m) for m in MODES]


FF_LO_IDLE_FRACTION = 0.05
FF_HI_TAKEOFF_FACTOR = 1.5


def expand_traj(d: dict, pm_desc: dict | None = None) -> dict:
    """Synthetic trajectory description -> per-point lists.  Fuel mass is
    accumulated backwards from the reserve so that it is non-increasing by
    construction (x + b >= x for b >= 0 in IEEE arithmetic).

    Fuel flow is either absolute ('ff') or relative ('ff_u'): None = 0 kg/s
    (engine off; the emission-index fits treat flow <= 0 explicitly), u in
    [0,1] = all-engine flow between 5 % of the LTO idle flow and 1.5 x the LTO
    take-off flow.  (Positive flows orders of magnitude below idle are not a
    documented input of the log-log BFFM2 fits, which overflow there.)"""
    burn = [float(b) for b in d['burn']]  # burn[i] = fuel used on segment ending at point i+1
    reserve = float(d['reserve'])
    if d.get('int_kg'):
        # whole kilograms, held in an integer array by a trajectory-like object (see build_traj)
        burn = [float(round(b)) for b in burn]
        reserve = float(round(reserve))
    n = len(burn) + 1
    fm = [0.0] * n
    fm[-1] = reserve
    for i in range(n - 2, -1, -1):
        fm[i] = fm[i + 1] + burn[i]
    alt = [float(d['top_alt']) * float(f) for f in d['alt_frac']]
    tas = [float(m) * speed_of_sound(a) for m, a in zip(d['mach'], alt)]
    if 'ff' in d:
        ff = [float(x) for x in d['ff']]
    else:
        lto_ff = pm_desc['lto']['ff']
        lo = FF_LO_IDLE_FRACTION * lto_ff[0]
        hi = FF_HI_TAKEOFF_FACTOR * lto_ff[3]
        ne = int(pm_desc['n_eng'])
        ff = [0.0 if u is None else ne * (lo + float(u) * (hi - lo)) for u in d['ff_u']]
        for i, which in d.get('ff_boundary', []):
            # a sea-level, zero-speed point whose per-engine (= sea-level-static equivalent) flow sits exactly on a
            # thrust-category threshold (mid-point between two LTO calibration flows): both sides of the comparison
            # must use the same rule there
            i = i % n
            alt[i], tas[i] = 0.0, 0.0
            ff[i] = ne * ((lto_ff[which] + lto_ff[which + 1]) / 2.0)
    if not (len(alt) == len(tas) == len(ff) == n):
        raise core.HarnessError('inconsistent synthetic trajectory description')
    return {'fuel_mass': fm, 'altitude': alt, 'true_airspeed': tas, 'fuel_flow': ff, 'int_kg': bool(d.get('int_kg')),
            'n_climb': int(d['n_climb']), 'n_cruise': int(d['n_cruise']), 'n_descent': int(d['n_descent'])}


class DuckTrajectory:
    """A trajectory-like object of the kind the repository's own emission tests pass to compute_emissions (plain
    attributes, __len__).  Used for the `int_kg` class: a fuel-mass profile in whole kilograms held in an integer array,
    which a caller's own bookkeeping can produce and which the real Trajectory class would silently cast."""

    def __init__(self, x: dict):
        import numpy as np

        self.fuel_mass = np.array([int(v) for v in x['fuel_mass']], dtype=np.int64)
        self.altitude = np.array(x['altitude'], dtype=float)
        self.true_airspeed = np.array(x['true_airspeed'], dtype=float)
        self.fuel_flow = np.array(x['fuel_flow'], dtype=float)
        self.n_climb, self.n_cruise, self.n_descent = x['n_climb'], x['n_cruise'], x['n_descent']
        self.name = 'generated-int'

    def __len__(self):
        return len(self.fuel_mass)


def build_traj(x: dict):
    import numpy as np
    from AEIC.trajectories.trajectory import Trajectory

    if x.get('int_kg'):
        return DuckTrajectory(x)
    n = len(x['fuel_mass'])
    t = Trajectory(n, name='generated')
    t.fuel_mass = np.array(x['fuel_mass'], dtype=float)
    t.altitude = np.array(x['altitude'], dtype=float)
    t.true_airspeed = np.array(x['true_airspeed'], dtype=float)
    t.fuel_flow = np.array(x['fuel_flow'], dtype=float)
    t.n_climb = x['n_climb']
    t.n_cruise = x['n_cruise']
    t.n_descent = x['n_descent']
    return t


# ---- simulated trajectories (legacy builder, sample table, sample missions)

_SIM: dict = {}


def sample_pm():
    if 'pm' not in _SIM:
        from AEIC.performance.models import PerformanceModel

        core.load_config()
        _SIM['pm'] = PerformanceModel.load(
            core.REPO / 'src' / 'AEIC' / 'data' / 'performance' / 'sample_performance_model.toml')
    return _SIM['pm']


def sample_fuel():
    if 'fuel' not in _SIM:
        from AEIC.types import Fuel

        p = core.REPO / 'src' / 'AEIC' / 'data' / 'fuels' / 'conventional_jetA.toml'
        _SIM['fuel'] = Fuel.model_validate(tomllib.loads(p.read_text()))
    return _SIM['fuel']


N_SAMPLE_MISSIONS = 10


def simulated_traj(k: int):
    """Trajectory k of the packaged sample missions flown by the legacy builder
    with the sample performance table under the default configuration.
    Returns None when the simulation itself fails or yields an increasing fuel
    mass (C02's business; the precondition of C01 is then not met)."""
    key = ('traj', k)
    if key not in _SIM:
        import numpy as np
        import AEIC.trajectories.builders as tb
        from AEIC.missions import Mission

        pm = sample_pm()
        core.load_config()
        mp = core.REPO / 'src' / 'AEIC' / 'data' / 'missions' / 'sample_missions_10.toml'
        missions = Mission.from_toml(tomllib.loads(mp.read_text()))
        traj = None
        try:
            with contextlib.redirect_stdout(io.StringIO()):
                traj = tb.LegacyBuilder(options=tb.Options(iterate_mass=False)).fly(pm, missions[k % len(missions)])
            fm = np.asarray(traj.fuel_mass, dtype=float)
            ok = (
                len(traj) >= 2 and np.all(np.isfinite(fm)) and np.all(np.diff(fm) <= 0.0) and fm[-1] >= 0.0
                and np.all(np.isfinite(traj.altitude)) and np.all(np.isfinite(traj.true_airspeed))
                and np.all(np.isfinite(traj.fuel_flow)) and np.all(np.asarray(traj.fuel_flow) >= 0.0)
            )
            if not ok:
                traj = None
        except core.PASS_THROUGH:
            raise
        except Exception:  # noqa: BLE001  (simulation failures belong to C02/C17)
            traj = None
        _SIM[key] = traj
    return _SIM[key]


def traj_facts(traj) -> dict:
    return {
        'fuel_mass': [float(v) for v in traj.fuel_mass],
        'altitude': [float(v) for v in traj.altitude],
        'n': len(traj),
        'n_climb': int(traj.n_climb),
        'n_descent': int(traj.n_descent),
    }


def fuel_facts(fuel) -> dict:
    return {
        'EI_CO2': float(fuel.EI_CO2), 'EI_H2O': float(fuel.EI_H2O), 'energy': float(fuel.energy_MJ_per_kg),
        'lifecycle': None if fuel.lifecycle_CO2 is None else float(fuel.lifecycle_CO2),
    }


# --------------------------------------------------------------------------
# view of an Emissions value as plain Python data


def _f(x) -> float:
    return float(x)


def view_of(e) -> dict:
    from AEIC.types import Species

    def name(s):
        return Species(s).name

    def arr(sv):
        return {name(s): [_f(v) for v in sv[s]] for s in sv.keys()}

    def tmv(sv):
        return {name(s): {m.value: _f(sv[s][m]) for m in _thrust_modes()} for s in sv.keys()}

    def flt(sv):
        return {name(s): _f(sv[s]) for s in sv.keys()}

    lc = e.lifecycle_co2
    return {
        'traj_em': arr(e.trajectory_emissions), 'traj_idx': arr(e.trajectory_indices),
        'lto_em': tmv(e.lto_emissions), 'lto_idx': tmv(e.lto_indices),
        'apu_em': flt(e.apu_emissions), 'apu_idx': flt(e.apu_indices),
        'gse_em': flt(e.gse_emissions), 'total': flt(e.total_emissions),
        'fb': [_f(v) for v in e.fuel_burn_per_segment],
        'total_fuel_burn': _f(e.total_fuel_burn),
        'lifecycle_co2': 0.0 if lc is None else _f(lc),
    }


# --------------------------------------------------------------------------
# the balance oracle

WHERE = {
    'fuel': 'emission.compute_emissions',
    'traj': 'trajectory.get_trajectory_emissions',
    'lto': 'lto.get_LTO_emissions',
    'apu': 'apu.get_APU_emissions',
    'gse': 'gse.get_GSE_emissions',
    'total': 'emission.sum_total_emissions',
    'lifecycle': 'emission.get_lifecycle_emissions',
}


class Failure:
    """One discrepancy: (clause, kind, where, key) identify *what* is wrong
    (never the failing values); detail is for the human."""

    def __init__(self, clause, kind, where, key, detail, exc=None, group=None, suffix=''):
        self.clause, self.kind, self.where, self.key, self.detail, self.exc = clause, kind, where, key, detail, exc
        self.group, self.suffix = group, suffix  # set for clauses checked per species group

    @property
    def ident(self):
        return (self.clause, self.kind, self.where, self.key)

    @property
    def coarse(self):
        """Identity without the species group (per-species clauses)."""
        if self.group is not None:
            return (self.clause, self.kind, self.where, '*' + self.suffix)
        return self.ident

    def __repr__(self):
        return f'Failure{self.ident}: {self.detail[:200]}'


def _close(a: float, b: float, rel: float, scale: float | None = None) -> bool:
    if a == b:
        return True
    s = max(abs(a), abs(b)) if scale is None else scale
    # + a floor far below any physical amount: relative tolerances are
    # meaningless among subnormal numbers
    return abs(a - b) <= rel * s + 1e-290


def window_of(n: int, n_climb: int, n_descent: int, mode: str) -> range:
    """Trajectory points whose segment is accounted by the trajectory part."""
    if mode == 'trajectory':
        return range(0, n)
    lo = min(max(n_climb, 0), n)
    hi = min(max(n - n_descent, 0), n)
    return range(lo, max(lo, hi))


def lto_fuel_by_mode(lto_ff: list[float], mode: str) -> dict:
    out = {}
    for m, ff in zip(MODES, lto_ff):
        counted = mode == 'lto' or m in ('idle', 'takeoff')
        out[m] = TIM_MIN[m] * 60.0 * ff if counted else 0.0
    return out


REL_PROD = 1e-12
REL_SUM = 1e-9


def check_view(v: dict, tf: dict, ff: dict, pf: dict, cfg: dict, check_off: bool = False) -> list[Failure]:
    """Clauses 1-9 of DESIGN.md C01 (+ the switched-off clause of C11).
    v = view of the inventory; tf/ff/pf = facts of trajectory, fuel, performance model; cfg = options."""
    out: list[Failure] = []

    def fail(clause, comp, key, detail, kind='mismatch'):
        out.append(Failure(clause, kind, WHERE[comp], key, detail))

    def failg(clause, comp, group, suffix, detail):
        """A clause checked species by species: when it fails for several
        species groups in one case it is one failure ('multi'), not one per
        group (the group is then not the root cause)."""
        key = group + (f'.{suffix}' if suffix else '')
        out.append(Failure(clause, 'mismatch', WHERE[comp], key, detail, group=group, suffix=suffix))

    mode = cfg['climb_descent_mode']
    fm = tf['fuel_mass']
    n = tf['n']
    win = window_of(n, tf['n_climb'], tf['n_descent'], mode)
    inwin = set(win)

    # ---- 9 (first, so that NaNs do not cascade): finite and non-negative
    bad: set[tuple[str, str]] = set()  # (component, species)
    bad_reported: set[str] = set()

    def fin(comp, part, sp, values):
        for x in values:
            if not (math.isfinite(x) and x >= 0.0):
                if (comp, sp) not in bad:
                    bad.add((comp, sp))
                    kind = 'nonfinite' if not math.isfinite(x) else 'negative'
                    # one report per (component, species group, kind); the
                    # group's governing option value is part of the key
                    g = GROUP_OF.get(sp, sp)
                    opt = f'{g}_method' if f'{g}_method' in cfg else None
                    key = f'{comp}.{g}' + (f'[{cfg[opt]}]' if opt else '') + f'.{kind}'
                    if key not in bad_reported:
                        bad_reported.add(key)
                        fail('finite_nonneg', comp, key, f'{part}[{sp}] contains {x!r}')
                return

    for sp, xs in v['traj_idx'].items():
        fin('traj', 'trajectory_indices', sp, xs)
    for sp, xs in v['traj_em'].items():
        fin('traj', 'trajectory_emissions', sp, xs)
    for sp, d in v['lto_idx'].items():
        fin('lto', 'lto_indices', sp, d.values())
    for sp, d in v['lto_em'].items():
        fin('lto', 'lto_emissions', sp, d.values())
    for sp, x in v['apu_idx'].items():
        fin('apu', 'apu_indices', sp, [x])
    for sp, x in v['apu_em'].items():
        fin('apu', 'apu_emissions', sp, [x])
    for sp, x in v['gse_em'].items():
        fin('gse', 'gse_emissions', sp, [x])
    bad_any = {sp for _, sp in bad}
    for sp, x in v['total'].items():
        if sp not in bad_any:
            fin('total', 'total_emissions', sp, [x])
    fin('fuel', 'fuel_burn_per_segment', '-', v['fb'])
    fin('fuel', 'total_fuel_burn', '-', [v['total_fuel_burn']])
    fin('lifecycle', 'lifecycle_co2', '-', [v['lifecycle_co2']])

    # ---- 1: per-segment fuel burn, exact
    fb = [0.0] + [fm[i - 1] - fm[i] for i in range(1, n)]
    if len(v['fb']) != n or any(a != b for a, b in zip(v['fb'], fb)):
        fail('fuel.segments', 'fuel', 'fb', f'fuel_burn_per_segment differs from fuel_mass differences (len {len(v["fb"])} vs {n})')
        return out  # everything below is relative to fb
    fb_win = math.fsum(fb[i] for i in win)

    # ---- 2 and 3: trajectory part
    if set(v['traj_em']) != set(v['traj_idx']):
        fail('traj.keys', 'traj', 'keys', f'species of trajectory_emissions {sorted(v["traj_em"])} != trajectory_indices {sorted(v["traj_idx"])}')
    for sp in sorted(set(v['traj_em']) & set(v['traj_idx'])):
        em, idx = v['traj_em'][sp], v['traj_idx'][sp]
        if len(em) != n or len(idx) != n:
            failg('traj.length', 'traj', GROUP_OF[sp], '', f'{sp}: {len(em)}/{len(idx)} values for {n} points')
            continue
        if ('traj', sp) in bad:
            continue
        for i in range(n):
            want = idx[i] * fb[i]
            if not _close(em[i], want, REL_PROD):
                failg('traj.ei_times_fuel', 'traj', GROUP_OF[sp], '',
                     f'{sp}[{i}]: emission {em[i]!r} != index {idx[i]!r} x fuel {fb[i]!r} = {want!r} ({"inside" if i in inwin else "outside"} window)')
                break
        if mode == 'lto':
            for i in range(n):
                if i not in inwin and (idx[i] != 0.0 or em[i] != 0.0):
                    failg('traj.window_zero', 'traj', GROUP_OF[sp], '',
                         f'{sp}[{i}] outside window [{win.start},{win.stop}) of {n} points: index {idx[i]!r}, emission {em[i]!r}')
                    break

    # ---- 4: LTO part
    lto_fuel = lto_fuel_by_mode(pf['lto_ff'], mode)
    if set(v['lto_em']) != set(v['lto_idx']):
        fail('lto.keys', 'lto', 'keys', f'species of lto_emissions {sorted(v["lto_em"])} != lto_indices {sorted(v["lto_idx"])}')
    for sp in sorted(set(v['lto_em']) & set(v['lto_idx'])):
        if ('lto', sp) in bad:
            continue
        for m in MODES:
            want = v['lto_idx'][sp][m] * lto_fuel[m]
            if not _close(v['lto_em'][sp][m], want, REL_PROD):
                failg('lto.ei_times_fuel', 'lto', GROUP_OF[sp], m,
                     f'{sp}[{m}]: emission {v["lto_em"][sp][m]!r} != index {v["lto_idx"][sp][m]!r} x TIM fuel {lto_fuel[m]!r} (mode {mode})')
                break

    # ---- 5: total fuel burn
    apu_on = cfg['apu_enabled'] and pf['apu_flow'] is not None
    apu_fuel = APU_TIME_S * pf['apu_flow'] if apu_on else 0.0
    gse_fuel = 0.0
    if cfg['gse_enabled']:
        if 'CO2' not in v['gse_em']:
            fail('gse.missing', 'gse', 'CO2', 'gse_enabled but gse_emissions has no CO2')
        else:
            gse_fuel = v['gse_em']['CO2'] / ff['EI_CO2']
    elif v['gse_em']:
        fail('gse.disabled', 'gse', 'present', f'gse disabled but gse_emissions = {sorted(v["gse_em"])}')
    if not apu_on and v['apu_em']:
        fail('apu.disabled', 'apu', 'present', f'APU disabled/absent but apu_emissions = {sorted(v["apu_em"])}')
    if apu_on and not v['apu_em']:
        fail('apu.missing', 'apu', 'absent', 'APU enabled and present but apu_emissions is empty')
    parts = [fb_win, math.fsum(lto_fuel.values()), apu_fuel, gse_fuel]
    want = math.fsum(parts)
    if math.isfinite(v['total_fuel_burn']) and not _close(v['total_fuel_burn'], want, REL_SUM):
        # which component explains the difference?
        diff = v['total_fuel_burn'] - want
        expl = 'other'
        for nm, p in zip(['trajectory', 'lto', 'apu', 'gse'], parts):
            if p != 0.0 and _close(-diff, p, 1e-6):
                expl = f'{nm}_missing'
            if p != 0.0 and _close(diff, p, 1e-6):
                expl = f'{nm}_twice'
        fail('fuel.total', 'fuel', expl,
             f'total_fuel_burn {v["total_fuel_burn"]!r} != trajectory {fb_win!r} + LTO {parts[1]!r} + APU {apu_fuel!r} + GSE {gse_fuel!r} = {want!r}')

    # APU part: emission = index x (900 s x flow)
    if apu_on:
        for sp in sorted(set(v['apu_em']) & set(v['apu_idx'])):
            if ('apu', sp) in bad:
                continue
            want = v['apu_idx'][sp] * apu_fuel
            if not _close(v['apu_em'][sp], want, REL_PROD):
                failg('apu.ei_times_fuel', 'apu', GROUP_OF[sp], '', f'{sp}: emission {v["apu_em"][sp]!r} != index {v["apu_idx"][sp]!r} x fuel {apu_fuel!r}')

    # ---- lifecycle value
    lc_on = cfg['lifecycle_enabled'] and cfg['co2_enabled']
    lc = v['lifecycle_co2']
    lc_want = None
    if ff['lifecycle'] is not None:
        lc_want = ff['lifecycle'] * ff['energy'] * (fm[0] - fm[-1])
    if not cfg['lifecycle_enabled']:
        if lc != 0.0:
            fail('lifecycle.off', 'lifecycle', 'nonzero', f'lifecycle disabled but lifecycle_co2 = {lc!r}')
    elif lc_on:
        if lc_want is not None and not _close(lc, lc_want, REL_SUM):
            fail('lifecycle.value', 'lifecycle', 'value', f'lifecycle_co2 {lc!r} != {ff["lifecycle"]} g/MJ x {ff["energy"]} MJ/kg x {fm[0] - fm[-1]!r} kg = {lc_want!r}')
    else:  # lifecycle on, CO2 off: the documentation is silent -> zero or the formula
        if lc != 0.0 and not (lc_want is not None and _close(lc, lc_want, REL_SUM)):
            fail('lifecycle.value', 'lifecycle', 'value_co2_off', f'lifecycle_co2 {lc!r} is neither 0 nor {lc_want!r}')

    # ---- 6: totals
    present = set(v['traj_em']) | set(v['lto_em']) | set(v['apu_em']) | set(v['gse_em'])
    for sp in sorted(present - set(v['total'])):
        failg('total.missing', 'total', GROUP_OF[sp], '', f'{sp} has component amounts but no total')
    for sp in sorted(v['total']):
        if sp in bad_any:
            continue
        ps = []
        if sp in v['traj_em']:
            ps.append(('trajectory', math.fsum(v['traj_em'][sp])))
        if sp in v['lto_em']:
            ps.append(('lto', math.fsum(v['lto_em'][sp].values())))
        if sp in v['apu_em']:
            ps.append(('apu', v['apu_em'][sp]))
        if sp in v['gse_em']:
            ps.append(('gse', v['gse_em'][sp]))
        if sp == 'CO2':
            ps.append(('lifecycle', lc))
        want = math.fsum(p for _, p in ps)
        scale = math.fsum(abs(p) for _, p in ps)
        if not _close(v['total'][sp], want, REL_SUM, scale if scale > 0 else None):
            diff = v['total'][sp] - want
            expl = 'other'
            for nm, p in ps:
                if p != 0.0 and _close(-diff, p, 1e-6):
                    expl = f'{nm}_missing'
                if p != 0.0 and _close(diff, p, 1e-6):
                    expl = f'{nm}_twice'
            failg('total.sum', 'total', GROUP_OF[sp], expl,
                 f'total[{sp}] {v["total"][sp]!r} != ' + ' + '.join(f'{nm} {p!r}' for nm, p in ps) + f' = {want!r}')

    # ---- 7: every kilogram counted once (CO2, H2O)
    fuel_counted = math.fsum([fb_win, math.fsum(lto_fuel.values())])
    for sp, ei, on in (('CO2', ff['EI_CO2'], cfg['co2_enabled']), ('H2O', ff['EI_H2O'], cfg['h2o_enabled'])):
        if not on:
            continue
        if sp not in v['traj_em'] or sp not in v['lto_em']:
            fail('counted_once.missing', 'traj' if sp not in v['traj_em'] else 'lto', sp, f'{sp} enabled but absent from the trajectory or LTO part')
            continue
        if ('traj', sp) in bad or ('lto', sp) in bad:
            continue
        got = math.fsum([math.fsum(v['traj_em'][sp]), math.fsum(v['lto_em'][sp].values())])
        want = ei * fuel_counted
        if not _close(got, want, REL_SUM):
            fail('counted_once', 'traj', f'{sp}.{mode}',
                 f'trajectory+LTO {sp} {got!r} != EI {ei!r} x (trajectory fuel {fb_win!r} + LTO fuel {math.fsum(lto_fuel.values())!r}) = {want!r}')

    # ---- 8: speciation in every component
    def spec(clause, parent, children):
        def chk(comp, label, get):
            p = get(parent)
            if p is None or (comp, parent) in bad or any((comp, c) in bad for c in children):
                return
            s = math.fsum((get(c) or 0.0) for c in children)
            if not _close(s, p, REL_SUM):
                fail(clause, comp, comp, f'{label}: {"+".join(children)} = {s!r} != {parent} = {p!r}')
                return True

        if parent in v['traj_em']:
            for part in ('traj_em', 'traj_idx'):
                for i in range(n):
                    if chk('traj', f'{part}[{i}]', lambda s, part=part, i=i: v[part][s][i] if s in v[part] else None):
                        break
        for part in ('lto_em', 'lto_idx'):
            for m in MODES:
                if chk('lto', f'{part}[{m}]', lambda s, part=part, m=m: v[part][s][m] if s in v[part] else None):
                    break
        chk('apu', 'apu_emissions', lambda s: v['apu_em'].get(s))
        chk('apu', 'apu_indices', lambda s: v['apu_idx'].get(s))
        chk('gse', 'gse_emissions', lambda s: v['gse_em'].get(s))
        if not (bad_any & ({parent} | set(children))):
            chk('total', 'total_emissions', lambda s: v['total'].get(s))

    spec('speciation.nox', 'NOx', NOX_CHILDREN)
    spec('speciation.sox', 'SOx', SOX_CHILDREN)

    # ---- C11: a switched-off species contributes nothing to trajectory and LTO parts
    if check_off:
        for g in switched_off_groups(cfg):
            for sp in GROUPS[g]:
                for part, comp in (('traj_em', 'traj'), ('traj_idx', 'traj'), ('lto_em', 'lto'), ('lto_idx', 'lto')):
                    if sp in v[part]:
                        xs = v[part][sp] if comp == 'traj' else list(v[part][sp].values())
                        if any(x != 0.0 for x in xs):
                            fail('switched_off', comp, f'{g}.{comp}', f'{sp} is switched off ({g}) but {part}[{sp}] has non-zero values')
                            break
    return _collapse(out)


def _collapse(fs: list[Failure]) -> list[Failure]:
    buckets: dict = {}
    for f in fs:
        if f.group is not None:
            buckets.setdefault((f.clause, f.where, f.suffix), []).append(f)
    out, done = [], set()
    for f in fs:
        if f.group is None:
            out.append(f)
            continue
        b = (f.clause, f.where, f.suffix)
        groups = sorted({x.group for x in buckets[b]})
        if len(groups) == 1:
            if (b, f.group) not in done:
                done.add((b, f.group))
                out.append(f)
        elif b not in done:
            done.add(b)
            key = 'multi' + (f'.{f.suffix}' if f.suffix else '')
            out.append(Failure(f.clause, f.kind, f.where, key, f'[groups {",".join(groups)}] {f.detail}',
                               group='multi', suffix=f.suffix))
    return out


# --------------------------------------------------------------------------
# running the code under test


class Inputs:
    """Real objects + the plain facts the oracle uses."""

    def __init__(self, pm, fuel, traj):
        self.pm, self.fuel, self.traj = pm, fuel, traj
        self.tf, self.ff, self.pf = traj_facts(traj), fuel_facts(fuel), pm_facts(pm)


def clear_caches():
    from AEIC.emissions.ei.nox import NOx_speciation
    from AEIC.emissions.ei.pmnvol import calculate_PMnvolEI_scope11
    from AEIC.emissions.utils import scope11_profile

    for f in (NOx_speciation, calculate_PMnvolEI_scope11, scope11_profile):
        if hasattr(f, 'cache_clear'):
            f.cache_clear()


def frame_where(exc: BaseException) -> str:
    """Innermost AEIC function in the traceback that is not a container
    dunder method (SpeciesValues.__getitem__ etc. are not root causes)."""
    from pathlib import Path

    tb = exc.__traceback__
    best = '?'
    src = str(core.REPO / 'src' / 'AEIC')
    while tb is not None:
        code = tb.tb_frame.f_code
        if code.co_filename.startswith(src) and not code.co_name.startswith('__'):
            best = f'{Path(code.co_filename).stem}.{code.co_name}'
        tb = tb.tb_next
    return best


class Outcome:
    def __init__(self, kind, failures, exc=None, view=None, reason=''):
        self.kind = kind  # 'value' | 'refused' | 'error'
        self.reason = reason  # for 'refused': 'method' | 'lifecycle'
        self.failures: list[Failure] = failures
        self.exc = exc
        self.view = view


def names_method(exc: BaseException, cfg: dict) -> str | None:
    """The method option whose configured value the refusal message names."""
    msg = str(exc).lower()
    for k in METHOD_OPTIONS:
        val = str(cfg[k]).lower()
        if val != 'none' and val in msg:
            return k
    return None


def evaluate(inp: Inputs, cfg: dict, check_off: bool = False, reload: bool = True) -> Outcome:
    """Load cfg through Config.load (the real validation path), run
    compute_emissions once and classify."""
    import traceback

    from AEIC.emissions import compute_emissions

    if reload:
        core.load_config(emissions=dict(cfg))
        clear_caches()
    try:
        with contextlib.redirect_stdout(io.StringIO()):
            e = compute_emissions(inp.pm, inp.fuel, inp.traj)
    except core.PASS_THROUGH:
        raise
    except Exception as exc:  # noqa: BLE001  (classified, never turned into a pass)
        tbtxt = ''.join(traceback.format_exception(type(exc), exc, exc.__traceback__)[-5:])
        if isinstance(exc, (NotImplementedError, ValueError)) and names_method(exc, cfg) is not None:
            return Outcome('refused', [], exc, reason='method')
        if (
            isinstance(exc, RuntimeError) and 'lifecycle' in str(exc).lower() and inp.ff['lifecycle'] is None
            and cfg['lifecycle_enabled'] and cfg['co2_enabled']
        ):
            # explicit refusal: the fuel has no life-cycle value
            return Outcome('refused', [], exc, reason='lifecycle')
        kind = type(exc).__name__
        clause = 'refusal_unnamed' if isinstance(exc, (NotImplementedError, ValueError)) else 'internal_error'
        return Outcome('error', [Failure(clause, kind, frame_where(exc), '', f'{exc!r}\n{tbtxt}', exc)], exc)
    try:
        v = view_of(e)
    except core.PASS_THROUGH:
        raise
    except Exception as exc:  # noqa: BLE001
        return Outcome('error', [Failure('malformed_inventory', type(exc).__name__, 'emission.compute_emissions', '',
                                         f'returned value cannot be read: {exc!r}', exc)], exc)
    out = Outcome('value', check_view(v, inp.tf, inp.ff, inp.pf, cfg, check_off), None, v)
    out.obj = e  # the inventory object itself: a result is a value, later calls must not change it
    return out


def minimal_assignment(inp: Inputs, cfg: dict, f: Failure, check_off: bool, memo: dict | None = None):
    """Root-cause discriminator: reset options to their defaults one at a time
    while the failure persists; what remains is a minimal option assignment
    that triggers it ('defaults' = triggered by the data alone).  Returns
    (assignment string, failure key observed under the minimal assignment).

    Persistence is judged on the *coarse* identity (clause, kind, place, and
    for per-species clauses the mode/explanation but not the species group),
    so that switching species back on does not count as "failure gone".
    For a failure observed on a returned inventory, a trial that is refused or
    crashes for another reason (e.g. lifecycle switched back on for a fuel
    without life-cycle value) is inconclusive: that option is left out of the
    discriminator.  For a crash, a trial ending differently counts as "gone"."""
    d = DEFAULTS()
    coarse = f.coarse
    error_level = f.clause in ('internal_error', 'refusal_unnamed', 'malformed_inventory')
    unknowable: set[str] = set()
    if memo is not None:
        for keys, vals, key in memo.get(coarse, []):
            if all(cfg[k] == x for k, x in zip(keys, vals)):
                return assignment_str(dict(zip(keys, vals)), keys), key
    cur = dict(cfg)
    key = f.key
    changed = True
    while changed:
        changed = False
        for k in OPTION_NAMES:
            if cur[k] == d[k]:
                continue
            trial = dict(cur)
            trial[k] = d[k]
            o = evaluate(inp, trial, check_off)
            same = [g for g in o.failures if g.coarse == coarse]
            if same:
                cur = trial
                key = same[0].key
                changed = True
                unknowable.discard(k)
            elif o.kind != 'value' and not error_level:
                # the trial was refused or crashed for another reason: a
                # value-level failure cannot be judged under it
                unknowable.add(k)
    keys = tuple(k for k in OPTION_NAMES if cur[k] != d[k] and k not in unknowable)
    if memo is not None:
        memo.setdefault(coarse, []).append((keys, tuple(cur[k] for k in keys), key))
    return assignment_str(cur, keys), key


def report(ctx, inp: Inputs, cfg: dict, outcome: Outcome, check_off: bool, enumerated: bool,
           memo: dict | None = None, limit: int = 4) -> int:
    """Report the failures of one case through ctx.fail with root-cause
    discriminators.  In Hypothesis mode ctx.fail raises for an unknown
    signature; in enumerated mode the violation is recorded and enumeration
    continues.  Returns the number of failures (known or not)."""
    seen = set()
    nrep = 0
    for f in outcome.failures:
        if f.coarse in seen:
            continue
        seen.add(f.coarse)
        if nrep >= limit:
            break
        nrep += 1
        assign, key = minimal_assignment(inp, cfg, f, check_off, memo)
        disc = f'{key}|{assign}' if key else assign
        if enumerated:
            sig = f'{ctx.pid}:{f.clause}:{f.kind}:{f.where}:{disc}'
            if sig in ctx.session_seen:
                ctx.extra['repeat_violation_hits'] = ctx.extra.get('repeat_violation_hits', 0) + 1
                continue
            try:
                ctx.fail(f.clause, f.kind, f.where, disc, f.detail)
            except core.Violation:
                ctx.record_violation()
        else:
            ctx.fail(f.clause, f.kind, f.where, disc, f.detail)
    return nrep


# --------------------------------------------------------------------------
# oracle self-test (hand-computed numbers; the oracle did not produce them)


def _selftest_view():
    """A hand-made balanced inventory: 5 points, fuel mass 100,90,90,70,65;
    window [1,4) in lto mode; LTO flows 0.25,0.5,0.9,1.2 kg/s -> TIM fuel
    390, 120, 118.8, 50.4 kg; APU 0.03 kg/s -> 27 kg; GSE CO2 18000 g with
    EI_CO2 3000 -> 6 kg."""
    fb = [0.0, 10.0, 0.0, 20.0, 5.0]
    z = lambda xs: [0.0] + xs + [0.0]  # noqa: E731
    ti = {'CO2': z([3000.0] * 3), 'H2O': z([1200.0] * 3), 'NOx': z([10.0, 12.0, 8.0]),
          'NO': z([9.0, 10.8, 7.2]), 'NO2': z([0.9, 1.08, 0.72]), 'HONO': z([0.1, 0.12, 0.08])}
    te = {s: [a * b for a, b in zip(x, fb)] for s, x in ti.items()}
    lf = {'idle': 390.0, 'approach': 120.0, 'climb': 118.8, 'takeoff': 50.4}
    li = {'CO2': dict.fromkeys(MODES, 3000.0), 'H2O': dict.fromkeys(MODES, 1200.0),
          'NOx': {'idle': 4.0, 'approach': 8.0, 'climb': 16.0, 'takeoff': 20.0}}
    li['NO'] = {m: x * 0.5 for m, x in li['NOx'].items()}
    li['NO2'] = {m: x * 0.25 for m, x in li['NOx'].items()}
    li['HONO'] = {m: x * 0.25 for m, x in li['NOx'].items()}
    le = {s: {m: x * lf[m] for m, x in d.items()} for s, d in li.items()}
    ai = {'CO2': 3100.0, 'H2O': 1200.0, 'NOx': 6.0, 'NO': 3.0, 'NO2': 2.0, 'HONO': 1.0}
    ae = {s: x * 27.0 for s, x in ai.items()}
    ge = {'CO2': 18000.0, 'H2O': 7200.0, 'NOx': 400.0, 'NO': 360.0, 'NO2': 36.0, 'HONO': 4.0}
    lc = 80.0 * 43.0 * 35.0  # g/MJ x MJ/kg x (100-65) kg
    tot = {}
    for s in ti:
        tot[s] = sum(te[s]) + sum(le[s].values()) + ae[s] + ge[s] + (lc if s == 'CO2' else 0.0)
    v = {'traj_em': te, 'traj_idx': ti, 'lto_em': le, 'lto_idx': li, 'apu_em': ae, 'apu_idx': ai, 'gse_em': ge,
         'total': tot, 'fb': fb, 'total_fuel_burn': 30.0 + 679.2 + 27.0 + 6.0, 'lifecycle_co2': lc}
    tf = {'fuel_mass': [100.0, 90.0, 90.0, 70.0, 65.0], 'altitude': [0.0] * 5, 'n': 5, 'n_climb': 1, 'n_descent': 1}
    ff = {'EI_CO2': 3000.0, 'EI_H2O': 1200.0, 'energy': 43.0, 'lifecycle': 80.0}
    pf = {'lto_ff': [0.25, 0.5, 0.9, 1.2], 'apu_flow': 0.03, 'aircraft_class': 'narrow'}
    cfg = dict(DEFAULTS())
    cfg['climb_descent_mode'] = 'lto'
    return v, tf, ff, pf, cfg


def selftest():
    v, tf, ff, pf, cfg = _selftest_view()
    fs = check_view(v, tf, ff, pf, cfg, check_off=True)
    if fs:
        raise core.HarnessError(f'oracle self-test: balanced hand-made inventory rejected: {fs}')
    # total fuel: trajectory window 10+0+20 = 30 (the 5 kg descent segment is LTO's)
    if window_of(5, 1, 1, 'lto') != range(1, 4) or window_of(5, 1, 1, 'trajectory') != range(0, 5):
        raise core.HarnessError('oracle self-test: window')
    if window_of(5, 3, 3, 'lto') != range(3, 3) or len(window_of(4, 0, 4, 'lto')) != 0:
        raise core.HarnessError('oracle self-test: empty window')

    def expect(mutate, clause):
        w = copy.deepcopy(v)
        c = dict(cfg)
        mutate(w, c)
        got = {f.clause for f in check_view(w, tf, ff, pf, c, check_off=True)}
        if clause not in got:
            raise core.HarnessError(f'oracle self-test: perturbation expected to trip {clause!r}, got {sorted(got)}')

    expect(lambda w, c: w['fb'].__setitem__(1, 10.000000001), 'fuel.segments')
    expect(lambda w, c: w['traj_em']['CO2'].__setitem__(3, 60000.1), 'traj.ei_times_fuel')
    expect(lambda w, c: w['traj_idx']['H2O'].__setitem__(4, 1200.0), 'traj.window_zero')
    expect(lambda w, c: w['traj_em']['H2O'].__setitem__(4, 6000.0), 'traj.window_zero')
    expect(lambda w, c: w['lto_em']['NOx'].__setitem__('climb', 16.0 * 118.9), 'lto.ei_times_fuel')
    expect(lambda w, c: c.__setitem__('climb_descent_mode', 'trajectory'), 'lto.ei_times_fuel')
    expect(lambda w, c: w.__setitem__('total_fuel_burn', 30.0 + 679.2 + 6.0), 'fuel.total')
    expect(lambda w, c: w['total'].__setitem__('NOx', w['total']['NOx'] - 400.0), 'total.sum')
    expect(lambda w, c: w['total'].__setitem__('CO2', w['total']['CO2'] * (1 + 1e-7)), 'total.sum')
    expect(lambda w, c: w.__setitem__('lifecycle_co2', 1.0), 'lifecycle.value')
    expect(lambda w, c: w['gse_em'].__setitem__('NO2', 32.0), 'speciation.nox')
    expect(lambda w, c: w['apu_em'].__setitem__('HONO', float('nan')), 'finite_nonneg')
    expect(lambda w, c: w['lto_idx']['NO'].__setitem__('idle', -2.0), 'finite_nonneg')
    expect(lambda w, c: c.__setitem__('h2o_enabled', False), 'switched_off')

    def drop_window(w, c):
        # CO2 index/emission forgotten on one in-window segment: each product
        # still matches, but a kilogram is not counted
        w['traj_idx']['CO2'][3] = 0.0
        w['traj_em']['CO2'][3] = 0.0
        w['total']['CO2'] -= 60000.0

    expect(drop_window, 'counted_once')
    rows = pairwise_array(1)
    for a, b in itertools.combinations(OPTION_NAMES, 2):
        need = {(x, y) for x in OPTIONS[a] for y in OPTIONS[b]}
        have = {(r[a], r[b]) for r in rows}
        if need - have:
            raise core.HarnessError(f'pairwise array misses {a} x {b}: {need - have}')
    for i in (0, 1, 777, N_CONFIGS - 1):
        if index_from_config(config_from_index(i)) != i:
            raise core.HarnessError('config index round trip')
    if N_CONFIGS != 41472:
        raise core.HarnessError(f'option product has {N_CONFIGS} members, expected 41472')


# --------------------------------------------------------------------------
# Hypothesis strategies (JSON case descriptions)


def st_config(foa3_pmnvol_weight: int = 1):
    """All 12 options; defaults first so that shrinking moves to the default."""
    from hypothesis import strategies as st

    d = DEFAULTS()
    parts = {}
    for k in OPTION_NAMES:
        vals = [d[k]] + [v for v in OPTIONS[k] if v != d[k]]
        parts[k] = st.sampled_from(vals)
    return st.fixed_dictionaries(parts)


def _pos(lo, hi):
    from hypothesis import strategies as st

    return st.floats(lo, hi, allow_nan=False, allow_infinity=False)


def st_fuel():
    from hypothesis import strategies as st

    return st.fixed_dictionaries({
        'energy': _pos(40.0, 46.0), 'EI_H2O': _pos(1000.0, 1400.0), 'EI_CO2': _pos(2000.0, 3300.0),
        'nvcf': _pos(0.9, 1.0), 'sulfur_ppm': st.one_of(st.just(0.0), _pos(0.0, 3000.0)),
        'sulfate_yield': st.one_of(st.just(0.0), _pos(0.0, 0.1)),
        'lifecycle': st.one_of(st.none(), _pos(0.0, 120.0), _pos(20.0, 100.0), _pos(1.0, 120.0)),
    })


def st_lto():
    """Four LTO modes.  Fuel flows strictly increasing idle < approach < climb
    < take-off by at least 30 % (every engine certification data set is so
    ordered; the BFFM2/HC-CO fits divide by differences of their logarithms),
    or with exactly equal neighbours (the case the code documents and the
    repository tests exercise).  Emission indices strictly positive (the fits
    take their logarithms)."""
    from hypothesis import strategies as st

    @st.composite
    def ffs(draw):
        base = draw(_pos(0.02, 0.6))
        steps = [draw(_pos(1.3, 4.0)) for _ in range(3)]
        eq = draw(st.sampled_from([None, None, None, 0, 1, 2]))
        out = [base]
        for i, s in enumerate(steps):
            out.append(out[-1] if eq == i else out[-1] * s)
        return out

    ei = lambda lo, hi: st.lists(_pos(lo, hi), min_size=4, max_size=4)  # noqa: E731
    return st.fixed_dictionaries({'ff': ffs(), 'nox': ei(0.5, 60.0), 'hc': ei(0.01, 100.0), 'co': ei(0.01, 200.0)})


def st_edb():
    from hypothesis import strategies as st

    sn = st.lists(st.one_of(st.just(-1.0), st.just(0.0), _pos(0.1, 45.0)), min_size=4, max_size=4)
    mass = st.one_of(st.lists(_pos(0.1, 500.0), min_size=4, max_size=4),
                     st.lists(st.one_of(st.just(-1.0), _pos(0.1, 500.0)), min_size=4, max_size=4),
                     st.just([-1.0] * 4))
    num = st.one_of(st.lists(_pos(1e12, 1e16), min_size=4, max_size=4),
                    st.lists(st.one_of(st.just(-1.0), _pos(1e12, 1e16)), min_size=4, max_size=4),
                    st.just([-1.0] * 4))
    mt = st.sampled_from([-1.0, 0.575, 0.925])
    return st.fixed_dictionaries({
        'engine_type': st.sampled_from(['TF', 'MTF', 'TP']), 'bpr': _pos(0.0, 12.0), 'sn': sn,
        'nvpm_mass': mass, 'nvpm_num': num, 'pr': _pos(1.5, 60.0),
        'eimass_max': _pos(0.1, 600.0), 'eimass_max_thrust': mt, 'einum_max': _pos(1e12, 2e16), 'einum_max_thrust': mt,
    })


def st_apu():
    """None, the zero-fuel 'unknown' APU, or values within 3x of APU_data.toml."""
    from hypothesis import strategies as st

    gen = st.fixed_dictionaries({'fuel': _pos(0.003, 0.33), 'nox': _pos(0.0, 34.0), 'co': _pos(0.0, 109.0),
                                 'hc': _pos(0.0, 13.0), 'pm10': _pos(0.0, 0.5)})
    return st.one_of(st.none(), st.just('unknown'), gen, gen, gen, gen)


def st_pm():
    from hypothesis import strategies as st

    @st.composite
    def pm(draw):
        d = {'real': False, 'lto': draw(st_lto()),
             'aircraft_class': draw(st.sampled_from(['wide', 'narrow', 'small', 'freight'])),
             'n_eng': draw(st.integers(1, 4)), 'edb': draw(st_edb()), 'apu': draw(st_apu())}
        # decided last so that a failing case shrinks to the stand-in
        if draw(st.integers(0, 9)) == 9:
            d['real'] = True
            del d['edb']
            d['apu'] = draw(st.sampled_from([None, 'no such APU'] + REAL_APU_NAMES))
        return d

    return pm()


def st_synthetic_traj():
    from hypothesis import strategies as st

    @st.composite
    def traj(draw):
        # one tuple per point (burn of the segment ending at the point,
        # altitude fraction, Mach, relative fuel flow); the length is that of
        # the list, so shrinking can delete points
        point = st.tuples(
            st.one_of(st.just(0.0), _pos(1.0, 2000.0), _pos(1e-3, 50.0), _pos(0.0, 2000.0)),
            _pos(0.0, 1.0), _pos(0.0, 0.95),
            st.one_of(st.none(), _pos(0.0, 1.0), _pos(0.0, 0.2)),
        )
        size = draw(st.integers(0, 19))
        pts = draw(st.lists(point, min_size=2, max_size=400 if size == 19 else (12 if size < 12 else 40)))
        n = len(pts)
        burn = [p[0] for p in pts[1:]]
        frac = [p[1] for p in pts]
        mach = [p[2] for p in pts]
        ff_u = [p[3] for p in pts]
        reserve = draw(st.one_of(st.just(0.0), _pos(0.0, 20000.0)))
        top = draw(st.one_of(_pos(4000.0, 25000.0), _pos(9000.0, 13000.0), _pos(11000.0, 25000.0), _pos(100.0, 4000.0),
                              st.sampled_from([0.0, 11000.0, 25000.0])))
        shape = draw(st.sampled_from(['random', 'updown', 'level']))
        if shape == 'level':
            frac = [frac[0]] * n
        elif shape == 'updown':
            k = draw(st.integers(0, n))
            frac = sorted(frac[:k]) + sorted(frac[k:], reverse=True)
        # phase split: required phases only (all builders leave the optional
        # phases at 0); counts are numbers of points, so they sum to n, or to
        # n-1 (the legacy builder's convention).
        total = n - 1 if draw(st.booleans()) else n
        kind = draw(st.sampled_from(['any', 'any', 'no_climb', 'no_descent', 'no_cruise', 'cruise_only']))
        if kind == 'cruise_only':
            nc, nd = 0, 0
        elif kind == 'no_cruise':
            nc = draw(st.integers(0, total))
            nd = total - nc
        else:
            nc = 0 if kind == 'no_climb' else draw(st.integers(0, total))
            nd = 0 if kind == 'no_descent' else draw(st.integers(0, total - nc))
        out = {'burn': burn, 'reserve': reserve, 'top_alt': top, 'alt_frac': frac, 'mach': mach, 'ff_u': ff_u,
               'n_climb': nc, 'n_cruise': total - nc - nd, 'n_descent': nd}
        if draw(st.integers(0, 7)) == 0:
            out['int_kg'] = True
        if draw(st.integers(0, 4)) == 0:
            out['ff_boundary'] = [[draw(st.integers(0, n - 1)), draw(st.integers(0, 1))]]
        return out

    return traj()


def st_case():
    from hypothesis import strategies as st

    @st.composite
    def case(draw):
        cfg = draw(st_config())
        sim = draw(st.integers(0, 5)) == 5
        if sim:
            traj = {'simulated': draw(st.integers(0, N_SAMPLE_MISSIONS - 1))}
            pm = {'sample': True} if draw(st.booleans()) else draw(st_pm())
        else:
            traj = draw(st_synthetic_traj())
            pm = draw(st_pm())
        fuel = {'sample': True} if draw(st.integers(0, 7)) == 7 else draw(st_fuel())
        return {'cfg': cfg, 'traj': traj, 'pm': pm, 'fuel': fuel}

    return case()


def build_inputs(case: dict) -> Inputs | None:
    """Case description -> Inputs (None when a simulated trajectory is not
    available on this tree)."""
    t = case['traj']
    if 'simulated' in t:
        traj = simulated_traj(t['simulated'])
        if traj is None:
            return None
    else:
        traj = build_traj(expand_traj(t, case['pm']))
    p = case['pm']
    if p.get('sample'):
        pm = sample_pm()
    elif p.get('real'):
        core.load_config()
        pm = build_real_pm(p)
        _ = pm.edb, pm.lto  # read the workbook under the default configuration
    else:
        pm = StandInPM(p)
    fuel = sample_fuel() if case['fuel'].get('sample') else build_fuel(case['fuel'])
    return Inputs(pm, fuel, traj)
