"""C19 — BADA-3 fuel-burn integration keeps mass, thrust and fuel flow consistent.

Differential property test of `AEIC.BADA.model.Bada3FuelBurnModel` (always
built from the library's own `Bada3AircraftParameters`) against an independent
*scalar* re-implementation of the BADA-3 equations written from the user
manual (3.2-1, 3.6-1/2/5, 3.7-1/2/3/4/8/9/10/11/12, 3.9-1/2/3/6/7/9) plus the
iteration scheme stated in the docstrings (trapezoid of fuel-per-metre,
early exit when the free end of the mass vector moves by < 0.01 %).

Order inside one case (bottom-up, so that the innermost root cause names the
signature): engine-model point functions -> aerodynamic point functions ->
calculate_thrust -> fuel flow / specific ground range -> one of the four
`iterate_flight_simulation_*` variants (differential + invariants).

Step 0 (before any generated case): a fixed probe per engine type that simply
calls the engine model with the library's parameter object.  If that raises
(the pinned tree subscripts a dataclass that has no `__getitem__`), the
defect is reported under clause `params.access` and the check stops, because
nothing behind it is reachable.
"""

from __future__ import annotations

import math

from hypothesis import strategies as st

from .. import core

SHARDED = True

# ---- physical constants of the reference (ISA / BADA user manual) ----------
G0 = 9.80665
R_AIR = 287.05287
T0 = 288.15
P0 = 101325.0
LAPSE = 0.0065
H_TROP = 11000.0
# Unit conversions: the rounded factors the library documents in AEIC/units.py
# (3.28084 ft/m, 0.514444 m/s per knot).  They differ from the exact values by
# 3e-8 / 9e-7 relative, far above the comparison tolerance, so the reference
# has to use the same published factors; the self-test checks them against
# the exact definitions to 1e-5.
M2FT = 3.28084
MPS2KT = 1.0 / 0.514444

RTOL = 1e-9

ENGINES = ('Jet', 'Turboprop', 'Piston')
ENVELOPE = {
    # vmin/vmax TAS [m/s], ceiling [m], longest flight [m]
    'Jet': dict(vmin=60.0, vmax=260.0, ceil=13000.0, rng=6.0e6),
    'Turboprop': dict(vmin=45.0, vmax=160.0, ceil=9000.0, rng=1.8e6),
    'Piston': dict(vmin=25.0, vmax=90.0, ceil=5000.0, rng=0.9e6),
}
VARIANTS = ('init', 'final', 'rf_fraction', 'rf_value')
W_ITER_FD = 'model.iterate_flight_simulation_fuel_burn_dependent_initial_mass'


# ===========================================================================
# reference implementation (plain Python floats, one point at a time)


def isa_temperature(h: float) -> float:
    return T0 - LAPSE * (h if h <= H_TROP else H_TROP)


def isa_pressure(h: float) -> float:
    expo = G0 / (LAPSE * R_AIR)
    if h <= H_TROP:
        return P0 * (isa_temperature(h) / T0) ** expo
    t11 = isa_temperature(H_TROP)
    p11 = P0 * (t11 / T0) ** expo
    return p11 * math.exp(-G0 / (R_AIR * t11) * (h - H_TROP))


class Ref:
    """BADA-3 equations for one aircraft.  `piston_per_min` selects the oracle
    variant that predicts the defective behaviour 'piston C_f1 [kg/min] used
    as kg/s' (only ever switched on after that defect was reported)."""

    def __init__(self, engine: str, p: dict, piston_per_min: bool = False):
        self.engine = engine
        self.p = p
        self.piston_per_min = piston_per_min

    # --- 3.7-1/2/3: maximum climb thrust, ISA.  Returns (value, scale)
    def max_climb_isa(self, h: float, v: float):
        p = self.p
        hf = h * M2FT
        vk = v * MPS2KT
        if self.engine == 'Jet':
            terms = (1.0, -hf / p['c_tc2'], p['c_tc3'] * hf * hf)
            val = p['c_tc1'] * (terms[0] + terms[1] + terms[2])
            scale = abs(p['c_tc1']) * sum(abs(t) for t in terms)
        elif self.engine == 'Turboprop':
            a = p['c_tc1'] / vk * (1.0 - hf / p['c_tc2'])
            val = a + p['c_tc3']
            scale = abs(p['c_tc1'] / vk) * (1.0 + abs(hf / p['c_tc2'])) + abs(p['c_tc3'])
        else:
            a = p['c_tc1'] * (1.0 - hf / p['c_tc2'])
            b = p['c_tc3'] / vk
            val = a + b
            scale = abs(p['c_tc1']) * (1.0 + abs(hf / p['c_tc2'])) + abs(b)
        return val, scale

    # --- 3.7-4: temperature correction
    def temp_factor(self, h: float, temp: float):
        p = self.p
        dt_eff = (temp - isa_temperature(h)) - p['c_tc4']
        x = dt_eff * max(0.0, p['c_tc5'])
        if x < 0.0:
            return 1.0, 'clip_lo'
        if x > 0.4:
            return 0.6, 'clip_hi'
        return 1.0 - x, 'linear' if x > 0.0 else 'clip_lo'

    def max_climb(self, h, v, temp):
        val, scale = self.max_climb_isa(h, v)
        f, _ = self.temp_factor(h, temp)
        return val * f, scale

    # --- 3.2-1 with 3.6-1/2/5
    def aero(self, m, h, v, temp):
        p = self.p
        rho = isa_pressure(h) / (R_AIR * temp)
        cl = 2.0 * m * G0 / (rho * p['S_ref'] * v * v)
        cd = p['c_d0cr'] + p['c_d2cr'] * cl * cl
        drag = 0.5 * rho * v * v * p['S_ref'] * cd
        return rho, cl, cd, drag

    def thrust(self, m, temp, h, v, rocd, acc, cruise):
        """Returns dict(value, te, max, des, regime, branch, scale, ambiguous)."""
        p = self.p
        _, _, _, drag = self.aero(m, h, v, temp)
        inert = m * (G0 * rocd / v + acc)
        te = drag + inert
        tscale = abs(drag) + abs(inert)
        mc, mscale = self.max_climb(h, v, temp)
        tmax = mc * p['c_tcr'] if cruise else mc
        high = h * M2FT > p['h_p_des']
        des = (p['c_tdes_high'] if high else p['c_tdes_low']) * mc
        eps = 1e-9 * (tscale + mscale)
        ambiguous = abs(te - tmax) <= eps or abs(te) <= eps or abs(tmax) <= eps
        val, regime = te, 'unlimited'
        if val > tmax:
            val, regime = tmax, ('limited_cruise' if cruise else 'limited_climb')
        if val < 0.0:
            val = des
            regime = 'negative_above_hpdes' if high else 'negative_below_hpdes'
        return dict(value=val, te=te, max=tmax, des=des, regime=regime, scale=tscale + mscale,
                    ambiguous=ambiguous, drag=drag)

    # --- 3.9-1/2: thrust specific fuel consumption [kg/(N s)]
    def sfc(self, v: float) -> float:
        p = self.p
        vk = v * MPS2KT
        if self.engine == 'Jet':
            eta = p['c_f1'] * (1.0 + vk / p['c_f2'])  # kg/(min kN)
        elif self.engine == 'Turboprop':
            eta = p['c_f1'] * (1.0 - vk / p['c_f2']) * (vk / 1000.0)
        else:
            raise ValueError('no TSFC for piston engines')
        return eta / 60.0 / 1000.0

    # --- 3.9-3/6/7/9: fuel flow [kg/s]
    def fuel_flow(self, thrust: float, v: float, cruise) -> float:
        p = self.p
        if self.engine == 'Piston':
            f = p['c_f1'] if self.piston_per_min else p['c_f1'] / 60.0  # C_f1 is kg/min
        else:
            f = self.sfc(v) * thrust
        return f * p['c_fcr'] if cruise else f


class Profile:
    """Flight profile as plain lists; temperature = ISA(alt) + dT."""

    def __init__(self, case):
        pts = case['points']
        env = ENVELOPE[case['engine']]
        ceil = min(env['ceil'], 0.8 * case['params']['c_tc2'] / M2FT)
        self.n = len(pts)
        self.alt, self.tas, self.rocd, self.acc, self.cr, self.gs, self.temp = [], [], [], [], [], [], []
        hp_m = case['params']['h_p_des'] / M2FT
        for (regime, fa, fv, fr, acc, flag, fg) in pts:
            if regime == 'hpdes':  # right around the descent-thrust switch altitude
                h = min(max(hp_m + (fa - 0.5) * 4.0, 0.0), env['ceil'])
            else:
                h = fa * ceil
            v = env['vmin'] + fv * (env['vmax'] - env['vmin'])
            if regime == 'climb':
                r = fr * 0.15 * v
            elif regime in ('descent', 'hpdes'):
                r = -fr * 0.15 * v
            elif regime == 'cruise':
                r, acc = 0.0, 0.0
            else:
                r = (2.0 * fr - 1.0) * 0.15 * v
            self.alt.append(h)
            self.tas.append(v)
            self.rocd.append(r)
            self.acc.append(acc)
            self.cr.append(bool(flag))
            g = v * fg
            gd = case.get('gs_dtype', 'f8')
            if gd == 'f4':  # ground speeds as read from single-precision data: exactly representable there
                import numpy as _np

                g = float(_np.float32(g))
            elif gd == 'i8':  # whole metres per second held in an integer array
                g = float(max(1, round(g)))
            self.gs.append(g)
            self.temp.append(isa_temperature(h) + case['dT'])
        for name in case.get('scalar_inputs', []):
            lst = {'temperature': self.temp, 'rocd': self.rocd, 'acceleration': self.acc, 'in_cruise': self.cr}[name]
            lst[:] = [lst[0]] * self.n
        seg = case['seg']
        if isinstance(seg, list):
            dmax = max(2000.0, env['rng'] / (self.n - 1))
            self.d = [1000.0 + f * (dmax - 1000.0) for f in seg]
            self.d_is_array = True
        else:
            dmax = max(2000.0, env['rng'] / (self.n - 1))
            self.d = [1000.0 + seg * (dmax - 1000.0)] * (self.n - 1)
            self.d_is_array = False


class Degenerate(Exception):
    """The reference met a point outside the domain of the mass clauses
    (non-positive fuel flow / SGR < 1) or too close to a branch to call."""


def per_metre(ref: Ref, prof: Profile, mass, stats=None):
    """Fuel burnt per metre of ground track at every point, for the mass list."""
    q = []
    for i in range(prof.n):
        t = ref.thrust(mass[i], prof.temp[i], prof.alt[i], prof.tas[i], prof.rocd[i], prof.acc[i], prof.cr[i])
        if t['ambiguous']:
            raise Degenerate('ambiguous')
        ff = ref.fuel_flow(t['value'], prof.tas[i], prof.cr[i])
        if not ff > 0.0 or prof.gs[i] / ff < 1.0 + 1e-9:
            raise Degenerate('nonpositive_ff_or_sgr_lt_1')
        if stats is not None:
            stats.add(t['regime'])
        q.append(ff / prof.gs[i])
    return q


def integrate_forward(m0, q, d):
    m = [m0]
    for i in range(len(d)):
        m.append(m[-1] - 0.5 * (q[i] + q[i + 1]) * d[i])
    return m


def integrate_backward(mf, q, d, dx_not_reversed=False):
    n = len(q)
    m = [0.0] * n
    m[-1] = mf
    for i in range(n - 2, -1, -1):
        di = d[n - 2 - i] if dx_not_reversed else d[i]
        m[i] = m[i + 1] + 0.5 * (q[i] + q[i + 1]) * di
    return m


def ref_iterate(ref: Ref, prof: Profile, case, scheme='overwrite', dx_not_reversed=False):
    """The iteration scheme of the docstrings.  Returns dict(mass, q, info).

    constant initial/final mass: n_iter integrations in total, leaving early
    when the free end moved by < 0.01 % between two consecutive integrations.
    fuel-dependent initial mass: one integration from the estimate, then up to
    n_iter times {integrate; m0 := min(OEW + MPL*LF + burn + reserve, MTOW)}.
    scheme 'overwrite' = only element 0 is replaced by the new m0 (what the
    code does); 'shift' = the whole vector is moved to start at the new m0 (a
    consistent alternative that a repair may choose)."""
    variant = case['variant']
    n_iter = case['n_iter']
    stats = set()
    info = dict(early_exit=False, cap_binds=False, passes=0, stats=stats)
    d = prof.d
    if variant in ('init', 'final'):
        fixed = case['mass']
        mass = [fixed] * prof.n
        old_free = None
        q = None
        for k in range(n_iter if n_iter >= 1 else 1):
            q = per_metre(ref, prof, mass, stats)
            if variant == 'init':
                mass = integrate_forward(fixed, q, d)
                free = mass[-1]
            else:
                mass = integrate_backward(fixed, q, d, dx_not_reversed)
                free = mass[0]
            info['passes'] += 1
            if old_free is not None:
                pct = abs(free - old_free) / old_free * 100.0
                if abs(pct - 0.01) <= 1e-7:
                    raise Degenerate('ambiguous_exit')
                if pct < 0.01:
                    info['early_exit'] = True
                    break
            old_free = free
        return dict(mass=mass, q=q, info=info)
    fd = case['fd']
    m0 = fd['estimate']
    mass = [m0] * prof.n
    q = per_metre(ref, prof, mass, stats)
    mass = integrate_forward(m0, q, d)
    info['passes'] = 1
    old_final = mass[-1]
    for k in range(n_iter):
        q = per_metre(ref, prof, mass, stats)
        mass = integrate_forward(mass[0], q, d)
        info['passes'] += 1
        burn = mass[0] - mass[-1]
        if variant == 'rf_fraction':
            want = fd['oew'] + fd['mpl'] * fd['lf'] + burn * (1.0 + fd['reserve'])
        else:
            want = fd['oew'] + fd['mpl'] * fd['lf'] + burn + fd['reserve']
        new0 = min(want, fd['mtow'])
        if want > fd['mtow']:
            info['cap_binds'] = True
        info['m0_integrated'] = mass[0]
        if scheme == 'overwrite':
            mass[0] = new0
        else:
            delta = new0 - mass[0]
            mass = [x + delta for x in mass]
        pct = abs(mass[-1] - old_final) / old_final * 100.0
        if abs(pct - 0.01) <= 1e-7:
            raise Degenerate('ambiguous_exit')
        if pct < 0.01:
            info['early_exit'] = True
            break
        old_final = mass[-1]
    return dict(mass=mass, q=q, info=info)


# ===========================================================================
# self-test of the reference against values it did not produce


def self_test():
    def chk(name, got, want, rtol):
        if not abs(got - want) <= rtol * abs(want):
            raise core.HarnessError(f'C19 reference self-test failed: {name}: got {got!r}, want {want!r}')

    # ICAO standard atmosphere table values (Doc 7488): T [K], p [Pa]
    chk('T(5000)', isa_temperature(5000.0), 255.650, 1e-6)
    chk('T(11000)', isa_temperature(11000.0), 216.650, 1e-6)
    chk('T(13000)', isa_temperature(13000.0), 216.650, 1e-6)
    chk('p(5000)', isa_pressure(5000.0), 54019.9, 2e-5)
    chk('p(11000)', isa_pressure(11000.0), 22632.0, 2e-5)
    chk('p(13000)', isa_pressure(13000.0), 16510.0, 5e-4)  # 22632*exp(-0.31538)
    chk('rho(0)', isa_pressure(0.0) / (R_AIR * isa_temperature(0.0)), 1.2250, 1e-5)
    chk('ft/m', M2FT, 1.0 / 0.3048, 1e-5)
    chk('kt per m/s', MPS2KT, 3600.0 / 1852.0, 1e-5)
    # hand-worked BADA numbers (A320-like coefficients, worked with a pocket calculator)
    p = dict(c_tc1=136050.0, c_tc2=52238.0, c_tc3=2.6637e-11, c_tc4=10.29, c_tc5=0.0058453, c_tcr=0.95,
             c_tdes_low=0.10847, c_tdes_high=0.13603, h_p_des=29831.0, c_f1=0.94, c_f2=50000.0, c_fcr=1.06,
             c_d0cr=0.024, c_d2cr=0.0375, S_ref=122.6)
    r = Ref('Jet', p)
    chk('jet max climb @0', r.max_climb_isa(0.0, 100.0)[0], 136050.0, 1e-12)
    # 30000 ft: 136050*(1 - 30000/52238 + 2.6637e-11*9e8) = 136050*(1-0.574294+0.0239733) = 61179.9
    chk('jet max climb @30000ft', r.max_climb_isa(30000.0 / M2FT, 230.0)[0], 61179.9, 2e-5)
    # ISA+20 at sea level: dTeff = 9.71, factor = 1-9.71*0.0058453 = 0.943242
    chk('temp factor', r.temp_factor(0.0, 308.15)[0], 0.943242, 1e-5)
    chk('temp factor clip low', r.temp_factor(0.0, 288.15)[0], 1.0, 0.0)
    # level unaccelerated flight: thrust = drag; lift = weight
    rho, cl, cd, drag = r.aero(60000.0, 0.0, 150.0, 288.15)
    chk('lift=weight', 0.5 * rho * 150.0**2 * 122.6 * cl, 60000.0 * G0, 1e-12)
    # q = 0.5*1.225*22500 = 13781.25; qS = 1689581.25; cl = 588399/1689581.25 = 0.348251; cd = 0.024+0.0375*0.121279=0.0285480
    chk('cl', cl, 0.348251, 1e-5)
    chk('drag', drag, 48234.1, 1e-4)
    t = r.thrust(60000.0, 288.15, 0.0, 150.0, 0.0, 0.0, False)
    chk('level thrust = drag', t['value'], drag, 1e-12)
    # climb 10 m/s: + 60000*9.80665*10/150 = 39226.6 -> 87460.7 < 136050
    t = r.thrust(60000.0, 288.15, 0.0, 150.0, 10.0, 0.0, False)
    chk('climb thrust', t['value'], 87460.7, 1e-4)
    t = r.thrust(60000.0, 288.15, 0.0, 150.0, 25.0, 0.3, False)
    chk('limited thrust', t['value'], 136050.0, 1e-12)
    t = r.thrust(60000.0, 288.15, 0.0, 150.0, 25.0, 0.3, True)
    chk('limited cruise thrust', t['value'], 136050.0 * 0.95, 1e-12)
    t = r.thrust(60000.0, 288.15, 0.0, 150.0, -15.0, 0.0, False)
    chk('descent thrust low', t['value'], 0.10847 * 136050.0, 1e-12)
    # jet TSFC at 150 m/s = 291.577 kt: 0.94*(1+291.577/50000)/60000 = 1.575803e-5
    chk('jet sfc', r.sfc(150.0), 1.575803e-5, 1e-5)
    chk('jet cruise ff', r.fuel_flow(50000.0, 150.0, True), 1.575803e-5 * 50000.0 * 1.06, 1e-5)
    rt = Ref('Turboprop', dict(p, c_tc1=3.0e6, c_tc2=40000.0, c_tc3=500.0, c_f1=0.5, c_f2=600.0))
    # 100 m/s = 194.384 kt at 10000 ft: 3e6/194.384*(0.75)+500 = 12074.9
    chk('tp max climb', rt.max_climb_isa(10000.0 / M2FT, 100.0)[0], 12074.9, 2e-5)
    # eta = 0.5*(1-194.384/600)*0.194384 = 0.0657044 kg/(min kN)
    chk('tp sfc', rt.sfc(100.0), 0.0657044 / 60000.0, 2e-5)
    rp = Ref('Piston', dict(p, c_tc1=3000.0, c_tc2=20000.0, c_tc3=40000.0, c_f1=0.6, c_fcr=0.8))
    # 50 m/s = 97.192 kt at 5000 ft: 3000*0.75 + 40000/97.192 = 2661.56
    chk('piston max climb', rp.max_climb_isa(5000.0 / M2FT, 50.0)[0], 2661.56, 2e-5)
    chk('piston ff', rp.fuel_flow(123.0, 50.0, False), 0.01, 1e-12)  # 0.6 kg/min
    chk('piston cruise ff', rp.fuel_flow(123.0, 50.0, True), 0.008, 1e-12)
    # closed form for the integration: piston fuel flow does not depend on thrust
    case = dict(engine='Piston', params=dict(p, c_tc1=3000.0, c_tc2=20000.0, c_tc3=40000.0, c_f1=0.6, c_fcr=0.8),
                points=[['climb', 0.1, 0.5, 0.2, 0.0, 0, 1.0], ['cruise', 0.5, 0.5, 0.0, 0.0, 1, 1.0],
                        ['descent', 0.1, 0.5, 0.2, 0.0, 0, 1.0]],
                dT=0.0, seg=0.0, variant='init', mass=1000.0, n_iter=3)
    prof = Profile(case)
    gs = prof.gs[0]  # 57.5 m/s at all three points, 1000 m segments
    out = ref_iterate(rp, prof, case)
    chk('closed form m1', out['mass'][1], 1000.0 - 0.5 * (0.01 + 0.008) / gs * 1000.0, 1e-12)
    chk('closed form m2', out['mass'][2], 1000.0 - (0.01 + 0.008) / gs * 1000.0, 1e-12)
    case['variant'] = 'final'
    out = ref_iterate(rp, prof, case)
    chk('closed form backward m0', out['mass'][0], 1000.0 + (0.01 + 0.008) / gs * 1000.0, 1e-12)


# ===========================================================================
# strategies (cases are plain JSON data)


def U(a, b):
    return st.floats(a, b, allow_nan=False, allow_infinity=False)


F01 = U(0.0, 1.0)


@st.composite
def params_st(draw, engine):
    env = ENVELOPE[engine]
    p = {'engine_type': engine, 'ac_type': 'X' + engine[:3].upper()}
    if engine == 'Jet':
        mtow = draw(U(5.0e3, 4.5e5))
        p['S_ref'] = mtow / draw(U(300.0, 750.0))
        p['c_tc1'] = draw(U(0.2, 0.4)) * mtow * G0
        p['c_tc2'] = draw(U(30000.0, 90000.0))
        p['c_tc3'] = draw(U(0.0, 1.2e-10))
        p['c_f1'] = draw(U(0.3, 1.2))
        p['c_f2'] = draw(st.one_of(U(200.0, 2000.0), U(2000.0, 1.0e6)))
    elif engine == 'Turboprop':
        mtow = draw(U(3.0e3, 7.0e4))
        p['S_ref'] = mtow / draw(U(150.0, 450.0))
        p['c_tc1'] = draw(U(0.15, 0.35)) * mtow * G0 * 200.0
        p['c_tc2'] = draw(U(20000.0, 60000.0))
        p['c_tc3'] = draw(U(-0.01, 0.05)) * mtow * G0
        p['c_f1'] = draw(U(0.2, 5.0))
        p['c_f2'] = draw(U(400.0, 6000.0))
    else:
        mtow = draw(U(600.0, 4000.0))
        p['S_ref'] = mtow / draw(U(50.0, 150.0))
        p['c_tc1'] = draw(U(0.1, 0.3)) * mtow * G0
        p['c_tc2'] = draw(U(12000.0, 45000.0))
        p['c_tc3'] = draw(U(0.0, 5.0)) * mtow * G0
        p['c_f1'] = draw(U(0.1, 2.5))
        p['c_f2'] = 0.0
    p['c_f3'] = draw(U(0.0, 20.0))
    p['c_f4'] = draw(U(1.0e4, 1.0e5))
    p['c_fcr'] = draw(U(0.7, 1.1))
    p['c_tc4'] = draw(U(-5.0, 15.0))
    p['c_tc5'] = draw(st.one_of(U(0.0, 0.012), U(-0.005, 0.03)))
    if draw(st.integers(0, 2)) > 0:
        p['c_tcr'] = draw(U(0.8, 1.0))
    p['c_tdes_low'] = draw(U(0.01, 0.15))
    p['c_tdes_high'] = draw(U(0.02, 0.25))
    p['c_tdes_app'] = draw(U(0.05, 0.3))
    p['c_tdes_ld'] = draw(U(0.1, 0.5))
    ceil_ft = min(env['ceil'], 0.8 * p['c_tc2'] / M2FT) * M2FT
    p['h_p_des'] = draw(U(0.1, 1.2)) * ceil_ft
    p['c_d0cr'] = draw(U(0.015, 0.04))
    p['c_d2cr'] = draw(U(0.02, 0.08))
    p['max_mass'] = mtow
    p['min_mass'] = draw(U(0.45, 0.6)) * mtow
    p['ref_mass'] = 0.5 * (p['min_mass'] + mtow)
    p['max_payload'] = draw(U(0.15, 0.35)) * mtow
    return p


REGIMES = ['cruise', 'climb', 'descent', 'free', 'free', 'hpdes', 'climb', 'descent']
# Three small integers per point (bit fields below) instead of eight float
# draws: generation cost was dominating the run.  Each range stays below 2**24
# because Hypothesis draws wider integer ranges with a strong bias towards
# small values, which would starve the high bit fields.  The case stores the
# decoded point, so replay does not depend on this encoding.
POINT = st.tuples(st.integers(0, 2**21 - 1), st.integers(0, 2**19 - 1), st.integers(0, 2**16 - 1))


def decode_point(xs):
    x, y, z = xs
    regime = REGIMES[x & 7]
    fa = ((x >> 3) & 1023) / 1023.0
    fv = ((x >> 13) & 255) / 255.0
    fr = (y & 255) / 255.0
    a = (y >> 8) & 255
    acc = 0.0 if a < 64 else (a - 64) / 191.0 - 0.5
    die = (y >> 16) & 7
    g = z & 255
    fg = 1.0 if g == 0 else 0.6 + 0.8 * (g - 1) / 254.0
    fs = ((z >> 8) & 255) / 255.0
    return regime, fa, fv, fr, acc, die, fg, fs


@st.composite
def case_st(draw):
    engine = draw(st.sampled_from(ENGINES))
    params = draw(params_st(engine))
    n = draw(st.one_of(st.integers(2, 6), st.integers(2, 14), st.integers(2, 14), st.integers(15, 80)))
    raw = draw(st.lists(POINT, min_size=n, max_size=n))
    points = []
    segs = []
    for x in raw:
        regime, fa, fv, fr, acc, die, fg, fs = decode_point(x)
        flag = (die != 0) if regime == 'cruise' else (die == 0)
        if regime == 'free':
            flag = die < 4
        points.append([regime, fa, fv, fr, acc, int(flag), fg])
        segs.append(fs)
    case = {
        'engine': engine,
        'params': params,
        'build': draw(st.sampled_from(['fromdict', 'ctor'])),
        'points': points,
        'dT': draw(st.one_of(st.sampled_from([0.0, 20.0, -20.0]), U(-20.0, 20.0))),
        'seg': segs[0] if draw(st.booleans()) else segs[1:],
        'flag_enc': draw(st.sampled_from(['bool', 'bool', 'float', 'int'])),
        'gs_dtype': draw(st.sampled_from(['f8', 'f8', 'f8', 'f4', 'i8'])),
        'scalar_inputs': draw(st.one_of(
            st.just([]), st.just([]), st.just([]), st.just([]),
            st.lists(st.sampled_from(['temperature', 'rocd', 'acceleration', 'in_cruise']), unique=True, max_size=4))),
        'variant': draw(st.sampled_from(VARIANTS)),
        'n_iter': draw(st.one_of(st.integers(1, 12), st.integers(3, 12), st.sampled_from([1, 2, 10]))),
    }
    mtow = params['max_mass']
    if case['variant'] in ('init', 'final'):
        case['mass'] = params['min_mass'] + draw(F01) * (mtow - params['min_mass'])
    else:
        oew = draw(U(0.85, 1.0)) * params['min_mass']
        fd = {
            'mtow': mtow,
            'oew': oew,
            'mpl': params['max_payload'],
            'lf': draw(st.one_of(F01, st.sampled_from([0.0, 1.0]))),
            'estimate': oew + draw(F01) * (mtow - oew),
        }
        if case['variant'] == 'rf_fraction':
            fd['reserve'] = draw(U(0.0, 0.3))
        else:
            fd['reserve'] = draw(U(0.0, 0.08)) * mtow
        case['fd'] = fd
    return case


# ===========================================================================
# the check


def build_model(case):
    from AEIC.BADA.aircraft_parameters import Bada3AircraftParameters
    from AEIC.BADA.model import Bada3FuelBurnModel

    raw = dict(case['params'])
    if case.get('build', 'fromdict') == 'ctor':
        ap = Bada3AircraftParameters(**raw)
    else:
        ap = Bada3AircraftParameters()
        ap.assign_parameters_fromdict(raw)
    # the parameter set the reference sees is what the library object holds
    # (so the dataclass default of c_tcr is the library's, not ours)
    eff = {k: getattr(ap, k) for k in ('c_tc1', 'c_tc2', 'c_tc3', 'c_tc4', 'c_tc5', 'c_tcr', 'c_tdes_low',
                                       'c_tdes_high', 'c_tdes_app', 'c_tdes_ld', 'h_p_des', 'c_f1', 'c_f2', 'c_fcr',
                                       'c_d0cr', 'c_d2cr', 'S_ref')}
    if eff['c_tcr'] is None:
        raise core.HarnessError('c_tcr unset on the library parameter object')
    return ap, Bada3FuelBurnModel(ap), eff


def close(a, b, scale=0.0, rtol=RTOL):
    return abs(a - b) <= rtol * max(abs(a), abs(b), scale)


class Checker:
    def __init__(self, ctx, case):
        import numpy as np

        self.np = np
        self.ctx = ctx
        self.case = case
        self.engine = case['engine']
        self.ap, self.model, self.eff = build_model(case)
        self.ref = Ref(self.engine, self.eff)
        self.prof = Profile(case)
        self.stop = False  # set when a known finding makes the rest of the case meaningless

    # ---- inputs as the library wants them
    def arrays(self):
        np, prof, case = self.np, self.prof, self.case
        enc = case.get('flag_enc', 'bool')
        flags = np.array(prof.cr, dtype={'bool': bool, 'float': float, 'int': np.int64}[enc])
        a = dict(
            temperature=np.array(prof.temp, dtype=float),
            altitude=np.array(prof.alt, dtype=float),
            v_tas=np.array(prof.tas, dtype=float),
            rocd=np.array(prof.rocd, dtype=float),
            acceleration=np.array(prof.acc, dtype=float),
            in_cruise=flags,
            groundspeed=np.array(prof.gs, dtype=float).astype({'f8': float, 'f4': np.float32, 'i8': np.int64}[case.get('gs_dtype', 'f8')]),
        )
        for name in case.get('scalar_inputs', []):
            v = a[name][0]
            a[name] = bool(v) if name == 'in_cruise' and enc == 'bool' else (int(v) if name == 'in_cruise' and enc == 'int' else float(v))
        return a

    def vec(self, x):
        """Library result -> list of n floats (scalars broadcast)."""
        np = self.np
        arr = np.broadcast_to(np.asarray(x, dtype=float), (self.prof.n,))
        return [float(v) for v in arr]

    clause_prefix = ''

    def fail(self, clause, where, disc, detail):
        """True if this is a listed known finding (caller decides how to go on)."""
        self.ctx.fail(self.clause_prefix + clause, 'mismatch', where, disc, detail, self.case)
        return True

    def call(self, clause, fn, *a, **k):
        try:
            return fn(*a, **k)
        except core.PASS_THROUGH:
            raise
        except Exception as e:  # noqa: BLE001 - any exception of the code under test is a finding
            disc = 'params_not_subscriptable' if (isinstance(e, TypeError) and 'not subscriptable' in str(e)) else self.engine
            self.ctx.fail_exc(clause, e, disc, self.case)
            self.stop = True
            return None

    def compare(self, clause, where, disc, got, want, scales, what):
        """Element-wise comparison of a library vector with reference values."""
        if len(got) != len(want):
            self.fail(clause, where, disc, f'{what}: length {len(got)} != {len(want)}')
            self.stop = True
            return False
        for i, (g, w, s) in enumerate(zip(got, want, scales)):
            if not (math.isfinite(g) and close(g, w, s)):
                self.fail(clause, where, disc, f'{what}[{i}]: library {g!r}, reference {w!r} (point {self.point(i)})')
                self.stop = True
                return False
        return True

    def point(self, i):
        p = self.prof
        return dict(alt=p.alt[i], tas=p.tas[i], rocd=p.rocd[i], acc=p.acc[i], cruise=p.cr[i], gs=p.gs[i], T=p.temp[i])

    # ---- level 1: point functions
    def pointwise(self):
        np, prof, ref, em, model, eng = self.np, self.prof, self.ref, self.model.engine_model, self.model, self.engine
        ctx = self.ctx
        n = prof.n
        a = self.arrays()
        alt, tas, temp = a['altitude'], a['v_tas'], np.array(prof.temp, dtype=float)
        zero = [0.0] * n
        # probe masses: spread between 100 % and 80 % of the case's reference mass
        m_hi = self.case['mass'] if 'mass' in self.case else self.case['fd']['estimate']
        masses = [m_hi * (1.0 - 0.2 * i / (n - 1)) for i in range(n)]
        marr = np.array(masses)

        # engine model, bottom-up
        isa = [ref.max_climb_isa(prof.alt[i], prof.tas[i]) for i in range(n)]
        got = self.call('thrust.max_climb_isa', em.calculate_max_climb_thrust_isa, alt, tas)
        if self.stop or not self.compare('thrust.max_climb_isa', 'model.calculate_max_climb_thrust_isa', eng,
                                         self.vec(got), [x[0] for x in isa], [x[1] for x in isa], 'max climb thrust ISA'):
            return
        mc = [ref.max_climb(prof.alt[i], prof.tas[i], prof.temp[i]) for i in range(n)]
        for i in range(n):
            ctx.label('tempcorr:' + ref.temp_factor(prof.alt[i], prof.temp[i])[1])
        got = self.call('thrust.max_climb_temperature', em.calculate_max_climb_thrust, alt, tas, temp)
        if self.stop or not self.compare('thrust.max_climb_temperature', 'model.calculate_max_climb_thrust', 'eq3.7-4',
                                         self.vec(got), [x[0] for x in mc], [x[1] for x in mc], 'max climb thrust'):
            return
        mcs = [x[1] for x in mc]
        for clause, fn, coef in (
            ('thrust.max_cruise', em.calculate_max_cruise_thrust, 'c_tcr'),
            ('thrust.descent_high', em.calculate_descent_thrust_high, 'c_tdes_high'),
            ('thrust.descent_low', em.calculate_descent_thrust_low, 'c_tdes_low'),
            ('thrust.descent_app', em.calculate_descent_thrust_app, 'c_tdes_app'),
            ('thrust.descent_land', em.calculate_descent_thrust_land, 'c_tdes_ld'),
        ):
            got = self.call(clause, fn, alt, tas, temp)
            if self.stop or not self.compare(clause, 'model.' + fn.__name__, coef, self.vec(got),
                                             [x[0] * self.eff[coef] for x in mc], mcs, clause):
                return

        # aerodynamics and total-energy thrust
        aero = [ref.aero(masses[i], prof.alt[i], prof.tas[i], prof.temp[i]) for i in range(n)]
        rho = np.array([x[0] for x in aero])
        got = self.call('aero.cl', model.calculate_cl, marr, rho, tas)
        if self.stop or not self.compare('aero.cl', 'model.calculate_cl', 'eq3.6-1', self.vec(got), [x[1] for x in aero], zero, 'CL'):
            return
        got = self.call('aero.cd', model.calculate_cd, np.array([x[1] for x in aero]))
        if self.stop or not self.compare('aero.cd', 'model.calculate_cd', 'eq3.6-2', self.vec(got), [x[2] for x in aero], zero, 'CD'):
            return
        got = self.call('aero.drag', model.calculate_drag, np.array([x[2] for x in aero]), rho, tas)
        if self.stop or not self.compare('aero.drag', 'model.calculate_drag', 'eq3.6-5', self.vec(got), [x[3] for x in aero], zero, 'drag'):
            return
        th = [ref.thrust(masses[i], prof.temp[i], prof.alt[i], prof.tas[i], prof.rocd[i], prof.acc[i], prof.cr[i]) for i in range(n)]
        got = self.call('thrust.total_energy', model.calculate_thrust_by_total_energy,
                        np.array([x['drag'] for x in th]), marr, tas, np.array(prof.rocd), np.array(prof.acc))
        if self.stop or not self.compare('thrust.total_energy', 'model.calculate_thrust_by_total_energy', 'eq3.2-1',
                                         self.vec(got), [x['te'] for x in th], [x['scale'] for x in th], 'total-energy thrust'):
            return

        if not self.check_thrust(masses, a, th, label=True):
            return

        # fuel flow (on the reference thrust, so that a thrust defect cannot leak in here)
        tval = [x['value'] for x in th]
        tarr = np.array(tval)
        if eng != 'Piston':
            got = self.call('fuelflow.sfc', em.calculate_specific_fuel_consumption, tas)
            if self.stop or not self.compare('fuelflow.sfc', 'model.calculate_specific_fuel_consumption', eng, self.vec(got),
                                             [ref.sfc(v) for v in prof.tas], zero, 'TSFC'):
                return
        for clause, fn, flag in (('fuelflow.nominal', em.calculate_nominal_fuel_flow, False),
                                 ('fuelflow.cruise', em.calculate_cruise_fuel_flow, True)):
            got = self.call(clause, fn, tarr, tas)
            if self.stop:
                return
            got = self.vec(got)
            want = [ref.fuel_flow(tval[i], prof.tas[i], flag) for i in range(n)]
            if eng == 'Piston' and not ref.piston_per_min and all(close(g, 60.0 * w) for g, w in zip(got, want)):
                # root cause pinned: C_f1 [kg/min] is returned where kg/s is expected
                self.fail('fuelflow.piston_units', 'model.calculate_nominal_fuel_flow', 'cf1_kg_per_min_used_as_kg_per_s',
                          f'piston {clause}: library {got[0]!r} = 60 x reference {want[0]!r} kg/s (C_f1 = {self.eff["c_f1"]!r} kg/min)')
                # known finding: go on with the oracle variant that predicts it
                self.ref = ref = Ref(eng, self.eff, piston_per_min=True)
                want = [ref.fuel_flow(tval[i], prof.tas[i], flag) for i in range(n)]
            if not self.compare(clause, 'model.' + fn.__name__, eng, got, want, zero, clause):
                return

        self.check_sgr(masses, a, th)

    def check_thrust(self, masses, a, th, label=False):
        """calculate_thrust: limiting and descent substitution, classified by the reference's regime."""
        np, ctx, model = self.np, self.ctx, self.model
        got = self.call('thrust.calculate', model.calculate_thrust, np.array(masses), a['temperature'], a['altitude'],
                        a['v_tas'], a['rocd'], a['acceleration'], a['in_cruise'])
        if self.stop:
            return False
        got = self.vec(got)
        for i in range(self.prof.n):
            t = th[i]
            if t['ambiguous']:
                if label:
                    ctx.label('point:ambiguous')
                continue
            if label:
                ctx.label('point:' + t['regime'])
            if not (math.isfinite(got[i]) and close(got[i], t['value'], t['scale'])):
                clause = {'unlimited': 'thrust.unlimited', 'limited_cruise': 'thrust.limit', 'limited_climb': 'thrust.limit',
                          'negative_above_hpdes': 'thrust.descent', 'negative_below_hpdes': 'thrust.descent'}[t['regime']]
                self.fail(clause, 'model.calculate_thrust', t['regime'],
                          f'thrust[{i}]: library {got[i]!r}, reference {t["value"]!r} (total-energy {t["te"]!r}, max {t["max"]!r}, '
                          f'descent {t["des"]!r}; mass {masses[i]!r}, point {self.point(i)})')
                self.stop = True
                return False
            # the property's own wording, on the library's numbers
            if got[i] > t['max'] + RTOL * t['scale'] and t['max'] >= 0.0:
                self.fail('thrust.limit', 'model.calculate_thrust', 'exceeds_max', f'thrust[{i}] {got[i]!r} > max {t["max"]!r}')
                self.stop = True
                return False
        return True

    def check_sgr(self, masses, a, th):
        """specific ground range = groundspeed / fuel flow, cruise correction only where flagged."""
        np, model, prof, ref, eng = self.np, self.model, self.prof, self.ref, self.engine
        got = self.call('sgr', model.calculate_specific_ground_range, np.array(masses), a['temperature'], a['altitude'],
                        a['v_tas'], a['rocd'], a['acceleration'], a['in_cruise'], a['groundspeed'])
        if self.stop:
            return False
        got = self.vec(got)
        for i in range(prof.n):
            if th[i]['ambiguous']:
                continue
            tv = th[i]['value']
            ff = ref.fuel_flow(tv, prof.tas[i], prof.cr[i])
            if not ff > 0.0:
                continue
            want = prof.gs[i] / ff
            scale = want * th[i]['scale'] / max(abs(tv), 1e-300) if eng != 'Piston' else 0.0
            if not (math.isfinite(got[i]) and close(got[i], want, scale)):
                other = prof.gs[i] / ref.fuel_flow(tv, prof.tas[i], not prof.cr[i])
                disc = 'cruise_correction_misapplied' if close(got[i], other, 0.0, 1e-7) else 'sgr_value'
                clause = 'fuelflow.cruise_only_in_cruise' if disc == 'cruise_correction_misapplied' else 'sgr.value'
                self.fail(clause, 'model.calculate_specific_ground_range', disc,
                          f'SGR[{i}]: library {got[i]!r}, reference {want!r} (cruise flag {prof.cr[i]}, other-flag value {other!r}; '
                          f'mass {masses[i]!r}, point {self.point(i)})')
                self.stop = True
                return False
        return True

    def point_ref_thrust(self, masses):
        prof, ref = self.prof, self.ref
        return [ref.thrust(masses[i], prof.temp[i], prof.alt[i], prof.tas[i], prof.rocd[i], prof.acc[i], prof.cr[i])
                for i in range(prof.n)]

    # ---- level 2: the iteration variants
    def call_iterate(self, a):
        case, model, prof = self.case, self.model, self.prof
        np = self.np
        seg = np.array(prof.d, dtype=float) if prof.d_is_array else float(prof.d[0])
        common = (a['temperature'], a['altitude'], a['v_tas'], a['rocd'], a['acceleration'], a['in_cruise'],
                  a['groundspeed'], seg)
        v = case['variant']
        if v == 'init':
            return model.iterate_flight_simulation_constant_initial_mass(*common, case['mass'], n_iter=case['n_iter'])
        if v == 'final':
            return model.iterate_flight_simulation_constant_final_mass(*common, case['mass'], n_iter=case['n_iter'])
        fd = case['fd']
        fn = (model.iterate_flight_simulation_fuel_burn_dependent_initial_mass_rf_fraction if v == 'rf_fraction'
              else model.iterate_flight_simulation_fuel_burn_dependent_initial_mass_rf_value)
        return fn(*common, fd['estimate'], fd['mtow'], fd['oew'], fd['mpl'], fd['lf'], fd['reserve'], n_iter=case['n_iter'])

    def iteration(self):
        ctx, case, prof, ref = self.ctx, self.case, self.prof, self.ref
        v = case['variant']
        n = prof.n
        where = {'init': 'model.iterate_flight_simulation_constant_initial_mass',
                 'final': 'model.iterate_flight_simulation_constant_final_mass'}.get(v, W_ITER_FD)
        try:
            out = ref_iterate(ref, prof, case)
        except Degenerate as e:
            ctx.label('iter:skipped_' + str(e))
            return
        info = out['info']
        got = self.call('mass.iterate', self.call_iterate, self.arrays())
        if self.stop:
            return
        M = [float(x) for x in self.np.asarray(got, dtype=float).ravel()]
        scale = max(abs(x) for x in out['mass'])
        tol = RTOL * scale
        if len(M) != n or not all(math.isfinite(x) for x in M):
            self.fail('mass.shape', where, v, f'mass vector {M!r} for {n} points')
            return

        def same(A, B):
            return all(abs(x - y) <= tol for x, y in zip(A, B))

        fd_variant = v in ('rf_fraction', 'rf_value')
        shifted = False
        if not same(M, out['mass']):
            # try the oracle variants that predict a specific root cause
            alt = None
            try:
                if v == 'final' and prof.d_is_array:
                    alt = ref_iterate(ref, prof, case, dx_not_reversed=True)
                    if same(M, alt['mass']):
                        self.fail('mass.backward_segments', 'fuel_burn_base.update_mass_vector_backward', 'array_dx_not_reversed',
                                  f'constant-final-mass run with per-segment distances {prof.d!r}: library {M!r} equals the '
                                  f'integration that pairs segment i with distance d[n-2-i]; reference {out["mass"]!r}')
                        # known finding: the per-step clause is exactly what this defect breaks
                        ctx.label('case:stopped_after_finding')
                        return
                    else:
                        alt = None
                elif fd_variant:
                    alt = ref_iterate(ref, prof, case, scheme='shift')
                    if same(M, alt['mass']):
                        out, info, shifted = alt, alt['info'], True
                    else:
                        alt = None
            except Degenerate:
                alt = None
            if alt is None:
                self.classify_mass_mismatch(M, out, where, tol)
                return

        # ---- invariants in the property's own words, on the library's vector
        if v == 'init' and M[0] != case['mass']:
            self.fail('mass.anchor', where, 'first_element', f'mass[0] {M[0]!r} != prescribed initial mass {case["mass"]!r}')
            return
        if v == 'final' and M[-1] != case['mass']:
            self.fail('mass.anchor', where, 'last_element', f'mass[-1] {M[-1]!r} != prescribed final mass {case["mass"]!r}')
            return
        if fd_variant:
            mtow = case['fd']['mtow']
            if max(M) > mtow * (1.0 + 1e-12):
                self.fail('mass.mtow_cap', where, 'exceeds_mtow', f'max mass {max(M)!r} > MTOW {mtow!r}')
                return
        q, d = out['q'], prof.d
        start = 1 if (fd_variant and not shifted) else 0
        for i in range(start, n - 1):
            dec = M[i] - M[i + 1]
            want = 0.5 * (q[i] + q[i + 1]) * d[i]
            if dec < -tol:
                self.fail('mass.monotone', where, v, f'mass increases from point {i} to {i + 1}: {M[i]!r} -> {M[i + 1]!r}')
                return
            if abs(dec - want) > 2 * tol:
                self.fail('mass.step_trapezoid', where, v, f'step {i}: decrease {dec!r}, trapezoid {want!r}')
                return
        if fd_variant and not shifted:
            # mass[0] is replaced after the last integration: judged on its own
            dec = M[0] - M[1]
            want = 0.5 * (q[0] + q[1]) * d[0]
            if abs(dec - want) > 2 * tol:
                grows = dec < -tol
                ctx.label('fd:first_step_increase' if grows else 'fd:first_step_mismatch')
                self.fail('mass.first_step', where, 'mass0_replaced_after_last_integration',
                          f'{v}: returned mass[0] {M[0]!r} (new initial-mass estimate) but mass[1:] were integrated from '
                          f'{info.get("m0_integrated")!r}; first step decrease {dec!r} vs trapezoid {want!r}'
                          + (' -- MASS INCREASES along the flight' if grows else ''))
        # ---- bookkeeping
        ctx.label('iter:early_exit' if info['early_exit'] else 'iter:ran_all')
        ctx.label(f'passes:{min(info["passes"], 6)}{"+" if info["passes"] >= 6 else ""}')
        if fd_variant:
            ctx.label('fd:cap_binds' if info['cap_binds'] else 'fd:cap_free')
            if shifted:
                ctx.label('fd:whole_vector_shifted_scheme')
        st_ = info['stats']
        lim = any(s.startswith('limited') for s in st_)
        neg = any(s.startswith('negative') for s in st_)
        mixed = len(set(prof.cr)) == 2
        if lim:
            ctx.label('profile:has_limited')
        if neg:
            ctx.label('profile:has_negative')
        if mixed:
            ctx.label('profile:mixed_cruise_flags')
        if (lim and neg) or mixed:
            ctx.label('nontrivial')
            ctx.mark_nontrivial(case)
            ctx.sample({'case': case, 'library_mass': M})

    def classify_mass_mismatch(self, M, out, where, tol):
        """No root-cause variant explains the difference: name the clause by the
        first of the property's own invariants that the library vector breaks."""
        case, prof = self.case, self.prof
        v = case['variant']
        R = out['mass']
        q, d = out['q'], prof.d
        fd_variant = v in ('rf_fraction', 'rf_value')
        i0 = next(i for i in range(prof.n) if abs(M[i] - R[i]) > tol)
        detail = (f'first difference at point {i0}: library {M[i0]!r}, reference {R[i0]!r}; n={prof.n}, n_iter={case["n_iter"]}, '
                  f'passes(ref)={out["info"]["passes"]}, early_exit(ref)={out["info"]["early_exit"]}')
        # a point-function defect that only shows at the masses of the iteration: name it at its own level
        for masses in (R, [R[0]] * prof.n):
            a = self.arrays()
            th = self.point_ref_thrust(masses)
            if not (self.check_thrust(masses, a, th) and self.check_sgr(masses, a, th)):
                return None
        if v == 'init' and M[0] != case['mass']:
            return self.fail('mass.anchor', where, 'first_element', detail)
        if v == 'final' and M[-1] != case['mass']:
            return self.fail('mass.anchor', where, 'last_element', detail)
        if fd_variant and max(M) > case['fd']['mtow'] * (1.0 + 1e-12):
            return self.fail('mass.mtow_cap', where, 'exceeds_mtow', f'max mass {max(M)!r} > MTOW {case["fd"]["mtow"]!r}; ' + detail)
        for i in range(1 if fd_variant else 0, prof.n - 1):
            if M[i] - M[i + 1] < -tol:
                return self.fail('mass.monotone', where, v, f'mass increases from point {i} to {i + 1}; ' + detail)
        # one-pass runs have no iteration history: the step rule can be judged exactly
        if out['info']['passes'] == 1:
            for i in range(1 if fd_variant else 0, prof.n - 1):
                if abs((M[i] - M[i + 1]) - 0.5 * (q[i] + q[i + 1]) * d[i]) > 2 * tol:
                    return self.fail('mass.step_trapezoid', where, v, f'step {i}: decrease {M[i] - M[i + 1]!r}, trapezoid '
                                     f'{0.5 * (q[i] + q[i + 1]) * d[i]!r}; ' + detail)
        if fd_variant and abs(M[0] - R[0]) > tol and all(abs(x - y) <= tol for x, y in zip(M[1:], R[1:])):
            return self.fail('mass.initial_mass_rule', where, v, f'mass[0]: library {M[0]!r}, reference {R[0]!r} '
                             f'(OEW+MPL*LF+burn+reserve capped at MTOW {case["fd"]["mtow"]!r}); ' + detail)
        return self.fail('mass.differential', where, v, detail)


def body(ctx: core.Ctx, case):
    ctx.case(case)
    ctx.label('engine:' + case['engine'], 'variant:' + case['variant'],
              'seg:array' if isinstance(case['seg'], list) else 'seg:scalar',
              'flags:' + case.get('flag_enc', 'bool'), 'groundspeed_dtype:' + case.get('gs_dtype', 'f8'))
    if case.get('scalar_inputs'):
        ctx.label('scalar_inputs')
    n = len(case['points'])
    ctx.label('n:2-6' if n <= 6 else 'n:7-14' if n <= 14 else 'n:15-80')
    ck = Checker(ctx, case)
    ck.pointwise()
    if ck.stop:
        ctx.label('case:stopped_after_finding')
        return
    ck.iteration()
    if ck.stop:
        return
    # The model reads its coefficients from the (mutable) parameter object it was given: after the library's
    # own update call on that object the same model must follow the new coefficients (nothing remembered).
    eff = ck.eff
    upd = {'h_p_des': eff['h_p_des'] * (0.4 if int(eff['h_p_des']) % 2 else 2.5),
           'c_tdes_low': eff['c_tdes_low'] * 1.3, 'c_tdes_high': eff['c_tdes_high'] * 0.8, 'c_f1': eff['c_f1'] * 1.1}
    ck.ap.assign_parameters_fromdict(upd)
    ck.eff = dict(eff, **{k: getattr(ck.ap, k) for k in upd})
    ck.ref = Ref(ck.engine, ck.eff)
    ck.clause_prefix = 'after_parameter_update.'
    ctx.label('parameter_update_on_same_model')
    ck.pointwise()


# ---- step 0: is anything reachable at all?

PROBE_PARAMS = dict(c_fcr=0.95, c_f1=0.7, c_f2=1000.0, c_f3=10.0, c_f4=50000.0, c_d0cr=0.025, c_d2cr=0.04, S_ref=120.0,
                    ref_mass=60000.0, min_mass=40000.0, max_mass=78000.0, max_payload=20000.0, c_tc1=140000.0,
                    c_tc2=48000.0, c_tc3=3e-11, c_tc4=8.0, c_tc5=0.008, c_tdes_low=0.05, c_tdes_high=0.1,
                    h_p_des=15000.0, c_tdes_app=0.15, c_tdes_ld=0.35)


def probe(ctx: core.Ctx, engine: str):
    """Evaluate the engine model once with the library's own parameter object.
    Returns (case, None) if that works, else (case, exception)."""
    import numpy as np
    from AEIC.BADA.aircraft_parameters import Bada3AircraftParameters
    from AEIC.BADA.model import Bada3FuelBurnModel

    case = {'probe': engine}
    ctx.case(case)
    ctx.label('probe:' + engine)
    ap = Bada3AircraftParameters()
    ap.assign_parameters_fromdict(dict(PROBE_PARAMS, engine_type=engine))
    model = Bada3FuelBurnModel(ap)
    alt, tas, temp = np.array([5000.0, 6000.0]), np.array([150.0, 160.0]), np.array([255.65, 249.15])
    try:
        model.engine_model.calculate_max_climb_thrust(alt, tas, temp)
        model.engine_model.calculate_descent_thrust_high(alt, tas, temp)
        if engine == 'Jet':
            model.engine_model.calculate_cruise_fuel_flow(np.array([5.0e4, 5.0e4]), tas)
    except core.PASS_THROUGH:
        raise
    except Exception as e:  # noqa: BLE001 - whatever the code under test raises is the finding
        ctx.label('probe_failed:' + engine)
        ctx.mark_nontrivial('probe:' + engine)
        ctx.sample({'case': case, 'params': dict(PROBE_PARAMS, engine_type=engine), 'raised': repr(e)})
        return case, e
    return case, None


def report_probe(ctx: core.Ctx, case, exc):
    subscript = isinstance(exc, TypeError) and 'not subscriptable' in str(exc)
    ctx.fail_exc('params.access', exc, 'params_not_subscriptable' if subscript else case['probe'], case)


def run(ctx: core.Ctx):
    ctx.level = 'exploration'
    ctx.rule = (
        'Hypothesis cases = (engine type, BADA-3 coefficient set bracketing OPF values and scaled to the aircraft size, '
        'profile of 2-80 points with per-point regime climb/cruise/descent/free/around-h_p_des, ISA offset, scalar or '
        'per-segment distances, flag encoding, one of 4 iterate_* variants, n_iter 1-12). Every case: point functions of '
        'the engine/aero model, calculate_thrust, fuel flow, SGR compared with a scalar re-implementation of the BADA-3 '
        'equations (rel 1e-9 of the sum of magnitudes of the terms), then the mass vector of the iteration variant compared '
        'with the reference iteration plus anchor/monotone/per-step-trapezoid/MTOW invariants. Non-trivial = the '
        'reference iteration met both a thrust-limited and a negative-thrust point, or the cruise flags are mixed; '
        'distinct = hash of the case.'
    )
    ctx.assumptions = [
        'unit factors 3.28084 ft/m and 1/0.514444 kt per m/s as published in AEIC/units.py (exact factors differ by <1e-6)',
        'temperature passed to the model = ISA(altitude) + constant offset in [-20, 20] K; density from ISA pressure and that temperature',
        'iteration counts as in the docstrings/code: constant-mass variants do n_iter integrations, fuel-dependent variants 1 + n_iter, '
        'early exit when the free end of the vector moves by < 0.01 %',
        'cases in which the reference meets a non-positive fuel flow, SGR < 1 m/kg or a value within 1e-9 of a branch are skipped '
        '(labelled iter:skipped_*), the property being silent there',
        'masses and initial-mass estimates are floats within [min_mass, MTOW]; estimate <= MTOW',
        'fuel-dependent variants: element 0 is judged separately (clause mass.first_step); a repair that shifts the whole vector is accepted too',
        'piston C_f1 is in kg/min as in OPF files (BADA 3.9-7), so piston fuel flow in kg/s is C_f1/60',
    ]
    self_test()
    failed = [(case, exc) for case, exc in (probe(ctx, engine) for engine in ENGINES) if exc is not None]
    if failed:
        # one root cause for every engine type: report it once, then stop (nothing behind it is reachable)
        try:
            report_probe(ctx, *failed[0])
        except core.Violation:
            ctx.record_violation()
        ctx.extra['blocked'] = ('engine models cannot be evaluated with the library parameter object for '
                                + ', '.join(c['probe'] for c, _ in failed) + '; nothing behind clause params.access was reachable')
        return
    n = ctx.n(3000, 30000)
    core.run_given(ctx, case_st(), lambda case: body(ctx, case), max_examples=n)


def replay(ctx: core.Ctx, case):
    self_test()
    if 'probe' in case:
        case, exc = probe(ctx, case['probe'])
        if exc is not None:
            report_probe(ctx, case, exc)
        return
    body(ctx, case)
