"""C04 — gridding conserves every integrated quantity.

Per segment s and integrated variable v (the harness adds a unit variable):
    sum(pieces of s) = v[s] * F_s,   1 - tol <= F_s <= U_s + tol,
where U_s = (great-circle chord sum over [grid-line crossings U 256-fold uniform subdivision] of the
segment's straight map line) / (great-circle length of the segment): by the triangle inequality this
bounds the chord sum over the crossings alone, i.e. it is the upper envelope of "the small excess caused
by measuring straight map-line pieces with great-circle lengths".  Zero-length segments must deposit
their whole value (F = 1).  Totals follow by summation and are asserted separately.  Every variable must
scale with the same shares.  Reference: _grid_common (plain-float parametric intersections + pyproj),
itself cross-checked by dense sampling.
"""

from __future__ import annotations

import math

from .. import core
from . import _grid_common as G

SHARDED = True


def _groups(case, segs, out):
    """Index ranges of the pieces of each segment: by the reference piece counts when they fit the output,
    else by the harness tag variable (as DESIGN.md says), else None."""
    import numpy as np

    n_out = len(out[5][0])
    counts = [seg.count for seg in segs]
    if sum(counts) == n_out:
        edges = [0]
        for c in counts:
            edges.append(edges[-1] + c)
        return [range(a, b) for a, b in zip(edges[:-1], edges[1:])]
    tag = np.asarray(out[4][0])
    if len(tag) == n_out and np.all(np.isfinite(tag)) and np.all(np.diff(tag) >= 0):
        groups = []
        for s in range(len(segs)):
            idx = np.nonzero(tag == s)[0]
            groups.append(range(int(idx[0]), int(idx[-1]) + 1) if len(idx) else range(0, 0))
        return groups
    return None


def body(ctx: core.Ctx, case):
    import numpy as np

    prep = G.prepare(ctx, case)
    if prep is None:
        return
    segs, out = prep
    integ_in = [[1.0] * len(segs)] + case['integ']
    integ_out = [np.asarray(a, dtype=float) for a in out[5]]
    if len(integ_out) != len(integ_in):
        G.fail(ctx, 'outputs', 'mismatch', 'grid_trajectory', G.case_disc(segs),
                 f'{len(integ_in)} integrated variables in, {len(integ_out)} out')
        return
    groups = _groups(case, segs, out)
    excluded = set()  # segments covered by a listed known finding: not asserted further
    for k, a in enumerate(integ_out):
        if np.all(np.isfinite(a)):
            continue
        for bad in (int(i) for i in np.nonzero(~np.isfinite(a))[0]):
            owner = None
            if groups is not None and len(a) == len(integ_out[0]):
                owner = next((s for s, rng in enumerate(groups) if bad in rng), None)
            if owner is None:
                G.fail(ctx, 'finite', 'mismatch', 'grid_trajectory', G.case_disc(segs),
                         f'integrated variable {k} has a non-finite piece at index {bad}: {a[bad]!r}')
                return
            if owner in excluded:
                continue
            seg = segs[owner]
            # an ill-conditioned crossing can land beyond a pole (-> NaN length): same root cause, hence same
            # signature, as its over-count symptom
            G.fail(ctx, 'segment.more' if seg.illcond else 'finite', 'mismatch', seg.where(), seg.disc(),
                     f'segment {owner} {seg.p0}->{seg.p1}: integrated variable {k} has a non-finite piece at index {bad}: {a[bad]!r}')
            excluded.add(owner)
    if groups is not None:
        unit = integ_out[0]
        for s, (seg, rng) in enumerate(zip(segs, groups)):
            if s in excluded:
                continue
            idx = list(rng)
            for k, (vin, vout) in enumerate(zip(integ_in, integ_out)):
                if len(vout) != len(unit):
                    continue  # C05 reports unequal lengths; totals below still apply
                v = vin[s]
                got = math.fsum(float(vout[i]) for i in idx)
                what = f'segment {s} {seg.p0}->{seg.p1} variable {k} value {v!r}: pieces {[float(vout[i]) for i in idx][:12]} sum {got!r}'
                if v == 0.0:
                    if got != 0.0:
                        if G.fail(ctx, 'segment.more', 'mismatch', seg.where(), seg.disc(), what + ' (expected 0)'):
                            excluded.add(s)
                    continue
                ratio = got / v
                if seg.zero:
                    lo = hi = 1.0
                    tol = 1e-12
                else:
                    lo, hi = 1.0, seg.upper()
                    tol = 1e-9 + 1e-6 / seg.D
                if ratio < lo - tol:
                    if G.fail(ctx, 'segment.less', 'mismatch', seg.where(), seg.disc(),
                                what + f'; sum/value = {ratio!r} < 1 (segment length {seg.D!r} m)'):
                        excluded.add(s)
                    continue
                if ratio > hi + tol:
                    if G.fail(ctx, 'segment.more', 'mismatch', seg.where(), seg.disc(),
                                what + f'; sum/value = {ratio!r} > upper envelope {hi!r} (segment length {seg.D!r} m)'):
                        excluded.add(s)
                    continue
                # every variable is split with the same shares
                if k > 0:
                    for i in idx:
                        want = v * float(unit[i])
                        if abs(float(vout[i]) - want) > 1e-12 * abs(v) * max(1.0, abs(float(unit[i]))):
                            if G.fail(ctx, 'same_shares', 'mismatch', G.W_FRACTIONS, seg.disc(),
                                        what + f'; piece {i} = {float(vout[i])!r}, value*share = {want!r}'):
                                excluded.add(s)
                            break
    # totals ("the gridded total equals the trajectory total, never less, no more than the excess")
    for k, (vin, vout) in enumerate(zip(integ_in, integ_out)):
        total = math.fsum(float(x) for x in vout)
        lo = hi = 0.0
        scale = 0.0
        for s, seg in enumerate(segs):
            v = vin[s]
            if s in excluded and groups is not None and len(vout) == len(integ_out[0]):
                part = math.fsum(float(vout[i]) for i in groups[s])
                lo += part
                hi += part
                scale += abs(part)
                continue
            if seg.zero:
                f_lo = f_hi = 1.0
                tol = 1e-12
            else:
                f_lo, f_hi = 1.0, seg.upper()
                tol = 1e-9 + 1e-6 / seg.D
            a, b = v * (f_lo - tol), v * (f_hi + tol)
            lo += min(a, b)
            hi += max(a, b)
            scale += abs(v) * f_hi
        slack = 1e-12 * scale
        if total < lo - slack:
            G.fail(ctx, 'total.less', 'mismatch', 'grid_trajectory', G.case_disc(segs),
                     f'variable {k}: gridded total {total!r} < trajectory total bound {lo!r} (trajectory total {math.fsum(vin)!r})')
            return
        if total > hi + slack:
            G.fail(ctx, 'total.more', 'mismatch', 'grid_trajectory', G.case_disc(segs),
                     f'variable {k}: gridded total {total!r} > upper bound {hi!r} (trajectory total {math.fsum(vin)!r})')
            return


def run(ctx: core.Ctx):
    ctx.level = 'exploration'
    ctx.rule = G.RULE
    ctx.assumptions = G.ASSUMPTIONS + [
        'C04 oracle: per segment and variable 1-tol <= sum(pieces)/value <= U+tol, tol = 1e-9 + 1e-6 m/len; U = chord '
        'sum over (crossings U 256 uniform points)/segment length; zero-length segments: sum == value (1e-12 rel)',
    ]
    core.bootstrap()
    G.self_test()
    core.run_given(ctx, G.cases(), lambda case: body(ctx, case), max_examples=ctx.n(2500, 20000), salt=4)


def replay(ctx: core.Ctx, case):
    core.bootstrap()
    G.self_test()
    body(ctx, case)
