"""C08 — lookup by flight identifier returns exactly the matching trajectory."""

from __future__ import annotations

from .. import core
from ._store_machine import StoreMachine, plan_strategy, replay_any, run_plan

SHARDED = True


class C08Machine(StoreMachine):
    ENABLE_LOOKUP = True
    ENABLE_MERGE = True
    ENABLE_FAULTS = True  # id_mismatch additions ("all or none")
    ALWAYS_IDENTIFIED = True
    NONTRIVIAL_FLAGS = {'lookup_while_stale', 'lookup_in_append', 'merged_lookup'}

    def teardown(self):
        if 'ids_not_ascending' not in self.flags:
            self.flags -= {'lookup_while_stale'}
        super().teardown()


def big_store(ctx: core.Ctx, n: int):
    """One store with more trajectories than any internal block size (index pages, caches): every identifier is looked
    up in the writing session (before and after sync) and after reopening."""
    from AEIC.trajectories import TrajectoryStore as TS

    from . import _store_common as sc

    ctx.case({'big_store': n})
    ctx.label('big_store')
    d = ctx.fresh_dir()
    TS.active_in_thread = None
    ids = [((i * 7919 + 13) % 100003) * 3 + 1 for i in range(n)]
    descs = [{'n': 1 + i % 2, 'seed': i, 'name': None, 'flight_id': ids[i], 'extras': {}} for i in range(n)]
    store = None
    try:
        store = TS.create(base_file=d / 'big.nc', cache_size_mb=1)
        for dsc in descs:
            store.add(sc.build_traj(dsc))
        for stage in ('before_sync', 'after_sync', 'reopened'):
            if stage == 'after_sync':
                store.sync()
            if stage == 'reopened':
                store.close()
                store = TS.open(base_file=d / 'big.nc', cache_size_mb=1)
            for k, dsc in enumerate(descs):
                ctx.evaluations += 1
                t = store.get_flight(dsc['flight_id'])
                if t is None or t.flight_id != dsc['flight_id'] or len(t) != dsc['n']:
                    ctx.fail('get_flight.big_store', 'mismatch', 'TrajectoryStore.get_flight', stage,
                             f'{stage}: id {dsc["flight_id"]} (position {k} of {n}, rank {sorted(ids).index(dsc["flight_id"])} in id order) '
                             f'-> {None if t is None else (t.flight_id, len(t))}', {'big_store': n})
            if store.get_flight(2) is not None:
                ctx.fail('get_flight.big_store', 'mismatch', 'TrajectoryStore.get_flight', 'absent', f'{stage}: absent id found')
        ctx.mark_nontrivial({'big_store': n})
    finally:
        if store is not None:
            try:
                store.close()
            except Exception:  # noqa: BLE001
                pass
        TS.active_in_thread = None


def run(ctx: core.Ctx):
    ctx.level = 'exploration'
    ctx.rule = (
        'Hypothesis rule-based histories (<= 40 steps) over identified stores: add with distinct int64 ids in arbitrary '
        'order (small, > 2**31, near 2**62), lookup_present (also immediately after adds, before any sync), lookup_absent '
        '(below/above/between/random), sync, close, reopen(read|append), rejected additions (unidentified into identified), '
        'terminal merge with 1-2 further stores followed by lookup of every id; reference model = dict id -> description. '
        'evaluations = rule executions. Non-trivial = ids not in ascending insertion order with a lookup while the index is '
        'stale, or a lookup in an append session, or a merged lookup; distinct = hash of the operation log.'
    )
    ctx.assumptions = ['ids are unique per store and across merged inputs; the int64 fill value is not used as an id',
                       'lookup in a never-saved in-memory store is not claimed (no index exists yet): any non-wrong outcome accepted']
    core.run_machine(ctx, C08Machine, max_examples=ctx.n(30, 250), steps=40)
    core.run_given(ctx, plan_strategy(lookups=True, faults=True), lambda p: run_plan(C08Machine, ctx, p), ctx.n(50, 300), salt=20)
    if ctx.shard == 0:
        try:
            big_store(ctx, 1025 + (ctx.seed * 37) % 300 if ctx.quick else 2049 + (ctx.seed * 37) % 500)
        except core.Violation:
            ctx.record_violation()
        except core.AlreadyReported:
            pass


def replay(ctx: core.Ctx, case):
    if isinstance(case, dict) and 'big_store' in case:
        return big_store(ctx, int(case['big_store']))
    replay_any(C08Machine, ctx, case)
