"""C08 — lookup by flight identifier returns exactly the matching trajectory."""

from __future__ import annotations

from .. import core
from ._store_machine import StoreMachine, plan_strategy, replay_any, run_plan

SHARDED = True


class C08Machine(StoreMachine):
    ENABLE_LOOKUP = True
    ENABLE_MERGE = True
    ENABLE_FAULTS = True  # id_mismatch additions ("all or none")
    ALWAYS_IDENTIFIED = True
    NONTRIVIAL_FLAGS = {'lookup_while_stale', 'lookup_in_append', 'merged_lookup'}

    def teardown(self):
        if 'ids_not_ascending' not in self.flags:
            self.flags -= {'lookup_while_stale'}
        super().teardown()


def run(ctx: core.Ctx):
    ctx.level = 'exploration'
    ctx.rule = (
        'Hypothesis rule-based histories (<= 40 steps) over identified stores: add with distinct int64 ids in arbitrary '
        'order (small, > 2**31, near 2**62), lookup_present (also immediately after adds, before any sync), lookup_absent '
        '(below/above/between/random), sync, close, reopen(read|append), rejected additions (unidentified into identified), '
        'terminal merge with 1-2 further stores followed by lookup of every id; reference model = dict id -> description. '
        'evaluations = rule executions. Non-trivial = ids not in ascending insertion order with a lookup while the index is '
        'stale, or a lookup in an append session, or a merged lookup; distinct = hash of the operation log.'
    )
    ctx.assumptions = ['ids are unique per store and across merged inputs; the int64 fill value is not used as an id',
                       'lookup in a never-saved in-memory store is not claimed (no index exists yet): any non-wrong outcome accepted']
    core.run_machine(ctx, C08Machine, max_examples=ctx.n(30, 250), steps=40)
    core.run_given(ctx, plan_strategy(lookups=True, faults=True), lambda p: run_plan(C08Machine, ctx, p), ctx.n(50, 300), salt=20)


def replay(ctx: core.Ctx, case):
    replay_any(C08Machine, ctx, case)
