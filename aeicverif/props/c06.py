"""C06 — the table-based performance model reproduces its table and never
extrapolates; a PTF file converted to a model reproduces every PTF row; a
table that is not a complete FL x mass grid per phase is refused at load.

Three sub-checks (each its own Hypothesis run):

* ``table``     generated valid tables (2-40 flight levels, three masses,
                climb/cruise/descent sub-tables on possibly different level
                subsets, rows in arbitrary order, permuted / extra columns,
                mixed-case labels) x {every node in two altitude spellings,
                interior points, cell edges, continuity probes, outside
                points, 'min'/'max' mass}.
* ``malformed`` a valid table (first checked to be accepted) with one
                structural damage; must be refused by ``from_data``.
* ``ptf``       generated BADA-layout PTF text -> ``PTFData.load`` ->
                ``build_performance_table`` -> ``PerformanceModel.from_data``
                and the real ``legacy`` CLI command -> ``PerformanceModel.load``;
                every PTF row must be reproduced after unit conversion.

Oracles are written here from the property text: tabulated numbers straight
from the case description (never from the DataFrame), an own bilinear formula,
own Lipschitz bound for continuity, own unit constants (1852/3600, 0.3048/60,
1/60).
"""

from __future__ import annotations

import bisect
import math

from hypothesis import strategies as st

from .. import core

SHARDED = True

PHASES = ['climb', 'cruise', 'descent']
VARS = ['tas', 'rocd', 'ff']  # order of the tuples returned by _Ev.__call__
REQUIRED = ['fl', 'mass', 'tas', 'rocd', 'fuel_flow']

# own unit constants (not AEIC's)
KT = 1852.0 / 3600.0
FPM = 0.3048 / 60.0
PER_MIN = 1.0 / 60.0
UNIT_RTOL = 1e-5  # AEIC uses KNOTS_TO_MPS = 0.514444 (8.6e-7 from exact); both are "the" knot

NODE_RTOL = 1e-12  # node, altitude spelled so that the model sees exactly the tabulated FL
NEAR_RTOL = 1e-10  # node, altitude within a few ulps / the library's FL_TO_METERS spelling
REF_RTOL = 1e-9  # against the own bilinear formula

_LTO_TOML = """
[LTO_performance]
source = "EDB"
ICAO_UID = "01P11CM121"
rated_thrust = 102.695
[LTO_performance.mode_data.idle]
thrust_frac = 0.07
fuel_kgs = 0.11
EI_NOx = 4.36
EI_HC = 1.54
EI_CO = 29.39
[LTO_performance.mode_data.approach]
thrust_frac = 0.3
fuel_kgs = 0.343
EI_NOx = 9.09
EI_HC = 0.05
EI_CO = 2.82
[LTO_performance.mode_data.climb]
thrust_frac = 0.85
fuel_kgs = 1.031
EI_NOx = 17.89
EI_HC = 0.02
EI_CO = 0.17
[LTO_performance.mode_data.takeoff]
thrust_frac = 1.0
fuel_kgs = 1.293
EI_NOx = 23.94
EI_HC = 0.03
EI_CO = 0.31
"""


# --------------------------------------------------------------------------
# AEIC access (late imports: the tree under test is chosen by core.bootstrap)


class _Lib:
    ready = False


def lib():
    if _Lib.ready:
        return _Lib
    core.reset_config()
    from AEIC.performance.models import LegacyPerformanceModel, PerformanceModel
    from AEIC.performance.types import AircraftState, SimpleFlightRules
    from AEIC import units

    # importing the command module runs Config.load() at import time
    core.reset_config()
    import AEIC.commands.make_performance_model as mpm

    core.reset_config()
    from AEIC.parsers.ptf_reader import PTFData

    _Lib.PerformanceModel = PerformanceModel
    _Lib.Legacy = LegacyPerformanceModel
    _Lib.AircraftState = AircraftState
    _Lib.RULES = {
        'climb': SimpleFlightRules.CLIMB,
        'cruise': SimpleFlightRules.CRUISE,
        'descent': SimpleFlightRules.DESCEND,
    }
    _Lib.M2FL = float(units.METERS_TO_FL)
    _Lib.FL2M = float(units.FL_TO_METERS)
    _Lib.mpm = mpm
    _Lib.PTFData = PTFData
    prod = _Lib.M2FL * _Lib.FL2M
    _Lib.units_disc = 'unit_factors_not_inverse' if abs(prod - 1.0) > 1e-12 else 'roundoff'
    _Lib.ready = True
    return _Lib


def alt_for_fl(fl: float, side: int = 0):
    """Altitude [m] that the model's own metres->FL factor maps onto `fl`.

    Returns (altitude, exact).  If no float maps exactly, the nearest one that
    stays on the inside of a boundary level (side=+1 top, -1 bottom)."""
    M = lib().M2FL
    a = fl / M
    cands = [a]
    lo = hi = a
    for _ in range(4):
        lo = math.nextafter(lo, -math.inf)
        hi = math.nextafter(hi, math.inf)
        cands += [lo, hi]
    exact = [c for c in cands if c * M == fl]
    if exact:
        return min(exact, key=lambda c: abs(c - a)), True
    if side > 0:
        ok = [c for c in cands if c * M <= fl]
    elif side < 0:
        ok = [c for c in cands if c * M >= fl]
    else:
        ok = cands
    return min(ok, key=lambda c: abs(c * M - fl)), False


# --------------------------------------------------------------------------
# reference: own bilinear interpolation


def bilinear(xs, ys, grid, x, y):
    """grid[i][j] at (xs[i], ys[j]); xs, ys ascending; (x, y) inside."""
    i = min(max(bisect.bisect_right(xs, x) - 1, 0), len(xs) - 2)
    t = (x - xs[i]) / (xs[i + 1] - xs[i])
    if len(ys) == 1:
        return (1 - t) * grid[i][0] + t * grid[i + 1][0]
    j = min(max(bisect.bisect_right(ys, y) - 1, 0), len(ys) - 2)
    u = (y - ys[j]) / (ys[j + 1] - ys[j])
    return (
        (1 - t) * (1 - u) * grid[i][j]
        + t * (1 - u) * grid[i + 1][j]
        + (1 - t) * u * grid[i][j + 1]
        + t * u * grid[i + 1][j + 1]
    )


def self_test():
    # a function a + b x + c y + d x y is reproduced exactly by bilinear interpolation
    xs, ys = [0.0, 3.0, 10.0, 10.5], [1.0, 2.0, 7.0]

    def f(x, y):
        return 2.0 - 0.5 * x + 0.25 * y + 0.125 * x * y

    grid = [[f(x, y) for y in ys] for x in xs]
    for x, y in [(0.0, 1.0), (1.5, 1.25), (3.0, 2.0), (9.0, 6.5), (10.25, 7.0), (10.5, 1.0), (4.0, 2.0)]:
        got = bilinear(xs, ys, grid, x, y)
        if abs(got - f(x, y)) > 1e-12:
            raise core.HarnessError(f'bilinear self-test failed at {(x, y)}: {got} != {f(x, y)}')
    # hand-computed: corners 0,10 / 20,40 at t=.25, u=.5 -> 13.75
    if abs(bilinear([0.0, 4.0], [0.0, 2.0], [[0.0, 20.0], [10.0, 40.0]], 1.0, 1.0) - 13.75) > 1e-12:
        raise core.HarnessError('bilinear hand value self-test failed')
    if abs(bilinear([0.0, 4.0], [5.0], [[1.0], [3.0]], 1.0, 99.0) - 1.5) > 1e-12:
        raise core.HarnessError('linear (one mass) self-test failed')
    # unit conversion of the first climb row of the repository's PTF sample, values computed by hand
    exp = ptf_expected_climb(['157', '5111', '3814', '2914', '86.17'])
    hand = (80.76778, [25.96388, 19.37512, 14.80312], 1.4361667)
    if not (
        abs(exp[0] - hand[0]) < 1e-4
        and all(abs(a - b) < 1e-4 for a, b in zip(exp[1], hand[1]))
        and abs(exp[2] - hand[2]) < 1e-6
    ):
        raise core.HarnessError(f'unit conversion self-test failed: {exp}')
    # altitude spelling helper
    L = lib()
    for fl in (0.0, 5.0, 410.0, 123.456):
        a, exact = alt_for_fl(fl, 1)
        if a * L.M2FL > fl or abs(a * L.M2FL - fl) > 1e-9:
            raise core.HarnessError('alt_for_fl self-test failed')
    # the generated PTF layout must equal the repository sample's layout for the sample's content
    sample = (core.TEST_DATA / 'verification' / 'legacy' / 'legacy_performance.PTF')
    if sample.exists():
        lines = sample.read_text().splitlines()
        mine = render_ptf(_SAMPLE_PTF_HEAD).splitlines()
        for k in (2, 6, 7, 8, 9, 11, 16, 17, 30, 31):
            if lines[k].rstrip() != mine[k].rstrip():
                raise core.HarnessError(f'PTF renderer differs from the sample layout at line {k}:\n{lines[k]!r}\n{mine[k]!r}')


_SAMPLE_PTF_HEAD = {
    'title': 'TASOPT', 'name': 'B738', 'pad': 2, 'temp': 'ISA', 'masses': [55097, 73340, 87054],
    'max_alt': 41000, 'payload': 22422, 'comma': False, 'blank': True,
    'speeds': [['250', '300', '0.80'], ['250', '280', '0.80'], ['250', '290', '0.80']],
    'rows': [
        {'fl': 0, 'cr': None, 'cl': ['157', '5111', '3814', '2914', '86.17'], 'de': ['144', '764', '25.85']},
        {'fl': 5, 'cr': None, 'cl': ['158', '5131', '3832', '2927', '86.17'], 'de': ['145', '769', '25.85']},
        {'fl': 10, 'cr': None, 'cl': ['159', '5151', '3851', '2941', '86.16'], 'de': ['151', '802', '25.85']},
        {'fl': 15, 'cr': None, 'cl': ['166', '5619', '3992', '3069', '86.13'], 'de': ['163', '862', '25.84']},
        {'fl': 20, 'cr': None, 'cl': ['167', '5698', '4108', '3185', '86.12'], 'de': ['195', '1031', '25.84']},
        {'fl': 30, 'cr': None, 'cl': ['190', '6508', '4611', '3639', '85.99'], 'de': ['230', '1217', '25.80']},
        {'fl': 40, 'cr': None, 'cl': ['225', '7276', '5198', '3730', '85.77'], 'de': ['233', '1235', '25.73']},
        {'fl': 60, 'cr': ['272', '59.34', '63.66', '67.27'], 'cl': ['272', '8079', '5857', '4750', '85.40'],
         'de': ['272', '1443', '8.54']},
        {'fl': 80, 'cr': ['280', '59.68', '64.03', '67.93'], 'cl': ['280', '8223', '5958', '4829', '85.31'],
         'de': ['280', '1486', '8.53']},
    ],
}


# --------------------------------------------------------------------------
# table cases


def _val(lo, hi):
    return st.one_of(
        st.floats(lo, hi, allow_nan=False, allow_infinity=False, allow_subnormal=False),
        st.integers(max(1, math.ceil(lo)), math.floor(hi)).map(float),
        st.integers(max(1, math.ceil(lo * 100)), math.floor(hi * 100)).map(lambda k: k / 100.0),
    ).filter(lambda v: lo <= v <= hi)


def _subset(draw, n, minsize=2):
    return sorted(draw(st.lists(st.integers(0, n - 1), unique=True, min_size=minsize, max_size=n)))


@st.composite
def table_desc(draw, max_levels=40):
    sizes = [st.integers(2, min(5, max_levels)), st.integers(2, min(5, max_levels))]
    if max_levels > 5:
        sizes.append(st.integers(6, min(14, max_levels)))
    if max_levels > 14:
        sizes.append(st.integers(15, max_levels))
    nlev = draw(st.one_of(*sizes))
    mode = draw(st.sampled_from(['regular', 'ints', 'ints', 'quarter', 'float']))
    if mode == 'regular':
        start = draw(st.integers(0, 100))
        step = draw(st.sampled_from([5, 10, 20, 25]))
        fls = [float(start + k * step) for k in range(nlev)]
    elif mode == 'ints':
        fls = [float(v) for v in sorted(draw(st.lists(st.integers(0, 600), unique=True, min_size=nlev, max_size=nlev)))]
    elif mode == 'quarter':
        fls = [v / 4.0 for v in sorted(draw(st.lists(st.integers(0, 2400), unique=True, min_size=nlev, max_size=nlev)))]
    else:
        qs = sorted(draw(st.lists(st.integers(0, 6000), unique=True, min_size=nlev, max_size=nlev)))
        fls = [q / 10.0 + draw(st.floats(0.0, 0.02, allow_nan=False)) for q in qs]
    # level subsets per phase
    climb_idx = list(range(nlev)) if draw(st.integers(0, 3)) else _subset(draw, nlev)
    cm = draw(st.sampled_from(['all', 'upper', 'upper', 'subset']))
    if cm == 'all' or nlev == 2:
        cruise_idx = list(range(nlev))
    elif cm == 'upper':
        cruise_idx = list(range(draw(st.integers(1, nlev - 2)), nlev))
    else:
        cruise_idx = _subset(draw, nlev)
    descent_idx = list(range(nlev)) if draw(st.integers(0, 2)) else _subset(draw, nlev)
    mm = sorted(draw(st.lists(st.integers(1000, 600000), unique=True, min_size=3, max_size=3)))
    masses = [float(m) + (0.5 if draw(st.integers(0, 4)) == 0 else 0.0) for m in mm]

    def col(n, lo, hi):
        return draw(st.lists(_val(lo, hi), min_size=n, max_size=n))

    nc, nz, nd = len(climb_idx), len(cruise_idx), len(descent_idx)
    tiny = st.sampled_from([0.0, 0.0, 0.0, -0.0, 5e-7, -5e-7, 1e-6, -1e-6])  # +-1e-6 = the library's own zero-ROCD tolerance (cruise at load time)
    t = {
        'fls': fls,
        'fl_mode': mode,
        'masses': masses,
        'climb_idx': climb_idx,
        'cruise_idx': cruise_idx,
        'descent_idx': descent_idx,
        'climb': {
            'tas': col(nc, 1.0, 2000.0),
            'ff': col(nc, 1e-4, 100.0),
            'rocd': [col(3, 2e-3, 200.0) for _ in range(nc)],
        },
        'cruise': {
            'tas': col(nz, 1.0, 2000.0),
            'rocd': [draw(st.lists(tiny, min_size=3, max_size=3)) for _ in range(nz)],
            'ff': [col(3, 1e-4, 100.0) for _ in range(nz)],
        },
        'descent': {
            'tas': col(nd, 1.0, 2000.0),
            'rocd': [-v for v in col(nd, 2e-3, 200.0)],
            'ff': col(nd, 1e-4, 100.0),
        },
    }
    nrows = 3 * nc + 3 * nz + nd
    order = draw(st.sampled_from(['ptf', 'phase_blocks', 'reversed', 'shuffle', 'shuffle', 'shuffle']))
    t['order'] = order
    t['perm'] = list(draw(st.permutations(list(range(nrows))))) if order == 'shuffle' else None
    named_extra = draw(st.integers(0, 2))
    labels = REQUIRED + [f'extra{k}' for k in range(named_extra)]
    t['cols'] = list(draw(st.permutations(labels)))
    t['unnamed_extra'] = draw(st.sampled_from([0, 0, 1, 2]))
    t['label_case'] = draw(st.sampled_from(['lower', 'upper', 'title']))
    t['key_case'] = draw(st.sampled_from(['lower', 'upper', 'title']))
    t['ints'] = draw(st.booleans())
    return t


def _cased(s, mode):
    return {'lower': s.lower(), 'upper': s.upper(), 'title': s.title()}[mode]


class Table:
    """Real objects built from a table description."""

    def __init__(self, t: dict):
        self.t = t
        self.fls = [float(v) for v in t['fls']]
        self.masses = [float(v) for v in t['masses']]
        nom = self.masses[1]
        rows = []  # canonical rows: dict(fl, mass, tas, rocd, fuel_flow, phase)
        self.levels = {}
        self.grid = {}  # phase -> var -> [n][3]
        for ph in PHASES:
            idx = t[f'{ph}_idx']
            lv = [self.fls[i] for i in idx]
            self.levels[ph] = lv
            d = t[ph]
            g = {v: [] for v in VARS}
            for k, fl in enumerate(lv):
                if ph == 'climb':
                    tas = [d['tas'][k]] * 3
                    rocd = list(d['rocd'][k])
                    ff = [d['ff'][k]] * 3
                elif ph == 'cruise':
                    tas = [d['tas'][k]] * 3
                    rocd = list(d['rocd'][k])
                    ff = list(d['ff'][k])
                else:
                    tas = [d['tas'][k]] * 3
                    rocd = [d['rocd'][k]] * 3
                    ff = [d['ff'][k]] * 3
                g['tas'].append(tas)
                g['rocd'].append(rocd)
                g['ff'].append(ff)
                if ph == 'descent':
                    rows.append(dict(fl=fl, mass=nom, tas=tas[1], rocd=rocd[1], fuel_flow=ff[1], phase=ph))
                else:
                    for j, m in enumerate(self.masses):
                        rows.append(dict(fl=fl, mass=m, tas=tas[j], rocd=rocd[j], fuel_flow=ff[j], phase=ph))
            self.grid[ph] = g
        order = t['order']
        if order == 'ptf':
            rows.sort(key=lambda r: (r['mass'], r['fl'], -r['rocd']))
        elif order == 'reversed':
            rows.reverse()
        elif order == 'shuffle':
            rows = [rows[i] for i in t['perm']]
        self.rows = rows
        dl = [r['fl'] for r in rows if r['phase'] == 'descent']
        self.descent_sorted = all(a < b for a, b in zip(dl, dl[1:]))
        self.rows_sorted = all(
            (a['mass'], a['fl']) <= (b['mass'], b['fl']) for a, b in zip(rows, rows[1:])
        )
        self.scale = {
            ph: {v: max(abs(x) for r in self.grid[ph][v] for x in r) for v in VARS} for ph in PHASES
        }

    def data_rows(self, rows=None):
        t = self.t
        out = []
        for n, r in enumerate(self.rows if rows is None else rows):
            line = []
            for c in t['cols']:
                v = r[c] if c in r else float(n % 7) + 0.5
                if t['ints'] and float(v).is_integer() and abs(v) < 1e15 and not (v == 0 and math.copysign(1, v) < 0):
                    v = int(v)
                line.append(v)
            line += [float(n)] * t['unnamed_extra']
            out.append(line)
        return out

    def model_data(self, cols=None, data=None):
        t = self.t
        kc = t['key_case']
        cols = [_cased(c, t['label_case']) for c in (t['cols'] if cols is None else cols)]
        return {
            'model_type': _cased('legacy', kc),
            _cased('aircraft_name', kc): 'GEN1',
            _cased('aircraft_class', kc): 'narrow',
            _cased('maximum_altitude_ft', kc): 41000,
            _cased('maximum_payload_kg', kc): 20000,
            _cased('number_of_engines', kc): 2,
            _cased('speeds', kc): None,
            _cased('lto_performance', kc): None,
            _cased('flight_performance', kc): {
                _cased('cols', kc): cols,
                _cased('data', kc): self.data_rows() if data is None else data,
            },
        }

    def load(self, **kw):
        return lib().PerformanceModel.from_data(self.model_data(**kw))

    def ref(self, ph, fl, mass):
        g = self.grid[ph]
        return tuple(bilinear(self.levels[ph], self.masses, g[v], fl, mass) for v in VARS)

    def cell_bounds(self, ph, fl, mass):
        lv = self.levels[ph]
        i = min(max(bisect.bisect_right(lv, fl) - 1, 0), len(lv) - 2)
        j = min(max(bisect.bisect_right(self.masses, mass) - 1, 0), 1)
        out = []
        for v in VARS:
            g = self.grid[ph][v]
            c = [g[i][j], g[i + 1][j], g[i][j + 1], g[i + 1][j + 1]]
            out.append((min(c), max(c)))
        return out


QUERY_KINDS = [
    'interior', 'interior', 'interior', 'fl_edge', 'mass_edge', 'cont_fl', 'cont_mass',
    'out_fl_hi', 'out_fl_lo', 'out_m_hi', 'out_m_lo', 'minmax', 'descent_mass',
]

_unit = st.one_of(
    st.floats(0.0, 1.0, allow_nan=False),
    st.sampled_from([0.5, 0.25, 1e-6, 1 - 1e-6, 0.999]),
)

query_desc = st.fixed_dictionaries(
    {
        'kind': st.sampled_from(QUERY_KINDS),
        'ph': st.integers(0, 2),
        'i': st.integers(0, 10**6),
        't': _unit,
        'j': st.integers(0, 1),
        'u': _unit,
        'far': st.booleans(),
        'tas_in': st.one_of(st.none(), st.floats(0.0, 400.0, allow_nan=False)),
        'roc_in': st.one_of(st.none(), st.floats(-30.0, 30.0, allow_nan=False)),
    }
)


@st.composite
def table_case(draw):
    return {
        'sub': 'table',
        'table': draw(table_desc()),
        'queries': draw(st.lists(query_desc, min_size=6, max_size=14)),
    }


class _Ev:
    """evaluate() wrapper returning a plain (tas, rocd, ff) tuple."""

    def __init__(self, ctx, model):
        self.ctx = ctx
        self.model = model
        self.log = []

    def __call__(self, alt, mass, ph, tas_in=None, roc_in=None, record=True):
        L = lib()
        self.ctx.extra['queries'] = self.ctx.extra.get('queries', 0) + 1
        state = L.AircraftState(altitude=alt, aircraft_mass=mass, true_airspeed=tas_in, rate_of_climb=roc_in)
        p = self.model.evaluate(state, L.RULES[ph])
        # the state is the caller's input ("depends only on altitude, mass and phase"; a symbolic mass means the
        # extreme mass of whichever table it is evaluated against): evaluate must not write into it
        now = (state.altitude, state.aircraft_mass, state.true_airspeed, state.rate_of_climb)
        if now != (alt, mass, tas_in, roc_in) or type(state.aircraft_mass) is not type(mass):
            soft_fail(self.ctx, 'depends.inputs', 'mismatch', 'legacy.interpolate', 'state_mutated',
                      f'evaluate changed its input state from {(alt, mass, tas_in, roc_in)} to {now}')
        out = (p.true_airspeed, p.rate_of_climb, p.fuel_flow)
        if record and len(self.log) < 6:
            self.log.append((alt, mass, ph, out))
        return out


def _report(ctx, clause, disc, sig, do_fail):
    """ctx.fail / ctx.fail_exc, except that

    * once a signature has been recorded in this run the body carries on as for a listed known finding.  (ctx.fail
      would reject every further case with that signature; a cause that hits most or all cases -- several of the
      findings on this tree and most mutants do -- would leave Hypothesis with nothing but rejected cases and the
      search for other causes would end in `Unsatisfiable`.)
    * the saved case names its signature ('only'), and a replay reports that signature only, so that a replay file
      shows the cause it was saved for even while other causes are still present in the tree."""
    only = getattr(ctx, 'replay_only', None)
    if only is not None and sig != only:
        return sig
    if sig in ctx.session_seen:
        ctx.label(f'already_reported.{clause}.{disc}')
        return sig
    saved = ctx.current_case
    if isinstance(saved, dict):
        ctx.current_case = dict(saved, only=sig)
    try:
        return do_fail()
    finally:
        ctx.current_case = saved


def soft_fail(ctx, clause, kind, where, disc, detail):
    sig = f'{ctx.pid}:{clause}:{kind}:{where}:{disc}'
    return _report(ctx, clause, disc, sig, lambda: ctx.fail(clause, kind, where, disc, detail))


def soft_fail_exc(ctx, clause, exc, disc=''):
    if isinstance(exc, core.PASS_THROUGH):
        raise exc
    sig = f'{ctx.pid}:{clause}:{type(exc).__name__}:{core.aeic_frame(exc)}:{disc}'
    return _report(ctx, clause, disc, sig, lambda: ctx.fail_exc(clause, exc, disc))


def _close(got, want, tol):
    return all(isinstance(g, float) and math.isfinite(g) and abs(g - w) <= tl for g, w, tl in zip(got, want, tol))


def body_table(ctx: core.Ctx, case: dict):
    ctx.case(case)
    L = lib()
    T = Table(case['table'])
    t = case['table']
    ctx.label(
        f'table.levels.{"2-5" if len(T.fls) <= 5 else "6-14" if len(T.fls) <= 14 else "15-40"}',
        f'table.fl_mode.{t["fl_mode"]}',
        f'table.order.{t["order"]}',
        'table.rows_sorted' if T.rows_sorted else 'table.rows_unsorted',
        'table.descent_rows_fl_sorted' if T.descent_sorted else 'table.descent_rows_fl_unsorted',
        'table.cruise_levels_differ' if T.levels['cruise'] != T.levels['climb'] else 'table.cruise_levels_same',
    )
    if t['cols'] != REQUIRED:
        ctx.label('table.columns_permuted')
    if t['unnamed_extra']:
        ctx.label('table.unnamed_extra_columns')
    if (not T.rows_sorted) or T.levels['cruise'] != T.levels['climb']:
        ctx.mark_nontrivial({'t': t})
    ctx.sample({'levels': T.fls[:8], 'masses': T.masses, 'order': t['order'], 'cols': t['cols'],
                'first_rows': T.data_rows()[:3], 'queries': case['queries'][:3]})

    try:
        model = T.load()
    except Exception as e:  # noqa: BLE001
        soft_fail_exc(ctx, 'load.valid', e, 'valid_table_refused')
        return
    if not isinstance(model, L.Legacy):
        soft_fail(ctx, 'load.valid', 'mismatch', 'PerformanceModel.from_data', 'wrong_class', f'got {type(model)}')
        return
    ev = _Ev(ctx, model)

    def tol(ph, r):
        return [r * T.scale[ph][v] + 1e-300 for v in VARS]

    skip_values = set()  # phases whose values are known-defective for this case
    skip_metres = False

    # ---- every node, two altitude spellings
    for ph in PHASES:
        lv = T.levels[ph]
        g = T.grid[ph]
        for k, fl in enumerate(lv):
            side = 1 if k == len(lv) - 1 else (-1 if k == 0 else 0)
            alt, exact = alt_for_fl(fl, side)
            for j, m in enumerate(T.masses):
                want = tuple(g[v][k][j] for v in VARS)
                if ph not in skip_values:
                    try:
                        got = ev(alt, m, ph)
                    except Exception as e:  # noqa: BLE001
                        got = e
                    if isinstance(got, Exception):
                        soft_fail_exc(ctx, 'node.exact', got, f'{ph}')
                        return
                    if not _close(got, want, tol(ph, NODE_RTOL if exact else NEAR_RTOL)):
                        if ph == 'descent' and not T.descent_sorted:
                            soft_fail(ctx, 'node.exact', 'mismatch', 'legacy.Interpolator.__init__',
                                     'descent_rows_not_fl_sorted',
                                     f'descent node FL={fl} mass={m}: got (tas, rocd, ff)={got}, tabulated {want}; '
                                     f'descent rows appear in FL order {[r["fl"] for r in T.rows if r["phase"] == "descent"]}')
                            skip_values.add(ph)
                        else:
                            soft_fail(ctx, 'node.exact', 'mismatch', 'legacy.Interpolator.__call__', f'{ph}',
                                     f'{ph} node FL={fl} (alt={alt!r}) mass={m}: got {got}, tabulated {want}')
                            return
                    ctx.label('query.node.top' if side > 0 else 'query.node.bottom' if side < 0 else 'query.node.inner')
                # altitude spelled with the library's FL_TO_METERS (named in the property)
                if ph not in skip_values and not skip_metres and (j == 1 or side != 0):
                    altm = fl * L.FL2M
                    try:
                        gotm = ev(altm, m, ph, record=False)
                    except Exception as e:  # noqa: BLE001
                        gotm = e
                    bad = isinstance(gotm, Exception) or not _close(gotm, want, tol(ph, NEAR_RTOL))
                    ctx.label('query.node.metres')
                    if bad:
                        soft_fail(ctx, 'node.metres', 'mismatch', 'legacy.interpolate', L.units_disc,
                                 f'{ph} node FL={fl} given as FL*FL_TO_METERS={altm!r} m, mass={m}: '
                                 f'got {gotm!r}, tabulated {want} '
                                 f'(FL_TO_METERS*METERS_TO_FL={L.FL2M * L.M2FL!r}, {"top" if side > 0 else "other"} level)')
                        skip_metres = True

    # ---- drawn queries
    for q in case['queries']:
        ph = PHASES[q['ph']]
        kind = q['kind']
        lv = T.levels[ph]
        n = len(lv)
        i = q['i'] % (n - 1)
        tt = min(max(q['t'], 2e-3), 1 - 2e-3)  # interior in FL: clear of any node by > 1e-4 FL
        uu = min(max(q['u'], 1e-6), 1 - 1e-6)
        j = q['j']
        m_lo, m_mid, m_hi = T.masses
        mass = T.masses[j] + uu * (T.masses[j + 1] - T.masses[j])
        fl = lv[i] + tt * (lv[i + 1] - lv[i])
        values_ok = ph not in skip_values

        if kind in ('interior', 'fl_edge', 'mass_edge'):
            if not values_ok:
                continue
            if kind == 'fl_edge':
                k = i + (1 if q['t'] >= 0.5 else 0)
                fl = lv[k]
                alt, _ = alt_for_fl(fl, 1 if k == n - 1 else (-1 if k == 0 else 0))
            else:
                alt = fl / L.M2FL
            if kind == 'mass_edge':
                mass = T.masses[j + (1 if q['u'] >= 0.5 else 0)]
            try:
                got = ev(alt, mass, ph)
            except Exception as e:  # noqa: BLE001
                got = e
            if isinstance(got, Exception):
                soft_fail_exc(ctx, 'interp.raised', got, f'{ph}.{kind}')
                return
            want = T.ref(ph, fl, mass)
            ctx.label(f'query.{kind}')
            if not _close(got, want, tol(ph, REF_RTOL)):
                soft_fail(ctx, 'interp.bilinear', 'mismatch', 'legacy.Interpolator.__call__', f'{ph}',
                         f'{ph} FL={fl} mass={mass}: got {got}, own bilinear {want}')
                return
            for (lo, hi), gv, tl in zip(T.cell_bounds(ph, fl, mass), got, tol(ph, REF_RTOL)):
                if not (lo - tl <= gv <= hi + tl):
                    soft_fail(ctx, 'interp.bounded', 'mismatch', 'legacy.Interpolator.__call__', f'{ph}',
                             f'{ph} FL={fl} mass={mass}: {gv} outside surrounding values [{lo}, {hi}]')
                    return
            # other AircraftState inputs must not matter
            if q['tas_in'] is not None or q['roc_in'] is not None:
                try:
                    got2 = ev(alt, mass, ph, q['tas_in'], q['roc_in'], record=False)
                except Exception as e:  # noqa: BLE001
                    got2 = e
                if got2 != got:
                    soft_fail(ctx, 'depends.inputs', 'mismatch', 'legacy.interpolate', f'{ph}',
                             f'result changed with true_airspeed={q["tas_in"]}, rate_of_climb={q["roc_in"]}: {got} -> {got2!r}')
                    return
                ctx.label('query.other_inputs')

        elif kind in ('cont_fl', 'cont_mass'):
            if not values_ok:
                continue
            if kind == 'cont_fl':
                if n >= 3 and q['t'] < 0.7:  # across an inner level
                    k = 1 + q['i'] % (n - 2)
                    x0 = lv[k]
                    h = 1e-4 * min(lv[k] - lv[k - 1], lv[k + 1] - lv[k])
                    cells = [k - 1, k]
                else:  # inside a cell (also its midpoint)
                    x0 = lv[i] + (0.5 if q['t'] >= 0.85 else min(max(tt, 0.01), 0.99)) * (lv[i + 1] - lv[i])
                    h = 1e-4 * (lv[i + 1] - lv[i])
                    cells = [i]
                pts = [((x0 - h) / L.M2FL, mass), (x0 / L.M2FL, mass), ((x0 + h) / L.M2FL, mass)]
                # own Lipschitz bound: largest node-to-node slope in FL of the touched cells
                lips = []
                for v in VARS:
                    g = T.grid[ph][v]
                    lips.append(max(abs(g[c + 1][jj] - g[c][jj]) / (lv[c + 1] - lv[c]) for c in cells for jj in range(3)))
                step = h
            else:
                if ph == 'descent':
                    continue
                h = 1e-4 * min(m_mid - m_lo, m_hi - m_mid)
                x0 = m_mid if q['u'] < 0.7 else min(max(mass, m_lo + 2 * h), m_hi - 2 * h)
                pts = [(fl / L.M2FL, x0 - h), (fl / L.M2FL, x0), (fl / L.M2FL, x0 + h)]
                lips = []
                for v in VARS:
                    g = T.grid[ph][v]
                    lips.append(max(abs(g[c][jj + 1] - g[c][jj]) / (T.masses[jj + 1] - T.masses[jj])
                                    for c in (i, i + 1) for jj in range(2)))
                step = h
            try:
                vals = [ev(a, mm, ph, record=False) for a, mm in pts]
            except Exception as e:  # noqa: BLE001
                vals = e
            if isinstance(vals, Exception):
                soft_fail_exc(ctx, 'interp.raised', vals, f'{ph}.{kind}')
                return
            ctx.label(f'query.{kind}')
            for vi, v in enumerate(VARS):
                bound = 1.01 * lips[vi] * step + 1e-9 * T.scale[ph][v]
                for a_, b_ in ((0, 1), (1, 2)):
                    if not abs(vals[a_][vi] - vals[b_][vi]) <= bound:
                        soft_fail(ctx, 'interp.continuous', 'mismatch', 'legacy.Interpolator.__call__', f'{ph}.{kind}',
                                 f'{ph} {v} jumps by {abs(vals[a_][vi] - vals[b_][vi])} over a step of {step} '
                                 f'(bound {bound}) around {x0}')
                        return

        elif kind in ('out_fl_hi', 'out_fl_lo'):
            if kind == 'out_fl_hi':
                top = lv[-1]
                flo = top + (1.0 + q['t'] * 500.0) if q['far'] else top * (1 + 1e-6) + 1e-9
                if flo <= T.fls[-1]:
                    ctx.label('query.outside.inside_other_phase')
            else:
                bot = lv[0]
                flo = bot - (1.0 + q['t'] * 300.0) if q['far'] else bot - max(1e-6 * bot, 1e-4)
                if flo >= T.fls[0]:
                    ctx.label('query.outside.inside_other_phase')
            alt = flo / L.M2FL
            mq = q['roc_in'] is not None and ph != 'descent'
            mass_q = ('min' if q['j'] else 'max') if mq else mass
            try:
                got = ev(alt, mass_q, ph, record=False)
            except Exception:  # noqa: BLE001  (any refusal is a refusal)
                got = None
            ctx.label(f'query.{kind}.{"far" if q["far"] else "just"}')
            if got is not None:
                soft_fail(ctx, 'envelope.altitude', 'returned', 'legacy.interpolate',
                         'above' if kind == 'out_fl_hi' else 'below',
                         f'{ph}: FL {flo} is outside the tabulated range [{lv[0]}, {lv[-1]}] but evaluate returned {got}')
                return

        elif kind in ('out_m_hi', 'out_m_lo'):
            if ph == 'descent':
                # the descent table does not depend on mass: any mass, also one outside the masses of the other phases
                # (the trajectory builder descends with whatever the aircraft weighs), gives the tabulated value
                mo = m_hi * (1.5 + q['u']) if kind == 'out_m_hi' else m_lo * 0.5 * q['u']
                if not values_ok or not mo > 0:
                    continue
                try:
                    ref_v = ev(fl / L.M2FL, m_mid, ph, record=False)
                    got = ev(fl / L.M2FL, mo, ph, record=False)
                except Exception as e:  # noqa: BLE001
                    soft_fail_exc(ctx, 'interp.raised', e, 'descent.mass_outside_other_phases')
                    return
                ctx.label('query.descent_mass_outside_other_phases')
                if got != ref_v:
                    soft_fail(ctx, 'depends.mass_in_descent', 'mismatch', 'legacy.interpolate', 'descent',
                             f'descent FL={fl}: mass {mo} gives {got}, nominal mass gives {ref_v}')
                    return
                continue
            if kind == 'out_m_hi':
                mo = m_hi * (1.5 + q['u']) if q['far'] else m_hi * (1 + 1e-6)
            else:
                mo = m_lo * 0.5 * q['u'] if q['far'] else m_lo * (1 - 1e-6)
            try:
                got = ev(fl / L.M2FL, mo, ph, record=False)
            except Exception:  # noqa: BLE001
                got = None
            ctx.label(f'query.{kind}.{"far" if q["far"] else "just"}')
            if got is not None:
                soft_fail(ctx, 'envelope.mass', 'returned', 'legacy.interpolate',
                         'above' if kind == 'out_m_hi' else 'below',
                         f'{ph}: mass {mo} is outside [{m_lo}, {m_hi}] at FL {fl} but evaluate returned {got}')
                return

        elif kind == 'minmax':
            if not values_ok:
                continue
            alt = fl / L.M2FL
            res = {}
            try:
                for sym, mv in (('min', m_lo), ('max', m_hi)):
                    res[sym] = (ev(alt, sym, ph, record=False), ev(alt, mv, ph, record=False))
            except Exception as e:  # noqa: BLE001
                res = e
            if isinstance(res, Exception):
                soft_fail_exc(ctx, 'mass.symbolic', res, f'{ph}')
                return
            ctx.label('query.minmax')
            for sym, (a_, b_) in res.items():
                want = T.ref(ph, fl, m_lo if sym == 'min' else m_hi)
                if a_ != b_ or not _close(a_, want, tol(ph, REF_RTOL)):
                    soft_fail(ctx, 'mass.symbolic', 'mismatch', 'legacy.interpolate', sym,
                             f"{ph} FL={fl}: mass '{sym}' gave {a_}, extreme tabulated mass gave {b_}, own reference {want}")
                    return

        elif kind == 'descent_mass':
            if 'descent' in skip_values:
                continue
            lvd = T.levels['descent']
            i_d = q['i'] % (len(lvd) - 1)
            fld = lvd[i_d] + tt * (lvd[i_d + 1] - lvd[i_d])
            alt = fld / L.M2FL
            try:
                a_ = ev(alt, m_mid, 'descent', record=False)
                b_ = ev(alt, mass, 'descent', record=False)
                c_ = ev(alt, 'min' if q['j'] else 'max', 'descent', record=False)
            except Exception as e:  # noqa: BLE001
                a_ = e
            if isinstance(a_, Exception):
                soft_fail_exc(ctx, 'descent.mass', a_, 'descent')
                return
            ctx.label('query.descent_mass')
            if a_ != b_ or a_ != c_:
                soft_fail(ctx, 'descent.mass', 'mismatch', 'legacy.Interpolator.__call__', 'descent',
                         f'descent FL={fld}: nominal mass {a_}, mass {mass} {b_}, symbolic {c_}')
                return

    # ---- history independence: a fresh model, recorded states in reverse order
    if ev.log:
        try:
            fresh = _Ev(ctx, T.load())
            again = [(rec, fresh(rec[0], rec[1], rec[2], record=False)) for rec in reversed(ev.log)]
            again += [(rec, ev(rec[0], rec[1], rec[2], record=False)) for rec in ev.log]
        except Exception as e:  # noqa: BLE001
            again = e
        if isinstance(again, Exception):
            soft_fail_exc(ctx, 'depends.history', again, '')
            return
        for rec, got in again:
            if got != rec[3]:
                soft_fail(ctx, 'depends.history', 'mismatch', 'legacy.interpolate', rec[2],
                         f'state (alt={rec[0]}, mass={rec[1]}, {rec[2]}) gave {rec[3]} first and {got} later')
                return


# --------------------------------------------------------------------------
# malformed tables

MALFORMED = [
    'row_removed', 'pair_duplicated', 'pair_duplicated_other_missing', 'fourth_mass_row', 'fourth_mass_all_levels',
    'descent_row_second_mass', 'tas_mass_dependent', 'climb_fuel_mass_dependent', 'missing_column',
    'ragged_short', 'ragged_long', 'staggered_holes',
]


@st.composite
def malformed_case(draw):
    return {
        'sub': 'malformed',
        'table': draw(table_desc(max_levels=8)),
        'mut': None,  # None = every damage kind in turn (replay files name the one that failed)
        'a': draw(st.integers(0, 10**6)),
        'b': draw(st.integers(0, 10**6)),
        'c': draw(st.integers(0, 10**6)),
    }


def damage(T: Table, mut: str, a: int, b: int, c: int):
    """Returns (cols, data, probe) of the damaged table; probe = (phase, FL, mass) of a node that went missing."""
    probe = None
    rows = [dict(r) for r in T.rows]
    cols = list(T.t['cols'])
    grid_rows = [k for k, r in enumerate(rows) if r['phase'] in ('climb', 'cruise')]
    climb_rows = [k for k, r in enumerate(rows) if r['phase'] == 'climb']
    desc_rows = [k for k, r in enumerate(rows) if r['phase'] == 'descent']
    k = grid_rows[a % len(grid_rows)]
    if mut == 'row_removed':
        del rows[k]
    elif mut == 'pair_duplicated':
        rows.insert(b % (len(rows) + 1), dict(rows[k]))
    elif mut == 'pair_duplicated_other_missing':
        # the (FL, mass) pair of row k disappears, another mass of the same level and phase appears twice
        r = rows[k]
        probe = (r['phase'], r['fl'], r['mass'])
        others = [x for x in rows if x['phase'] == r['phase'] and x['fl'] == r['fl'] and x['mass'] != r['mass']]
        rows[k] = dict(others[b % len(others)])
    elif mut == 'fourth_mass_row':
        r = dict(rows[k])
        r['mass'] = T.masses[2] + 1000.0 + (b % 5000)
        rows.insert(c % (len(rows) + 1), r)
    elif mut == 'fourth_mass_all_levels':
        m4 = T.masses[2] + 1000.0 + (b % 5000)
        extra = []
        for r in rows:
            if r['phase'] in ('climb', 'cruise') and r['mass'] == T.masses[2]:
                r4 = dict(r)
                r4['mass'] = m4
                extra.append(r4)
        rows += extra
    elif mut == 'descent_row_second_mass':
        r = dict(rows[desc_rows[a % len(desc_rows)]])
        r['mass'] = T.masses[0] if b % 2 else T.masses[2]
        rows.insert(c % (len(rows) + 1), r)
    elif mut == 'staggered_holes':
        # one point missing per mass, each at another flight level: every mass keeps the same number of levels and
        # there are no duplicates, but it is not a flight-level x mass grid
        ph = rows[k]['phase']
        fls = sorted({r['fl'] for r in rows if r['phase'] == ph})
        drop = {(fls[(b + j) % len(fls)], m) for j, m in enumerate(sorted({r['mass'] for r in rows if r['phase'] == ph}))}
        rows = [r for r in rows if not (r['phase'] == ph and (r['fl'], r['mass']) in drop)]
    elif mut == 'tas_mass_dependent':
        rows[k]['tas'] = rows[k]['tas'] * 1.25 + 1.0
    elif mut == 'climb_fuel_mass_dependent':
        kk = climb_rows[a % len(climb_rows)]
        rows[kk]['fuel_flow'] = rows[kk]['fuel_flow'] * 1.25 + 0.01
    data = T.data_rows(rows)
    if mut == 'missing_column':
        ci = cols.index(REQUIRED[a % 5])
        cols = cols[:ci] + cols[ci + 1:]
        data = [ln[:ci] + ln[ci + 1:] for ln in data]
    elif mut == 'ragged_short':
        kk = a % len(data)
        data[kk] = data[kk][:-1]
    elif mut == 'ragged_long':
        kk = a % len(data)
        data[kk] = data[kk] + [1.0]
    return cols, data, probe


def body_malformed(ctx: core.Ctx, case: dict):
    ctx.case(case)
    T = Table(case['table'])
    try:
        T.load()
    except Exception as e:  # noqa: BLE001
        soft_fail_exc(ctx, 'load.valid', e, 'valid_table_refused')
        return
    ctx.mark_nontrivial({'t': case['table'], 'abc': [case['a'], case['b'], case['c']]})
    for mut in MALFORMED if case.get('mut') is None else [case['mut']]:
        cols, data, probe = damage(T, mut, case['a'], case['b'], case['c'])
        ctx.label(f'malformed.{mut}')
        ctx.extra['damaged_tables'] = ctx.extra.get('damaged_tables', 0) + 1
        try:
            model = T.load(cols=cols, data=data)
        except Exception:  # noqa: BLE001  (any refusal is a refusal)
            continue
        # accepted: show what it then returns, for the report
        shown = ''
        if probe is not None:
            try:
                got = _Ev(ctx, model)(alt_for_fl(probe[1], 0)[0] if probe[1] not in (T.levels[probe[0]][0], T.levels[probe[0]][-1])
                                      else alt_for_fl(probe[1], 1 if probe[1] == T.levels[probe[0]][-1] else -1)[0],
                                      probe[2], probe[0])
                shown = f'; the missing node {probe} then evaluates to {got}'
            except Exception as e:  # noqa: BLE001
                shown = f'; evaluating the missing node {probe} raises {type(e).__name__}'
        ctx.current_case = dict(case, mut=mut)
        soft_fail(ctx, 'malformed.accepted', 'accepted', 'legacy.PerformanceTable.__post_init__', mut,
                  f'a table damaged by "{mut}" (not a complete FL x mass grid / violates the documented table rules) '
                  f'was accepted by PerformanceModel.from_data{shown}')
        ctx.current_case = case


# --------------------------------------------------------------------------
# PTF files


def _num(draw, lo, hi, dec):
    """A positive decimal token with `dec` decimals, lo <= value <= hi."""
    k = draw(st.integers(max(1, int(lo * 10**dec)), int(hi * 10**dec)))
    if dec == 0:
        return str(k)
    return f'{k // 10**dec}.{k % 10**dec:0{dec}d}'


@st.composite
def ptf_case(draw):
    n = draw(st.one_of(st.integers(2, 6), st.integers(7, 30)))
    fls = sorted(draw(st.lists(st.integers(0, 510), unique=True, min_size=n, max_size=n)))
    first_cruise = draw(st.integers(0, n - 2))
    # the top levels may lie above the climb ceiling: their CLIMB cell is blank while CRUISE/DESCENT are filled in
    last_climb = n - 1 if draw(st.booleans()) else draw(st.integers(1, n - 1))
    dec = draw(st.sampled_from([0, 1, 1, 2, 2, 3]))
    rows = []
    for k, fl in enumerate(fls):
        cr = None
        if k >= first_cruise:
            cr = [_num(draw, 50, 650, 0)] + [_num(draw, 0.01 if dec else 1, 999, dec) for _ in range(3)]
        cl = [_num(draw, 50, 650, 0)] + [_num(draw, 1, 9999, 0) for _ in range(3)] + [_num(draw, 0.01 if dec else 1, 999, dec)]
        if k > last_climb:
            cl = None
        de = [_num(draw, 50, 650, 0), _num(draw, 1, 9999, 0), _num(draw, 0.01 if dec else 1, 999, dec)]
        rows.append({'fl': fl, 'cr': cr, 'cl': cl, 'de': de})
    masses = sorted(draw(st.lists(st.integers(1000, 600000), unique=True, min_size=3, max_size=3)))
    name = draw(st.text('ABCDEFGHIJKLMNOPQRSTUVWXYZ0123456789', min_size=2, max_size=4))
    speeds = []
    for _ in range(3):
        lo = draw(st.integers(100, 300))
        speeds.append([str(lo), str(draw(st.integers(lo, 360))), f'0.{draw(st.integers(30, 95)):02d}'])
    return {
        'sub': 'ptf',
        'ptf': {
            'title': draw(st.sampled_from(['BADA', 'TASOPT'])),
            'name': name,
            'pad': max(1, 6 - len(name)),
            'temp': draw(st.sampled_from(['ISA', 'ISA', 'ISA+10', 'ISA+20', 'ISA-10'])),
            'masses': masses,
            'max_alt': draw(st.integers(1000, 60000)),
            'payload': draw(st.integers(1, 150000)),
            'comma': draw(st.booleans()),
            'blank': draw(st.booleans()),
            'speeds': speeds,
            'rows': rows,
        },
    }


def render_ptf(p: dict) -> str:
    def big(v):
        return f'{v:,}' if p['comma'] else str(v)

    L = [
        f'{p["title"]} PERFORMANCE FILE' + ' ' * 37 + 'Mar 09 2025',
        '',
        f'AC/Type: {p["name"]}{"_" * p["pad"]}',
        ' ' * 30 + 'Source OPF File:               Mar 09 2025',
        ' ' * 30 + 'Source APF file:               Mar 09 2025',
        '',
        f' Speeds:   CAS(LO/HI)  Mach   Mass Levels [kg]         Temperature:  {p["temp"]}',
    ]
    tags = [('climb  ', 'low    ', ''), ('cruise ', 'nominal', f'        Max Alt. [ft]:  {big(p["max_alt"])}'),
            ('descent', 'high   ', f'        Max Payload [kg]:  {big(p["payload"])}')]
    for (phase, lab, tail), sp, m in zip(tags, p['speeds'], p['masses']):
        L.append(f' {phase} - {sp[0]}/{sp[1]}     {sp[2]}   {lab} -   {m}{tail}')
    bar = '=' * 90
    L += [
        bar,
        ' FL |          CRUISE           |               CLIMB               |       DESCENT',
        '    |  TAS          fuel        |  TAS          ROCD         fuel   |  TAS  ROCD    fuel',
        '    | [kts]       [kg/min]      | [kts]        [fpm]       [kg/min] | [kts] [fpm] [kg/min]',
        '    |          lo   nom    hi   |         lo    nom    hi    nom    |        nom    nom',
        bar,
    ]
    for r in p['rows']:
        cr = r['cr']
        cruise = ' ' * 27 if cr is None else f'  {cr[0]:>3}    {cr[1]:>5} {cr[2]:>5} {cr[3]:>5} '
        cl = r['cl']
        climb = ' ' * 35 if cl is None else f'  {cl[0]:>3}    {cl[1]:>4}  {cl[2]:>4}  {cl[3]:>4}   {cl[4]:>5}  '
        de = r['de']
        descent = f'  {de[0]:>3}   {de[1]:>4}   {de[2]:>5}'
        L.append(f'{r["fl"]:>3} |{cruise}|{climb}|{descent}')
        if p['blank']:
            L.append('    |' + ' ' * 27 + '|' + ' ' * 35 + '|')
    L.append(bar)
    return '\n'.join(L) + '\n'


def ptf_expected_climb(cl):
    return float(cl[0]) * KT, [float(x) * FPM for x in cl[1:4]], float(cl[4]) * PER_MIN


_DIRS: dict = {}


def _dir(ctx):
    d = _DIRS.get(id(ctx))
    if d is None:
        d = ctx.fresh_dir()
        (d / 'lto.toml').write_text(_LTO_TOML)
        _DIRS[id(ctx)] = d
    return d


def body_ptf(ctx: core.Ctx, case: dict):
    ctx.case(case)
    L = lib()
    p = case['ptf']
    d = _dir(ctx)
    path = d / 'case.PTF'
    path.write_text(render_ptf(p))
    ncr = sum(1 for r in p['rows'] if r['cr'] is not None)
    ctx.label('ptf.cruise_blank_at_low_levels' if ncr < len(p['rows']) else 'ptf.cruise_everywhere',
              'ptf.climb_blank_at_top_levels' if any(r['cl'] is None for r in p['rows']) else 'ptf.climb_everywhere',
              'ptf.blank_separators' if p['blank'] else 'ptf.no_separators',
              'ptf.decimals' if '.' in p['rows'][0]['cl'][4] else 'ptf.integers_only',
              f'ptf.rows.{"2-6" if len(p["rows"]) <= 6 else "7-30"}')
    ctx.mark_nontrivial({'p': p})
    ctx.sample({'ptf_head': {k: p[k] for k in ('name', 'masses', 'max_alt', 'payload', 'temp')}, 'rows': p['rows'][:2]})

    try:
        data = L.PTFData.load(str(path))
    except Exception as e:  # noqa: BLE001
        soft_fail_exc(ctx, 'ptf.parse', e, 'wellformed_file_refused')
        return
    # header
    isa = 0 if p['temp'] == 'ISA' else int(p['temp'][3:])
    want = {
        'aircraft_type': p['name'], 'maximum_altitude_ft': p['max_alt'], 'maximum_payload': p['payload'],
        'low_mass': p['masses'][0], 'nominal_mass': p['masses'][1], 'high_mass': p['masses'][2], 'isa_offset': isa,
    }
    for k, w in want.items():
        g = getattr(data, k)
        if g != w:
            soft_fail(ctx, 'ptf.header', 'mismatch', 'ptf_reader.load', k, f'{k}: parsed {g!r}, file says {w!r}')
            return
    for phn, sp in zip(('climb', 'cruise', 'descent'), p['speeds']):
        s = getattr(data.speeds, phn)
        w = (int(sp[0]) * KT, int(sp[1]) * KT, float(sp[2]))
        g = (s.cas_low, s.cas_high, s.mach)
        if not all(abs(a - b) <= UNIT_RTOL * abs(b) for a, b in zip(g, w)):
            soft_fail(ctx, 'ptf.header', 'mismatch', 'ptf_reader.load', 'speeds', f'{phn} speeds parsed {g}, file says {w}')
            return

    models = []
    # (a) in-memory: build_performance_table -> from_data
    try:
        table = L.mpm.build_performance_table(data)
        models.append(('from_data', L.PerformanceModel.from_data({
            'model_type': 'legacy', 'aircraft_name': data.aircraft_type, 'aircraft_class': 'narrow',
            'maximum_altitude_ft': data.maximum_altitude_ft, 'maximum_payload_kg': data.maximum_payload,
            'number_of_engines': 2, 'speeds': data.speeds.model_dump(), 'LTO_performance': None,
            'flight_performance': table,
        })))
    except Exception as e:  # noqa: BLE001
        soft_fail_exc(ctx, 'ptf.model', e, 'from_data')
        return
    # (b) the real command: model file written by `legacy`, read by PerformanceModel.load
    from click.testing import CliRunner

    out = d / 'model.toml'
    if out.exists():
        out.unlink()
    res = CliRunner().invoke(L.mpm.cli, [
        '--output-file', str(out), 'legacy', '--lto-source', 'custom', '--lto-file', str(d / 'lto.toml'),
        '--ptf-file', str(path), '--aircraft-class', 'narrow', '--number-of-engines', '2'])
    core.reset_config()
    if res.exit_code != 0 or not out.exists():
        if res.exception is not None and not isinstance(res.exception, SystemExit):
            soft_fail_exc(ctx, 'ptf.model', res.exception, 'cli')
        else:
            soft_fail(ctx, 'ptf.model', 'mismatch', 'make_performance_model.legacy', 'cli',
                     f'command failed rc={res.exit_code}: {res.output[-400:]}')
        return
    try:
        models.append(('cli', L.PerformanceModel.load(out)))
    except Exception as e:  # noqa: BLE001
        soft_fail_exc(ctx, 'ptf.model', e, 'cli_load')
        return
    m_cli = models[1][1]
    hdr = (m_cli.aircraft_name, m_cli.maximum_altitude_ft, m_cli.maximum_payload_kg)
    if hdr != (p['name'], p['max_alt'], p['payload']):
        soft_fail(ctx, 'ptf.header', 'mismatch', 'make_performance_model.legacy', 'model_file',
                 f'model file header {hdr}, PTF says {(p["name"], p["max_alt"], p["payload"])}')
        return

    # rows
    nrows = 0
    for how, model in models:
        ev = _Ev(ctx, model)
        for ph, key in (('climb', 'cl'), ('cruise', 'cr'), ('descent', 'de')):
            have = [r for r in p['rows'] if r[key] is not None]
            for k, r in enumerate(have):
                side = 1 if k == len(have) - 1 else (-1 if k == 0 else 0)
                alt, _ = alt_for_fl(float(r['fl']), side)
                c = r[key]
                for j, m in enumerate(p['masses']):
                    if ph == 'climb':
                        tas, rl, ff = ptf_expected_climb(c)
                        want_v = (tas, rl[j], ff)
                    elif ph == 'cruise':
                        want_v = (float(c[0]) * KT, 0.0, float(c[1 + j]) * PER_MIN)
                    else:
                        want_v = (float(c[0]) * KT, -float(c[1]) * FPM, float(c[2]) * PER_MIN)
                    try:
                        got = ev(alt, float(m), ph, record=False)
                    except Exception as e:  # noqa: BLE001
                        got = e
                    if isinstance(got, Exception):
                        soft_fail_exc(ctx, 'ptf.rows', got, f'{ph}.{how}')
                        return
                    nrows += 1
                    if not all(isinstance(g, float) and abs(g - w) <= UNIT_RTOL * abs(w) + 1e-12
                               for g, w in zip(got, want_v)):
                        soft_fail(ctx, 'ptf.rows', 'mismatch', 'ptf_reader.load', f'{ph}',
                                 f'{how}: PTF row FL={r["fl"]} {ph} {c} mass={m}: model gives {got}, '
                                 f'row converted to SI is {want_v}')
                        return
    ctx.extra['ptf_row_checks'] = ctx.extra.get('ptf_row_checks', 0) + nrows


# --------------------------------------------------------------------------
# driver

BODIES = {'table': body_table, 'malformed': body_malformed, 'ptf': body_ptf}


def run(ctx: core.Ctx):
    ctx.level = 'exploration'
    ctx.rule = (
        'Three Hypothesis runs. (1) valid tables: 2-40 distinct flight levels (regular/irregular integers, quarter '
        'levels, arbitrary floats), three masses, climb/cruise/descent sub-tables on possibly different level '
        'subsets, rows in PTF order / phase blocks / reversed / shuffled, permuted and extra (named and unnamed) '
        'columns, mixed-case labels and keys; per table every node of every phase is queried with the altitude '
        'spelled (a) so that altitude*METERS_TO_FL is the tabulated level and (b) as FL*FL_TO_METERS, plus 6-14 drawn '
        'queries (interior vs own bilinear formula and surrounding-value bounds, cell edges, continuity probes with '
        'an own Lipschitz bound, outside altitude/mass just and far beyond, min/max mass, descent mass '
        'independence, other AircraftState inputs, history). (2) a valid table (checked accepted) with one of 11 '
        'structural damages must be refused by from_data. (3) generated BADA-layout PTF text -> PTFData.load -> '
        'build_performance_table -> from_data and the real `legacy` command -> PerformanceModel.load; every PTF '
        'row and the header must be reproduced with own unit constants. evaluations = cases (tables + damaged '
        'tables + PTF files); coverage.queries = evaluate() calls. A table case is non-trivial when its rows are '
        'not (mass, FL)-sorted or its cruise level set differs from its climb level set; every damaged table and '
        'every PTF file is distinct by content hash.'
    )
    ctx.assumptions = [
        'flight levels >= 0, level spacing >= 0.08 FL, masses 1e3..6e5 kg at least 1 kg apart; |ROCD| >= 2e-3 m/s in '
        'climb/descent and |ROCD| <= 5e-7 in cruise (the phase of a row is defined by the sign of ROCD, tolerance 1e-6)',
        'descent rows are given at the nominal (middle) mass as the PerformanceTable docstring says',
        '"outside" means at least 1e-6 relative (or 1e-4 FL) beyond the tabulated range; closer points are not judged',
        'PTF files: ascending integer FLs, non-zero ROCD cells (a 0 fpm climb cell would change the phase of the row), '
        'aircraft type padded with underscores as in BADA; unit constants knot=1852/3600 m/s (tolerance 1e-5 covers '
        "AEIC's 0.514444), fpm=0.3048/60, kg/min=1/60",
        'any exception counts as refusal/rejection',
    ]
    lib()
    self_test()
    ctx.extra['queries'] = 0
    ctx.extra['ptf_row_checks'] = 0
    ctx.extra['damaged_tables'] = 0
    core.run_given(ctx, table_case(), lambda c: body_table(ctx, c), ctx.n(260, 1500), salt=0)
    core.run_given(ctx, malformed_case(), lambda c: body_malformed(ctx, c), ctx.n(120, 900), salt=20)
    core.run_given(ctx, ptf_case(), lambda c: body_ptf(ctx, c), ctx.n(60, 500), salt=40)
    core.reset_config()


def replay(ctx: core.Ctx, case):
    lib()
    ctx.replay_only = case.get('only')
    BODIES[case['sub']](ctx, case)
    core.reset_config()
