"""C03 — what is stored in a trajectory store is what is read back.

Round-trip oracle: generated field sets (all six dimension shapes, int/float/str
types, required/optional/default), generated trajectories (arbitrary species
subsets per field, unset optional fields), four file layouts, read back in the
writing session, after close+open, and after an append session; compared with
the model by an independent field-by-field comparison."""

from __future__ import annotations

from hypothesis import strategies as st

from .. import core
from . import _store_common as sc

SHARDED = True
PRESSURE = {'fields': [{'dims': 'TSP', 'type': 'f8', 'required': True} for _ in range(4)], 'tag': 99}
LAYOUTS = ['file', 'memory_save', 'assoc', 'create_assoc']


def _group_species(desc0, fdefs_group):
    out = set()
    for fd in fdefs_group:
        for v in desc0['extras'][sc.fs_name(fd)]:
            for key in ('s', 'sseed', 'sm'):
                if key in v:
                    out.update(v[key])
    return [s for s in sc.SPECIES_NAMES if s in out]


@st.composite
def later_desc(draw, fdefs, groups, desc0, n_range, extend=False):
    """A later trajectory whose species stay inside what the first trajectory
    put into the same file (unless extend=True for exactly one field)."""
    d = draw(sc.traj_desc((), n_range=n_range, fid=None))
    d['flight_id'] = None if desc0['flight_id'] is None else draw(sc.FLIGHT_ID)
    for g in groups:
        gf = [fdefs[i] for i in g]
        pool = _group_species(desc0, gf)
        for fd in gf:
            vals = []
            for f in fd['fields']:
                has_sp = 'S' in f['dims']
                if has_sp and not pool:
                    # nothing in the file to stay inside of: unset, or (required) present with no species at all
                    empty = {'TS': {'s': {}}, 'TSP': {'sseed': {}}, 'TSM': {'sm': {}}}[f['dims']]
                    vals.append({'unset': 'none'} if not f['required'] else empty)
                    continue
                vals.append(draw(sc.field_value(f, pool if has_sp else None)))
            d['extras'][sc.fs_name(fd)] = vals
    if extend:
        cands = [
            (sc.fs_name(fd), k)
            for fd in fdefs
            for k, f in enumerate(fd['fields'])
            if 'S' in f['dims'] and 'unset' not in (d['extras'][sc.fs_name(fd)][k] or {})
        ]
        if cands:
            nm, k = draw(st.sampled_from(cands))
            fd = next(x for x in fdefs if sc.fs_name(x) == nm)
            grp = next(g for g in groups if any(sc.fs_name(fdefs[i]) == nm for i in g))
            pool = _group_species(desc0, [fdefs[i] for i in grp])
            outside = [s for s in sc.SPECIES_NAMES if s not in pool]
            if outside:
                extra = draw(st.sampled_from(outside))
                v = d['extras'][nm][k]
                f = fd['fields'][k]
                for key, gen in (('s', sc.scalar_strategy(f['type'])), ('sseed', st.integers(0, 2**31))):
                    if key in v:
                        v[key][extra] = draw(gen)
                if 'sm' in v:
                    v['sm'][extra] = [draw(sc.scalar_strategy(f['type'])) for _ in sc.MODES]
                d['extends'] = True
    return d


@st.composite
def case_strategy(draw, quick=True):
    nfs = draw(st.sampled_from([1, 2, 2, 3, 3]))
    fdefs = []
    seen = set()
    for _ in range(nfs):
        fd = draw(sc.fieldset_def(max_fields=4))
        if sc.fs_name(fd) in seen:
            continue
        seen.add(sc.fs_name(fd))
        fdefs.append(fd)
    layout = draw(st.sampled_from(LAYOUTS))
    # cache pressure: four per-point species fields make the *estimated* size of a 500-point trajectory ~300 kB,
    # so a 1 MB cache evicts during the writing session and reads there come from the file being written
    pressure = layout != 'memory_save' and draw(st.integers(0, 3)) == 0
    if pressure and sc.fs_name(PRESSURE) not in seen:
        fdefs.append(PRESSURE)
    idx = list(range(len(fdefs)))
    if layout in ('assoc', 'create_assoc'):
        # partition: group 0 = base file, others = associated files
        assign = [draw(st.integers(0, 2)) for _ in idx]
        if all(a == 0 for a in assign):
            assign[draw(st.integers(0, len(idx) - 1))] = 1
        if len(idx) >= 2 and draw(st.booleans()):
            # several field sets in one associated file (one create_associated call mapping several field sets)
            assign[-1] = assign[-2] = 1
        groups = [[i for i in idx if assign[i] == g] for g in range(3)]
        groups = [groups[0]] + [g for g in groups[1:] if g]
    else:
        groups = [idx]
    big = draw(st.integers(0, 9)) == 0
    n_range = (1, 130) if not big else (900, 1100)
    if pressure:
        n_range = (450, 600)
    desc0 = draw(sc.traj_desc(fdefs, n_range=n_range))
    # species fields that are required must be set -> traj_desc guarantees it
    ntraj = draw(st.integers(0, 5)) if not pressure else draw(st.integers(4, 6))
    extend_at = draw(st.integers(0, max(ntraj - 1, 0))) if (ntraj and draw(st.integers(0, 3)) == 0) else None
    trajs = [desc0]
    for k in range(ntraj):
        trajs.append(draw(later_desc(fdefs, groups, desc0, n_range, extend=(extend_at == k))))
    for d in trajs:
        for nm, vals in d['extras'].items():
            if any(v is None for v in vals):
                # required species field with an empty pool cannot happen (desc0 sets it)
                raise core.HarnessError('generator produced an impossible required field')
    napp = draw(st.integers(0, 2))
    app_extend = draw(st.integers(0, 3)) == 0
    app = [draw(later_desc(fdefs, groups, desc0, n_range, extend=(app_extend and k == 0))) for k in range(napp)]
    return {
        'fdefs': fdefs,
        'layout': layout,
        'groups': groups,
        'trajs': trajs,
        'append': app,
        'cache_mb': 1 if pressure else draw(st.sampled_from([1, 1, 2, 2048])),
        'pressure': pressure,
        'refused_save_first': draw(st.booleans()),
        'read_order': draw(st.sampled_from(['forward', 'backward', 'old_first'])),
    }


def _order(n, how):
    idx = list(range(n))
    if how == 'backward':
        return idx[::-1]
    if how == 'old_first':
        return idx[: n // 2][::-1] + idx[n // 2:]
    return idx


class _Checker:
    def __init__(self, ctx, case):
        self.ctx = ctx
        self.case = case

    def compare(self, store, i, desc, stage, fdefs, absent=()):
        try:
            t = store[i]
        except Exception as e:  # noqa: BLE001
            self.ctx.fail_exc(f'read.{stage}', e, '', self.case)
            return
        for name, dims, typ, kind, detail in sc.compare_traj(t, desc, fdefs, absent):
            disc = f'{dims}/{typ}' if kind in ('unset_not_none',) else dims
            self.ctx.fail(f'roundtrip.{kind}', 'mismatch', 'TrajectoryStore', disc,
                          f'{stage}: trajectory {i} field {name} ({dims},{typ}): {detail}', self.case)


def body(ctx: core.Ctx, case: dict):
    from AEIC.trajectories import TrajectoryStore

    fdefs = case['fdefs']
    layout = case['layout']
    groups = case['groups']
    if layout == 'create_assoc':
        # The mapping function of create_associated() hands over an object whose attributes all exist; a field
        # "never assigned" does not exist for it, its attribute is None.  The model therefore expects None (not the
        # field's default) for those values.  (False alarm corrected: DESIGN section 13.)
        import copy as _copy

        case = _copy.deepcopy(case)
        for g in groups[1:]:
            for i in g:
                nm = sc.fs_name(fdefs[i])
                for desc in case['trajs']:
                    desc['extras'][nm] = [
                        {'unset': 'none'} if v.get('unset') == 'never' else v for v in desc['extras'][nm]
                    ]
    ctx.case(case)
    for fd in fdefs:
        sc.register_fieldset(fd)
    d = ctx.fresh_dir()
    base = d / 'base.nc'
    assoc_paths = [d / f'assoc{k}.nc' for k in range(1, len(groups))]
    assoc_names = [[sc.fs_name(fdefs[i]) for i in g] for g in groups[1:]]
    chk = _Checker(ctx, case)
    TrajectoryStore.active_in_thread = None
    model: list[dict] = []
    ext_refused = False
    labels = {layout}
    if case.get('pressure'):
        labels.add('cache_pressure')

    def add_all(store, descs, skip=()):
        nonlocal ext_refused
        for desc in descs:
            t = sc.build_traj(desc, fdefs, skip_fieldsets=skip)
            if desc.get('extends'):
                labels.add('extension')
                before = len(store)
                try:
                    idx = store.add(t)
                except core.PASS_THROUGH:
                    raise
                except Exception:  # noqa: BLE001  a refusal is allowed for the extension class
                    ext_refused = True
                    labels.add('extension_refused')
                    if len(store) != before:
                        ctx.fail('extension.refused_but_changed', 'mismatch', 'TrajectoryStore.add', '',
                                 f'add refused for a species outside the file but len changed {before}->{len(store)}', case)
                    continue
            else:
                try:
                    idx = store.add(t)
                except Exception as e:  # noqa: BLE001
                    ctx.fail_exc('add', e, '', case)
                    raise _Abort()
            if idx != len(model):
                ctx.fail('add.index', 'mismatch', 'TrajectoryStore.add', layout,
                         f'add returned {idx}, expected {len(model)}', case)
            model.append(desc)

    class _Abort(Exception):
        pass

    store = None
    try:
        try:
            if layout == 'file':
                store = TrajectoryStore.create(base_file=base, cache_size_mb=case['cache_mb'])
                add_all(store, case['trajs'])
            elif layout == 'memory_save':
                store = TrajectoryStore.create(cache_size_mb=2048)
                add_all(store, case['trajs'])
                if case.get('refused_save_first') and fdefs:
                    # a save that is refused (the associated file already exists) must leave the store as it was:
                    # the following plain save has to persist every field set
                    blocker = d / 'exists_already.nc'
                    blocker.write_text('x')
                    try:
                        store.save(d / 'unused_base.nc', associated_files=[(blocker, [sc.fs_name(fdefs[0])])])
                    except core.PASS_THROUGH:
                        raise
                    except Exception:  # noqa: BLE001  (the refusal)
                        labels.add('refused_save_then_save')
                    else:
                        ctx.fail('save.refusal_accepted', 'mismatch', 'TrajectoryStore.save', '',
                                 'save() with an associated file path that already exists was accepted', case)
                store.save(base)
            elif layout == 'assoc':
                store = TrajectoryStore.create(
                    base_file=base,
                    associated_files=[(p, nms) for p, nms in zip(assoc_paths, assoc_names)],
                    cache_size_mb=case['cache_mb'],
                )
                add_all(store, case['trajs'])
            else:  # create_assoc
                skip = {nm for nms in assoc_names for nm in nms}
                store = TrajectoryStore.create(base_file=base, cache_size_mb=case['cache_mb'])
                add_all(store, case['trajs'], skip=skip)
                store.close()
                store = TrajectoryStore.open(base_file=base)
                for p, g in zip(assoc_paths, groups[1:]):
                    gf = [fdefs[i] for i in g]
                    counter = iter(range(len(model)))

                    def mapping(traj, _gf=gf, _c=counter):
                        return sc.build_extras_object(model[next(_c)], _gf)

                    try:
                        store.create_associated(p, [sc.fs_name(x) for x in gf], mapping)
                    except core.PASS_THROUGH:
                        raise
                    except Exception as e:  # noqa: BLE001
                        if any(m.get('extends') for m in model):
                            # a species outside the first result's species: refusal allowed
                            labels.add('extension_refused')
                            return
                        ctx.fail_exc('create_associated', e, '', case)
                        return
                store.close()
                store = TrajectoryStore.open(base_file=base, associated_files=assoc_paths)
        except _Abort:
            return
        except core.PASS_THROUGH:
            raise
        except Exception as e:  # noqa: BLE001
            ctx.fail_exc('create', e, '', case)
            return

        # read back in the writing session
        if any(i not in store._trajectories for i in range(len(model))):
            labels.add('session_read_from_file_after_eviction')
        if len(store) != len(model):
            ctx.fail('len.session', 'mismatch', 'TrajectoryStore.__len__', layout,
                     f'len {len(store)} != {len(model)} in writing session', case)
        for i in _order(len(model), case['read_order']):
            chk.compare(store, i, model[i], 'session', fdefs)
        store.close()
        store = None

        # reopen
        opened_assoc = assoc_paths if layout in ('assoc', 'create_assoc') else []
        store = TrajectoryStore.open(base_file=base, associated_files=opened_assoc or None)
        if len(store) != len(model):
            ctx.fail('len.reopen', 'mismatch', 'TrajectoryStore.__len__', layout,
                     f'len {len(store)} != {len(model)} after reopen', case)
        for i in _order(len(model), case['read_order']):
            chk.compare(store, i, model[i], 'reopen', fdefs)
        store.close()
        store = None

        # base file alone (associated field sets must simply be absent)
        if layout in ('assoc', 'create_assoc') and model:
            absent = {nm for nms in assoc_names for nm in nms}
            store = TrajectoryStore.open(base_file=base)
            chk.compare(store, 0, model[0], 'base_only', fdefs, absent)
            store.close()
            store = None

        # append session
        if case['append'] and model:
            labels.add('append')
            store = TrajectoryStore.append(base_file=base, associated_files=opened_assoc or None)
            try:
                add_all(store, case['append'])
            except _Abort:
                return
            store.close()
            store = TrajectoryStore.open(base_file=base, associated_files=opened_assoc or None)
            if len(store) != len(model):
                ctx.fail('len.append', 'mismatch', 'TrajectoryStore.__len__', layout,
                         f'len {len(store)} != {len(model)} after append', case)
            for i in _order(len(model), 'backward'):
                chk.compare(store, i, model[i], 'after_append', fdefs)
            store.close()
            store = None
    finally:
        if store is not None:
            try:
                store.close()
            except Exception:  # noqa: BLE001
                pass
        TrajectoryStore.active_in_thread = None

    # bookkeeping: non-trivial?
    nontrivial = layout in ('assoc', 'create_assoc')
    sp_sets = []
    for desc in case['trajs']:
        for fd in fdefs:
            for v in desc['extras'][sc.fs_name(fd)]:
                if 'unset' in v:
                    nontrivial = True
                    labels.add('unset_optional')
                for key in ('s', 'sseed', 'sm'):
                    if key in v:
                        names = [s for s in sc.SPECIES_NAMES if s in v[key]]
                        sp_sets.append(tuple(names))
                        if names != sc.SPECIES_NAMES[: len(names)]:
                            nontrivial = True
                            labels.add('species_gap')
    if len(set(sp_sets)) > 1:
        nontrivial = True
        labels.add('species_differ')
    for fd in fdefs:
        for f in fd['fields']:
            labels.add('dims_' + f['dims'])
            labels.add('type_' + f['type'])
    if any(t['n'] > 50 for t in case['trajs']):
        labels.add('over_50_points')
    ctx.label(*labels)
    if nontrivial:
        ctx.mark_nontrivial({
            'f': [fd for fd in fdefs], 'layout': layout, 'groups': groups,
            'n': [t['n'] for t in case['trajs']], 'sp': sorted(set(sp_sets)),
        })
    ctx.sample({'layout': layout, 'groups': groups, 'fieldsets': fdefs,
                'lengths': [t['n'] for t in case['trajs']], 'first_extras': case['trajs'][0]['extras']})


def run(ctx: core.Ctx):
    ctx.level = 'exploration'
    ctx.rule = (
        'Hypothesis-generated cases: 1-3 generated field sets (fields over T/TP/TS/TSP/TM/TSM x f8/f4/i4/i8/str, '
        'required/optional/default), 1-6 trajectories of 1-130 (10%: ~1000) points with arbitrary species subsets per '
        'field and unset optional fields, layout in {file, memory+save, base+associated, create_associated}, optional '
        'append session; every stored trajectory is read back in the writing session, after reopen and after append and '
        'compared field by field (bitwise arrays, dtype, exact species/mode key sets, None for unset). Non-trivial = a '
        'species set that is not an enum prefix, differing species sets, an unset optional field or an associated-file '
        'layout; distinct = hash of (field-set definitions, layout, lengths, species sets).'
    )
    ctx.assumptions = [
        'NaN/inf and NetCDF fill values are not generated (fill = unset by format definition)',
        'zero-point trajectories excluded; every trajectory fits the cache',
        'later trajectories keep species inside the species the first trajectory put in the same file, except the '
        'labelled extension class where a refusal that leaves the store unchanged is also accepted',
    ]
    core.run_given(ctx, case_strategy(), lambda c: body(ctx, c), ctx.n(120, 900))


def replay(ctx: core.Ctx, case):
    body(ctx, case)
