"""C05 — gridded pieces land in the cells the path actually crosses.

Oracle (reference in _grid_common: plain-float parametric intersections, slab clipping, pyproj lengths,
cross-checked by dense sampling of the map line):
 (a) the six outputs have matching lengths; altitude/time outputs are None exactly when the input was None;
 (b) the number of pieces of every segment equals the number of cell changes between its end points + 1
     (exact comparisons only), so pieces can be assigned to segments without trusting any output;
 (c) altitude cell, time cell and every state variable of every piece are those of the segment's start point;
 (d) walking along a leg, piece j occupies the cumulative interval [c_j, c_j+1] of the leg's shares (shares
     = pieces of the unit integrated variable, normalised by their sum over the leg; what they add up to is
     C04's subject).  That interval must lie inside the interval (in cumulative reference length, normalised the
     same way) on which the straight map line is inside the (closed, 1e-9 rad widened) cell the piece is
     attributed to -> right cell, path order, and share = share of the length lying in the cell, and because the
     pieces tile [0, 1] no entered cell can be short-changed; a piece with share <= ~1e-12 is "nothing" and is
     ignored; a cell the path does not enter has an empty interval, so any share there is flagged;
 (e) the antimeridian segment is split between its two legs in proportion to the leg lengths (geodesic lengths or
     chord sums over the crossings -- both readings and anything between are accepted);
 (f) zero-length segments: one piece, in a cell whose closure contains the point.
"""

from __future__ import annotations

import bisect
import math

from .. import core
from . import _grid_common as G

SHARDED = True


def _expected_repeat(values, counts):
    out = []
    for v, c in zip(values, counts):
        out.extend([v] * c)
    return out


def _check_start_values(ctx, case, segs, out, counts):
    import numpy as np

    def first_bad(got, want):
        got = np.asarray(got, dtype=float)
        want = np.asarray(want, dtype=float)
        bad = np.nonzero(~((got == want) | (np.isnan(got) & np.isnan(want))))[0]
        return None if len(bad) == 0 else int(bad[0])

    def seg_of(i):
        acc = 0
        for s, c in enumerate(counts):
            acc += c
            if i < acc:
                return s
        return len(counts) - 1

    n = len(case['lat'])
    state_in = [[float(i) for i in range(n)]] + case['state']
    for k, (vin, vout) in enumerate(zip(state_in, out[4])):
        want = _expected_repeat(vin[:-1], counts)
        b = first_bad(vout, want)
        if b is not None:
            s = seg_of(b)
            if G.fail(ctx, 'start_point.state', 'mismatch', G.W_FRACTIONS, 'antimeridian' if segs[s].am else 'generic',
                        f'state variable {k} piece {b} (segment {s}): got {float(vout[b])!r}, start-point value {want[b]!r}'):
                return False
    for name, key, gkey, o in (('altitude', 'alt', 'galt', out[2]), ('time', 'time', 'gtime', out[3])):
        if case[key] is None:
            continue
        g = case[gkey]
        want = _expected_repeat([g[bisect.bisect_left(g, x) - 1] for x in case[key][:-1]], counts)
        b = first_bad(o, want)
        if b is not None:
            s = seg_of(b)
            if G.fail(ctx, f'start_point.{name}', 'mismatch', f'_trajectory_segment_{name}_grid_indices',
                        'antimeridian' if segs[s].am else 'generic',
                        f'{name} cell of piece {b} (segment {s}): got lower edge {float(o[b])!r}, expected {want[b]!r} '
                        f'(start-point {name} {case[key][s]!r})'):
                return False
    return True


def _check_segment(ctx, case, s, seg, pc, ps):
    """One segment: pc = cells (i, j) of its pieces, ps = their shares (pieces of the unit variable), in output
    order (first leg, then second leg for the antimeridian segment).  Any ctx.fail that returns (listed known
    finding) ends the checking of this segment."""
    if seg.zero:
        # (f) every piece lies in a cell whose closure contains the point
        pos = 0
        for leg in seg.legs:
            for (i, j) in pc[pos: pos + leg.count]:
                if leg.extent(i, j, G.DELTA) is None:
                    G.fail(ctx, 'cell.zero_length', 'mismatch', G.W_HORIZONTAL, seg.disc(),
                             f'segment {s}: repeated point {leg.p0} attributed to cell '
                             f'(lat {case["glat"][i]!r}, lon {case["glon"][j]!r})')
                    return
            pos += leg.count
        return
    # ill-conditioned legs (a coordinate changing by < 1e-6 rad across a grid line of that family): every symptom is
    # reported under one clause so that the root cause has one signature
    ill = seg.illcond

    def clause(name):
        return 'cell.attribution' if ill else name

    total = math.fsum(ps)
    if any(not math.isfinite(x) for x in ps) or not total > 0:
        G.fail(ctx, clause('share.finite'), 'mismatch', G.W_HORIZONTAL if ill else G.W_FRACTIONS, seg.disc(),
               f'segment {s} {seg.p0}->{seg.p1}: shares are not finite with a positive sum: {ps[:12]}')
        return
    # Shares are compared after normalisation by their sum over the leg (the property fixes the split between cells;
    # what the shares add up to is C04's subject).  Reference: cumulative chord length along the leg.
    pos = 0
    leg_sums = []
    for leg in seg.legs:
        lpc = pc[pos: pos + leg.count]
        lps = ps[pos: pos + leg.count]
        pos += leg.count
        lsum = math.fsum(lps)
        leg_sums.append(lsum)
        if leg.lrad == 0.0:
            continue  # zero-length leg of an antimeridian segment: its cell is not constrained, its share is checked below
        if not lsum > 0:
            G.fail(ctx, 'share.leg', 'mismatch', G.W_DATELINE, seg.disc(),
                   f'segment {s}: the leg {leg.p0}->{leg.p1} received no share: {lps[:12]}')
            return
        # rounding noise of a crossing parameter is ~ eps * |coordinate| / (smallest non-zero coordinate change); the
        # generator keeps that change >= NEAR except on ill-conditioned legs, which get no extra allowance
        comp = max(G.NEAR, min(x for x in (abs(leg.dla), abs(leg.dlo)) if x > 0))
        tol = 1e-7 + 1e-13 / comp
        tiny = G.TINY + 1e-14 / comp
        ref_total = leg.pieces_length()
        exts = [leg.extent(i, j, G.DELTA) for (i, j) in lpc]
        ts = []
        for e in exts:
            if e is not None:
                ts.extend(e)
        gs = iter(leg.G(ts))
        c = 0.0
        for n_, ((i, j), sh, e) in enumerate(zip(lpc, lps, exts)):
            sh = sh / lsum
            c0, c1 = c, c + sh
            c = c1
            if e is not None:
                g_lo, g_hi = next(gs) / ref_total, next(gs) / ref_total
            if abs(sh) <= tiny:
                continue
            where = (f'segment {s}, leg {leg.p0}->{leg.p1}, piece {n_} of {leg.count}: cell lower edges '
                     f'(lat {case["glat"][i]!r}, lon {case["glon"][j]!r}) normalised share {sh!r}; '
                     f'cells of the leg {lpc[:10]} raw shares {lps[:10]}')
            if sh < 0:
                G.fail(ctx, clause('share.negative'), 'mismatch', G.W_HORIZONTAL if ill else G.W_FRACTIONS, seg.disc(), where)
                return
            if e is None:
                G.fail(ctx, clause('cell.not_entered'), 'mismatch', G.W_HORIZONTAL, seg.disc(),
                       where + ' -- the straight map line never enters this cell')
                return
            if c0 < g_lo - tol or c1 > g_hi + tol:
                G.fail(ctx, 'cell.attribution', 'mismatch', G.W_HORIZONTAL, seg.disc(),
                       where + f' -- the piece occupies the cumulative-length fraction [{c0!r},{c1!r}] of the leg but '
                       f'the path is inside this cell only on [{g_lo!r},{g_hi!r}] (leg parameter t in [{e[0]!r},{e[1]!r}])')
                return
    if seg.am and not ill:
        # (e) split between the two legs "in proportion to the two part lengths": the part lengths may be read as
        # the geodesic lengths of the legs or as their chord sums over the grid crossings; anything between is accepted
        l1, l2 = (G.gc_one(leg.p0, leg.p1) for leg in seg.legs)
        p1, p2 = (leg.pieces_length() for leg in seg.legs)
        f_a, f_b = l1 / (l1 + l2), p1 / (p1 + p2)
        got = leg_sums[0] / total
        if not (min(f_a, f_b) - 1e-7 <= got <= max(f_a, f_b) + 1e-7):
            G.fail(ctx, 'share.leg', 'mismatch', G.W_DATELINE, seg.disc(),
                   f'segment {s} {seg.p0}->{seg.p1}: the leg before the antimeridian received the fraction {got!r} of the '
                   f'segment; part lengths give {f_a!r} (geodesic) / {f_b!r} (chord sums)')
            return


def _check_cells(ctx, case, segs, cells, shares):
    pos = 0
    for s, seg in enumerate(segs):
        _check_segment(ctx, case, s, seg, cells[pos: pos + seg.count], shares[pos: pos + seg.count])
        pos += seg.count


def body(ctx: core.Ctx, case):
    import numpy as np

    prep = G.prepare(ctx, case)
    if prep is None:
        return
    segs, out = prep
    lat_o, lon_o, alt_o, tim_o, st_o, in_o = out
    disc = G.case_disc(segs)
    # (a) matching lengths / None-ness
    n_out = len(lat_o)
    lens = {'lat': n_out, 'lon': len(lon_o)}
    for name, key, o in (('alt', 'alt', alt_o), ('time', 'time', tim_o)):
        if (o is None) != (case[key] is None):
            G.fail(ctx, 'lengths.none', 'mismatch', 'grid_trajectory', disc,
                     f'{name} output is {"None" if o is None else "an array"} but the input was {"None" if case[key] is None else "given"}')
            return
        if o is not None:
            lens[name] = len(o)
    if len(st_o) != 1 + len(case['state']) or len(in_o) != 1 + len(case['integ']):
        G.fail(ctx, 'lengths.tuple', 'mismatch', 'grid_trajectory', disc,
                 f'{1 + len(case["state"])} state / {1 + len(case["integ"])} integrated variables in, {len(st_o)} / {len(in_o)} out')
        return
    for k, a in enumerate(st_o):
        lens[f'state{k}'] = len(a)
    for k, a in enumerate(in_o):
        lens[f'integ{k}'] = len(a)
    if len(set(lens.values())) != 1:
        G.fail(ctx, 'lengths.equal', 'mismatch', G.W_FRACTIONS, disc, f'output lengths differ: {lens}')
        return
    # (b) piece counts
    counts = [seg.count for seg in segs]
    if sum(counts) != n_out:
        tag = [float(x) for x in st_o[0]]
        got = [tag.count(float(s)) for s in range(len(segs))]
        bad = next((s for s in range(len(segs)) if got[s] != counts[s]), 0)
        G.fail(ctx, 'pieces.count', 'mismatch', G.W_HORIZONTAL, segs[bad].disc(),
                 f'{n_out} pieces, expected {sum(counts)}; per segment (by tag) {got} vs expected {counts}; '
                 f'first differing segment {bad}: {segs[bad].p0}->{segs[bad].p1}')
        return
    # (c) start-point values
    if not _check_start_values(ctx, case, segs, out, counts):
        return
    # (d)-(f) cells and shares
    ilat = {e: i for i, e in enumerate(case['glat'])}
    ilon = {e: i for i, e in enumerate(case['glon'])}
    try:
        cells = [(ilat[float(a)], ilon[float(b)]) for a, b in zip(lat_o, lon_o)]
    except KeyError as e:
        G.fail(ctx, 'cell.value', 'mismatch', 'grid_trajectory', disc, f'output cell coordinate {e} is not a grid edge')
        return
    shares = [float(x) for x in in_o[0]]
    _check_cells(ctx, case, segs, cells, shares)
    # the no-variables path of the code (integrated_variables == ()) must report the same pieces
    if not case['state'] and not case['integ']:
        ctx.label('call.without_variables')
        try:
            out2 = G.call_gridder(case, with_vars=False)
        except core.PASS_THROUGH:
            raise
        except Exception as e:  # noqa: BLE001
            G.fail_exc(ctx, 'call.no_variables', e, disc)
            return
        same = (
            np.array_equal(np.asarray(out2[0]), np.asarray(lat_o)) and np.array_equal(np.asarray(out2[1]), np.asarray(lon_o))
            and (out2[2] is None) == (alt_o is None) and (out2[3] is None) == (tim_o is None)
            and (alt_o is None or np.array_equal(np.asarray(out2[2]), np.asarray(alt_o)))
            and (tim_o is None or np.array_equal(np.asarray(out2[3]), np.asarray(tim_o)))
            and len(out2[4]) == 0 and len(out2[5]) == 0
        )
        if not same:
            G.fail(ctx, 'novars.cells', 'mismatch', 'grid_trajectory', disc,
                     'cells reported without variables differ from the cells reported with variables '
                     f'({len(out2[0])} vs {n_out} pieces)')


def run(ctx: core.Ctx):
    ctx.level = 'exploration'
    ctx.rule = G.RULE
    ctx.assumptions = G.ASSUMPTIONS + [
        'C05 oracle: piece counts exact; start-point altitude/time/state exact; each piece (share > 1e-12) must lie, in '
        'cumulative-length coordinates normalised per leg, inside the stretch of the map line that is inside its '
        '(closed, widened) cell; zero-length segments only checked for their cell',
    ]
    core.bootstrap()
    G.self_test()
    core.run_given(ctx, G.cases(), lambda case: body(ctx, case), max_examples=ctx.n(2500, 20000), salt=5)


def replay(ctx: core.Ctx, case):
    core.bootstrap()
    G.self_test()
    body(ctx, case)
