"""C14 — mission queries return exactly the flight instances matching the filter.

Differential test against a naive executor.  Databases: (i) generated — the
repository's own schema (created by WritableDatabase), rows inserted by the
harness with its own SQL, (ii) a copy of the shipped test database.  The oracle
reads the five tables with `SELECT *` once and evaluates every predicate in
Python (RefDB).  A Hypothesis example is one database description plus a list
of query descriptions; every query is one *case* (ctx.case) whose JSON holds
the database description and the query description, so replay is direct.

Shrinking is done by the harness itself (Hypothesis' shrink phase is off, a
failing query is minimised option by option so that the discriminator names
the smallest set of options that still fails): SQLite `random()` cannot be
seeded, so sampling verdicts are not reproducible run-to-run and must not be
handed to Hypothesis' replay machinery.
"""

from __future__ import annotations

import copy
import math
import os
import shutil
import sqlite3
from collections import Counter
from datetime import date

from hypothesis import strategies as st

from .. import core

SHARDED = True

EPOCH_ORD = date(1970, 1, 1).toordinal()
TAIL = 1e-12

# --------------------------------------------------------------------------
# exact-binomial acceptance interval (log-space pmf summation)


def _log_pmf(n: int, k: int, p: float) -> float:
    if p <= 0.0:
        return 0.0 if k == 0 else -math.inf
    if p >= 1.0:
        return 0.0 if k == n else -math.inf
    return (
        math.lgamma(n + 1) - math.lgamma(k + 1) - math.lgamma(n - k + 1)
        + k * math.log(p) + (n - k) * math.log1p(-p)
    )


_BOUNDS_CACHE: dict = {}


def binom_bounds(n: int, p: float, tail: float = TAIL) -> tuple[int, int]:
    """[lo, hi] with P(X < lo) <= tail and P(X > hi) <= tail, X ~ Bin(n, p).

    lo is the largest such value, hi the smallest.  A relative slack of 1e-6
    on the tail absorbs the rounding of the float summation (so the real tail
    is below 1.000001e-12)."""
    key = (n, p, tail)
    if key in _BOUNDS_CACHE:
        return _BOUNDS_CACHE[key]
    if n == 0:
        return (0, 0)
    lim = tail * (1 + 1e-6)
    acc, lo = 0.0, 0
    for k in range(0, n + 1):
        acc += math.exp(_log_pmf(n, k, p))
        if acc > lim:
            lo = k
            break
    else:
        lo = n
    acc, hi = 0.0, n
    for k in range(n, -1, -1):
        acc += math.exp(_log_pmf(n, k, p))
        if acc > lim:
            hi = k
            break
    else:
        hi = 0
    _BOUNDS_CACHE[key] = (lo, hi)
    return lo, hi


# --------------------------------------------------------------------------
# value pools for generated databases

CONTINENTS = ['AF', 'AS', 'EU', 'NA', 'OC', 'SA']
COUNTRY_POOL = ['US', 'CA', 'MX', 'FR', 'DE', 'AT', 'IT', 'GB', 'CN', 'JP', 'BR', 'AR', 'ZA', 'EG', 'AU', 'NZ']
AIRPORT_POOL = [
    'BOS', 'LHR', 'LAX', 'JFK', 'CDG', 'FRA', 'VIE', 'MUC', 'FCO', 'MXP', 'PEK', 'PVG', 'HND', 'NRT', 'GRU', 'GIG',
    'EZE', 'JNB', 'CPT', 'CAI', 'SYD', 'MEL', 'AKL', 'YYZ', 'YVR', 'MEX', 'CUN', 'DTW', 'ORD', 'SFO', 'SEA', 'DEN',
    'ATL', 'MIA', 'LGW', 'MAN', 'NCE', 'LYS', 'TXL', 'HAM', 'SZG', 'INN', 'NAP', 'VCE', 'CAN', 'KIX', 'BSB', 'COR',
    'DUR', 'HRG', 'PER', 'WLG', 'AAA', 'AAB', 'ABA', 'ZZA', 'ZAZ', 'AZZ',
]
ABSENT = {
    'airport': ['QQQ', 'XXX'],
    'country': ['ZZ', 'XK'],
    'continent': ['AN', 'XX'],
    'service_type': ['X', 'Z'],
    'aircraft_type': ['000', 'A38'],
}
SERVICE = ['J', 'S', 'Q', 'F', 'C']
AIRCRAFT = ['738', '320', '77W', 'E90', 'DH4', '333']
CARRIERS = ['AA', 'BA', 'LH', 'ZZ', 'MT']
ENGINES = [None, '', 'CFM56']
# seconds after 00:00 UTC; 0 and 86399 sit exactly on the date boundaries
SLOTS = [0, 1, 86399, 43200, 21900, 61200]
DAY0 = 17897  # 2019-01-01

FLIGHT_COLS = [
    'id', 'carrier', 'flight_number', 'origin', 'destination', 'day_of_week_mask', 'departure_time',
    'arrival_time', 'arrival_day_offset', 'service_type', 'aircraft_type', 'engine_type', 'distance',
    'seat_capacity', 'effective_from', 'effective_to', 'number_of_flights', 'od_pair',
]


def _coord(k: int) -> float:
    """Airport coordinate on a quarter-degree lattice shifted by 0.1 (not a
    float32 number, so the R*Tree really rounds it)."""
    return k * 0.25 + 0.1


def _edge(k: int) -> float:
    """Bounding-box edge half-way between lattice coordinates: 0.125 deg away
    from every possible generated airport coordinate."""
    return k * 0.25 + 0.225


def flight_days(f: dict) -> list[int]:
    out = []
    for i in range(f['span']):
        d = f['day'] + i
        # 1970-01-01 was a Thursday; bit 0 = Monday
        dow = (d + 3) % 7
        if f['mask'] >> dow & 1:
            out.append(d)
    return out


def _tie_offsets(ts_sorted) -> list[int]:
    """Positions in the departure-ordered list of all instances that fall inside a group of equal departure times."""
    return [k for k in range(1, len(ts_sorted)) if ts_sorted[k] == ts_sorted[k - 1]][:400]


def instances_of(dbd: dict) -> list[tuple[int, int]]:
    """(departure_timestamp, flight index) for a generated database."""
    out = []
    for i, f in enumerate(dbd['flights']):
        for d in flight_days(f):
            out.append((d * 86400 + SLOTS[f['slot']], i))
    return out


# --------------------------------------------------------------------------
# strategies


def _p(draw, percent: int) -> bool:
    return draw(st.integers(0, 99)) < percent


@st.composite
def gen_db(draw):
    ncont = draw(st.integers(2, 5))
    ncountry = draw(st.integers(max(2, ncont), 10))
    codes = draw(st.lists(st.sampled_from(COUNTRY_POOL), min_size=ncountry, max_size=ncountry, unique=True))
    countries = []
    for i, c in enumerate(codes):
        # every continent gets a country; the rest are spread
        cont = i if i < ncont else draw(st.integers(0, ncont - 1))
        countries.append([c, CONTINENTS[cont]])
    nap = draw(st.integers(4, 22))
    iatas = draw(st.lists(st.sampled_from(AIRPORT_POOL), min_size=nap, max_size=nap, unique=True))
    airports = []
    for code in iatas:
        airports.append({
            'iata': code,
            'country': draw(st.integers(0, ncountry - 1)),
            'lat': draw(st.integers(-300, 300)),
            'lon': draw(st.integers(-700, 700)),
        })
    # 'long' profile: every flight runs daily for 40 days (like real schedule
    # rows with dozens of instances per flight) on an indexed database
    long = draw(st.integers(0, 3)) == 0
    nfl = draw(st.integers(12, 30)) if long else draw(st.integers(3, 45))
    day0 = DAY0 + draw(st.integers(0, 40))
    flights = []
    for _ in range(nfl):
        o = draw(st.integers(0, nap - 1))
        d = draw(st.integers(0, nap - 2))
        if d >= o:
            d += 1
        flights.append({
            'o': o, 'd': d,
            'dist': draw(st.integers(1, 120)) * 50.0 + draw(st.sampled_from([0.0, 0.0, 0.5])),
            'seats': draw(st.integers(1, 50)) * 10,
            'svc': draw(st.sampled_from(SERVICE)),
            'ac': draw(st.sampled_from(AIRCRAFT)),
            'carrier': draw(st.sampled_from(CARRIERS)),
            'num': str(draw(st.integers(1, 9999))),
            'engine': draw(st.sampled_from(ENGINES)),
            'day': day0 + draw(st.integers(0, 12)),
            'slot': draw(st.integers(0, len(SLOTS) - 1)),
            'mask': 127 if long else draw(st.sampled_from([127, 127, 127, 85, 42, 31, 96, 1, 64])),
            'span': 40 if long else draw(st.sampled_from([0, 1, 2, 3, 7, 14, 21, 30, 40, 40])),
            'dur': draw(st.integers(30, 900)) * 60,
            # the flight table records the effective period in *local* dates, the instances are stamped in UTC: near
            # local midnight the first/last instance lies a day outside the recorded period
            'eff_shift': draw(st.sampled_from([0, 0, -1, 1])),
        })
    return {
        'kind': 'gen', 'countries': countries, 'airports': airports, 'flights': flights,
        'indexed': True if long else draw(st.booleans()),
    }


def values_of_gen(dbd: dict) -> dict:
    inst = instances_of(dbd)
    days = sorted({ts // 86400 for ts, _ in inst}) or [DAY0]
    lat_edges = sorted({a['lat'] for a in dbd['airports']})
    lon_edges = sorted({a['lon'] for a in dbd['airports']})
    return {
        'airport': [a['iata'] for a in dbd['airports']],
        'country': [c for c, _ in dbd['countries']],
        'continent': sorted({k for _, k in dbd['countries']}),
        'service_type': sorted({f['svc'] for f in dbd['flights']}),
        'aircraft_type': sorted({f['ac'] for f in dbd['flights']}),
        'dist': sorted({f['dist'] for f in dbd['flights']}),
        'seats': sorted({f['seats'] for f in dbd['flights']}),
        'days': days,
        'n': len(inst),
        'tie_offsets': _tie_offsets(sorted(ts for ts, _ in inst)),
        # edges just below the smallest, between all and just above the largest coordinate
        'lat_edges': [_edge(lat_edges[0] - 1)] + [_edge(k) for k in lat_edges],
        'lon_edges': [_edge(lon_edges[0] - 1)] + [_edge(k) for k in lon_edges],
    }


def _str_value(draw, vals, kind):
    known = vals[kind]

    def one():
        if _p(draw, 12):
            return draw(st.sampled_from(ABSENT[kind]))
        return draw(st.sampled_from(known))

    if kind == 'airport' and _p(draw, 6):
        # a long list (all airports of a region, say): hundreds of codes, most of them not in this database, the ones
        # that are at the very end
        n = draw(st.integers(201, 450))
        filler = [f'{"QRSTUVWXYZ"[i // 100 % 10]}{i % 100:02d}' for i in range(n)]
        filler = [c for c in filler if c not in known]
        return filler + [one() for _ in range(draw(st.integers(1, 3)))]
    if _p(draw, 40):
        return one()
    return [one() for _ in range(draw(st.integers(1, 4)))]


def _bbox(draw, vals):
    la, lo = vals['lat_edges'], vals['lon_edges']
    i = draw(st.integers(0, len(la) - 1))
    j = draw(st.integers(0, len(la) - 1))
    k = draw(st.integers(0, len(lo) - 1))
    m = draw(st.integers(0, len(lo) - 1))
    if _p(draw, 35):  # whole latitude or longitude band: makes "inside" common
        if draw(st.booleans()):
            i, j = 0, len(la) - 1
        else:
            k, m = 0, len(lo) - 1
    lat = sorted([la[i], la[j]])
    lon = sorted([lo[k], lo[m]])
    # boxes reaching the limits of the coordinate system ("everything east of ...", the whole world)
    if _p(draw, 15):
        lon[1] = 180.0
    if _p(draw, 10):
        lon[0] = -180.0
    if _p(draw, 8):
        lat[1] = 90.0
    if _p(draw, 8):
        lat[0] = -90.0
    return [lat[0], lat[1], lon[0], lon[1]]


SPATIAL_KINDS = ['airport', 'country', 'continent', 'bounding_box']
ILLEGAL_PATTERNS = ['combined+origin', 'combined+destination', 'combined+combined', 'origin+origin',
                    'destination+destination', 'combined+origin+destination']


def _spatial_value(draw, vals, kind):
    return _bbox(draw, vals) if kind == 'bounding_box' else _str_value(draw, vals, kind)


def _key(slot, kind):
    return kind if slot == 'combined' else f'{slot}_{kind}'


@st.composite
def gen_filter(draw, vals):
    r = draw(st.integers(0, 19))
    if r <= 2:
        return None
    if r == 3:
        return {}
    f = {}
    if _p(draw, 14):
        f['min_distance'] = _num(draw, vals['dist'])
    if _p(draw, 14):
        f['max_distance'] = _num(draw, vals['dist'])
    if _p(draw, 12):
        f['min_seat_capacity'] = int(_num(draw, vals['seats'], integer=True))
    if _p(draw, 12):
        f['max_seat_capacity'] = int(_num(draw, vals['seats'], integer=True))
    if _p(draw, 12):
        f['service_type'] = _str_value(draw, vals, 'service_type')
    if _p(draw, 12):
        f['aircraft_type'] = _str_value(draw, vals, 'aircraft_type')
    c = draw(st.integers(0, 99))
    if c < 25:
        slots = []
    elif c < 48:
        slots = ['combined']
    elif c < 58:
        slots = ['origin']
    elif c < 68:
        slots = ['destination']
    elif c < 90:
        slots = ['origin', 'destination']
    else:
        slots = draw(st.sampled_from(ILLEGAL_PATTERNS)).split('+')
    used = set()
    for slot in slots:
        for _ in range(8):
            kind = draw(st.sampled_from(SPATIAL_KINDS))
            if _key(slot, kind) not in used:
                break
        else:
            continue
        used.add(_key(slot, kind))
        f[_key(slot, kind)] = _spatial_value(draw, vals, kind)
    if not f:
        f['min_distance'] = _num(draw, vals['dist'])
    return f


def _num(draw, known, integer=False):
    """A threshold: a value present in the database (boundary inclusivity),
    just beside one, or anywhere."""
    v = draw(st.sampled_from(known)) if known else 100
    m = draw(st.integers(0, 6))
    if m == 6:
        return 0  # a bound of zero is a bound (an upper bound of 0 selects nothing, or only the zero entries)
    if m <= 2:
        return v
    if m == 3:
        return v + (1 if integer else 0.25)
    if m == 4:
        return v - (1 if integer else 0.25)
    return draw(st.integers(0, 700)) * (1 if integer else 10)


def _day(draw, vals):
    days = vals['days']
    if _p(draw, 70):
        return draw(st.sampled_from(days)) + draw(st.sampled_from([-1, 0, 0, 0, 1]))
    return draw(st.integers(days[0] - 3, days[-1] + 3))


SAMPLES = [0.05, 0.1, 0.25, 0.5, 0.5, 0.75, 0.9, 1.0]


@st.composite
def gen_query(draw, vals):
    n = vals['n']
    t = draw(st.integers(0, 9))
    q = {'type': 'query' if t < 6 else ('count' if t < 8 else 'freq')}
    if t < 6 and _p(draw, 8):
        # plain paging through the whole schedule (no condition at all), preferably starting inside a group of
        # instances that share one departure time
        ties = vals.get('tie_offsets') or []
        off = draw(st.sampled_from(ties)) if ties and _p(draw, 70) else draw(st.integers(0, n + 2))
        q.update(filter=None, start=None, end=None, every_nth=None, sample=None,
                 limit=draw(st.integers(1, 12)), offset=off, mode=draw(st.sampled_from(['once', 'rerun'])))
        q['k'] = 1 if q['mode'] == 'once' else 2
        return q
    # a sampled query is only informative when many instances match: most of
    # them get a light filter and no date window
    sampled = q['type'] == 'query' and _p(draw, 24)
    light = sampled and _p(draw, 70)
    if light:
        q['filter'] = draw(st.sampled_from([None, {'min_distance': 0}, {'max_seat_capacity': 100000}, {'min_distance': 1}]))
        if q['filter'] is not None:
            q['filter'] = dict(q['filter'])
    else:
        q['filter'] = draw(gen_filter(vals))
    q['start'] = _day(draw, vals) if _p(draw, 5 if light else 30) else None
    q['end'] = _day(draw, vals) if _p(draw, 5 if light else 30) else None
    if q['start'] is not None and q['end'] is not None and q['end'] < q['start'] and _p(draw, 85):
        q['start'], q['end'] = q['end'], q['start']
    if q['type'] == 'query':
        q['every_nth'] = draw(st.integers(1, 10)) if _p(draw, 30) else None
        if sampled:
            q['sample'] = draw(st.sampled_from(SAMPLES)) if _p(draw, 80) else draw(st.integers(1, 1000)) / 1000.0
        else:
            q['sample'] = None
        q['limit'] = q['offset'] = None
        if _p(draw, 10 if light else 40):
            q['limit'] = draw(st.integers(1, 12)) if _p(draw, 50) else draw(st.integers(1, n + 5))
            if _p(draw, 65):
                m = draw(st.integers(0, 3))
                q['offset'] = (0 if m == 0 else draw(st.integers(0, 12)) if m == 1
                               else draw(st.integers(0, n + 5)))
    elif q['type'] == 'freq':
        q['limit'] = draw(st.integers(1, 30)) if _p(draw, 75) else None
    m = draw(st.integers(0, 99))
    if m < 35:
        q['mode'], q['k'] = 'once', 1
    elif m < 40:
        q['mode'], q['k'] = 'mutated', 1
    elif m < 65:
        q['mode'], q['k'] = 'rerun', draw(st.integers(2, 3))
    elif m < 77:
        q['mode'], q['k'] = 'tosql', draw(st.integers(1, 2))
    elif m < 84:
        q['mode'], q['k'] = 'interleaved', 2
    elif m < 88:
        q['mode'], q['k'] = 'lockstep', 2
    elif m < 92:
        q['mode'], q['k'] = 'nested', 2
    else:
        q['mode'], q['k'] = 'shared', 1
    return q


# --------------------------------------------------------------------------
# database construction


def _connect_ro(path):
    return sqlite3.connect(f'file:{path}?mode=ro', uri=True)


def build_generated(dbd: dict, path: str):
    """Schema by the repository's WritableDatabase, rows by the harness."""
    from AEIC.missions.writable_database import WritableDatabase

    if os.path.exists(path):
        os.remove(path)
    wdb = WritableDatabase(path)
    try:
        con = sqlite3.connect(path)
        try:
            cur = con.cursor()
            cur.executemany('INSERT INTO countries (code, name, continent) VALUES (?, ?, ?)',
                            [(c, f'Country {c}', k) for c, k in dbd['countries']])
            aps = dbd['airports']
            # ids deliberately not 1..n and not in code order
            ids = [7 + 3 * i for i in range(len(aps))]
            cur.executemany(
                'INSERT INTO airports (id, iata_code, name, municipality, country, latitude, longitude, elevation) '
                'VALUES (?, ?, ?, ?, ?, ?, ?, ?)',
                [(ids[i], a['iata'], f'{a["iata"]} airport', None if i % 3 == 0 else f'City {i}',
                  dbd['countries'][a['country']][0], _coord(a['lat']), _coord(a['lon']), 10.0 * i)
                 for i, a in enumerate(aps)])
            cur.executemany(
                'INSERT INTO airport_location_idx (id, min_latitude, max_latitude, min_longitude, max_longitude) '
                'VALUES (?, ?, ?, ?, ?)',
                [(ids[i], _coord(a['lat']), _coord(a['lat']), _coord(a['lon']), _coord(a['lon']))
                 for i, a in enumerate(aps)])
            frows, srows = [], []
            for i, f in enumerate(dbd['flights']):
                fid = 1000 + 11 * i
                o, d = aps[f['o']]['iata'], aps[f['d']]['iata']
                days = flight_days(f)
                tod = SLOTS[f['slot']]
                frows.append((
                    fid, f['carrier'], f['num'], ids[f['o']], ids[f['d']], f['mask'], tod // 60,
                    ((tod + f['dur']) % 86400) // 60, (tod + f['dur']) // 86400, f['svc'], f['ac'], f['engine'],
                    f['dist'], f['seats'],
                    date.fromordinal(EPOCH_ORD + f['day'] + f.get('eff_shift', 0)).isoformat(),
                    date.fromordinal(EPOCH_ORD + f['day'] + max(f['span'] - 1, 0) + f.get('eff_shift', 0)).isoformat(),
                    len(days), min(o, d) + max(o, d),
                ))
                for dd in days:
                    ts = dd * 86400 + tod
                    srows.append((ts, ts + f['dur'], dd, fid))
            cur.executemany(f'INSERT INTO flights ({", ".join(FLIGHT_COLS)}) VALUES ({", ".join("?" * 18)})', frows)
            # schedule ids in an order unrelated to departure time
            srows.sort(key=lambda r: (r[3] * 7919 + r[0] * 31) % 10007)
            cur.executemany(
                'INSERT INTO schedules (departure_timestamp, arrival_timestamp, day, flight_id) VALUES (?, ?, ?, ?)',
                srows)
            con.commit()
        finally:
            con.close()
        if dbd.get('indexed'):
            wdb.index()
            wdb.commit()
    finally:
        wdb.close()


# --------------------------------------------------------------------------
# reference executor


class RefDB:
    """The five tables read with SELECT * and joined in Python."""

    def __init__(self, path):
        con = _connect_ro(path)
        try:
            def table(name):
                cur = con.execute(f'SELECT * FROM {name}')
                cols = [d[0] for d in cur.description]
                return [dict(zip(cols, row)) for row in cur.fetchall()]

            countries = table('countries')
            airports = table('airports')
            flights = table('flights')
            schedules = table('schedules')
            rtree = table('airport_location_idx')
        finally:
            con.close()
        self.continent_of = {c['code']: c['continent'] for c in countries}
        self.airport = {a['id']: a for a in airports}
        for a in airports:
            a['continent'] = self.continent_of.get(a['country'])
        rt = {r['id']: r for r in rtree}
        for a in airports:
            r = rt.get(a['id'])
            if r is None or max(abs(r['min_latitude'] - a['latitude']), abs(r['max_latitude'] - a['latitude']),
                                abs(r['min_longitude'] - a['longitude']),
                                abs(r['max_longitude'] - a['longitude'])) > 1e-4:
                raise core.HarnessError(f'airport {a["iata_code"]} has no matching R*Tree entry')
        self.flights = {}
        for f in flights:
            if f['origin'] not in self.airport or f['destination'] not in self.airport:
                raise core.HarnessError('flight with dangling airport reference')
            f['ao'] = self.airport[f['origin']]
            f['ad'] = self.airport[f['destination']]
            self.flights[f['id']] = f
        self.inst = []
        for s in schedules:
            if s['flight_id'] not in self.flights:
                raise core.HarnessError('schedule with dangling flight reference')
            if s['day'] != s['departure_timestamp'] // 86400:
                raise core.HarnessError('schedules.day is not the UTC day number of the departure')
            self.inst.append((s['departure_timestamp'], s['id'], s['arrival_timestamp'], s['flight_id']))
        self.inst.sort()
        self.min_day = min((i[0] // 86400 for i in self.inst), default=None)
        self.lat = sorted({a['latitude'] for a in airports})
        self.lon = sorted({a['longitude'] for a in airports})

    # ---- predicate on a flight
    @staticmethod
    def _aslist(v):
        return v if isinstance(v, list) else [v]

    def _airport_ok(self, ap, kind, value):
        if kind == 'airport':
            return ap['iata_code'] in self._aslist(value)
        if kind == 'country':
            return ap['country'] in self._aslist(value)
        if kind == 'continent':
            return ap['continent'] in self._aslist(value)
        lat0, lat1, lon0, lon1 = value
        return lat0 <= ap['latitude'] <= lat1 and lon0 <= ap['longitude'] <= lon1

    def flight_ok(self, f, filt) -> bool:
        if not filt:
            return True
        for key, value in filt.items():
            if key == 'min_distance':
                ok = f['distance'] >= value
            elif key == 'max_distance':
                ok = f['distance'] <= value
            elif key == 'min_seat_capacity':
                ok = f['seat_capacity'] >= value
            elif key == 'max_seat_capacity':
                ok = f['seat_capacity'] <= value
            elif key == 'service_type':
                ok = f['service_type'] in self._aslist(value)
            elif key == 'aircraft_type':
                ok = f['aircraft_type'] in self._aslist(value)
            elif key.startswith('origin_'):
                ok = self._airport_ok(f['ao'], key[len('origin_'):], value)
            elif key.startswith('destination_'):
                ok = self._airport_ok(f['ad'], key[len('destination_'):], value)
            elif key in SPATIAL_KINDS:
                ok = self._airport_ok(f['ao'], key, value) or self._airport_ok(f['ad'], key, value)
            else:
                raise core.HarnessError(f'unknown filter key {key}')
            if not ok:
                return False
        return True

    def select(self, q, with_nth=True):
        """Instances (sorted by departure, id) matching filter, dates and every-nth."""
        filt = q.get('filter')
        okf = {fid for fid, f in self.flights.items() if self.flight_ok(f, filt)}
        lo = q['start'] * 86400 if q.get('start') is not None else None
        hi = (q['end'] + 1) * 86400 if q.get('end') is not None else None
        nth = q.get('every_nth') if with_nth else None
        ref_day = None
        if nth is not None and nth > 1:
            ref_day = q['start'] if q.get('start') is not None else self.min_day
        out = []
        for inst in self.inst:
            ts = inst[0]
            if inst[3] not in okf:
                continue
            if lo is not None and ts < lo:
                continue
            if hi is not None and ts >= hi:
                continue
            if ref_day is not None and (ts // 86400 - ref_day) % nth != 0:
                continue
            out.append(inst)
        return out

    def row(self, inst) -> dict:
        ts, sid, arr, fid = inst
        f = self.flights[fid]
        return {
            'departure': ts, 'arrival': arr, 'carrier': f['carrier'], 'flight_number': f['flight_number'],
            'origin': f['ao']['iata_code'], 'origin_country': f['ao']['country'],
            'destination': f['ad']['iata_code'], 'destination_country': f['ad']['country'],
            'service_type': f['service_type'], 'aircraft_type': f['aircraft_type'],
            'engine_type': f['engine_type'], 'distance': f['distance'], 'seat_capacity': f['seat_capacity'],
            'id': sid, 'flight_id': fid,
        }

    def pair_counts(self, insts) -> Counter:
        c = Counter()
        for inst in insts:
            f = self.flights[inst[3]]
            a, b = f['ao']['iata_code'], f['ad']['iata_code']
            c[(min(a, b), max(a, b))] += 1
        return c

    def values(self) -> dict:
        """Value sets for query generation on a database that was not generated here."""
        def edges(xs):
            out = [xs[0] - 0.5]
            for a, b in zip(xs, xs[1:]):
                if b - a > 4e-3:
                    out.append((a + b) / 2)
            out.append(xs[-1] + 0.5)
            return out

        fl = list(self.flights.values())
        return {
            'airport': sorted(a['iata_code'] for a in self.airport.values()),
            'country': sorted({a['country'] for a in self.airport.values()}),
            'continent': sorted({a['continent'] for a in self.airport.values()}),
            'service_type': sorted({f['service_type'] for f in fl}),
            'aircraft_type': sorted({f['aircraft_type'] for f in fl}),
            'dist': sorted({f['distance'] for f in fl}),
            'seats': sorted({f['seat_capacity'] for f in fl}),
            'days': sorted({i[0] // 86400 for i in self.inst}),
            'n': len(self.inst),
            'tie_offsets': _tie_offsets(sorted(i[0] for i in self.inst)),
            'lat_edges': edges(self.lat),
            'lon_edges': edges(self.lon),
        }


def spatial_legal(filt) -> bool:
    if not filt:
        return True
    comb = sum(1 for k in filt if k in SPATIAL_KINDS)
    orig = sum(1 for k in filt if k.startswith('origin_'))
    dest = sum(1 for k in filt if k.startswith('destination_'))
    return (comb == 1 and orig == 0 and dest == 0) or (comb == 0 and orig <= 1 and dest <= 1)


def illegal_pattern(filt) -> str:
    comb = sum(1 for k in filt if k in SPATIAL_KINDS)
    orig = sum(1 for k in filt if k.startswith('origin_'))
    dest = sum(1 for k in filt if k.startswith('destination_'))
    return '+'.join(['combined'] * min(comb, 2) + ['origin'] * min(orig, 2) + ['destination'] * min(dest, 2))


# --------------------------------------------------------------------------
# building the real objects and evaluating one query


def make_filter(fd):
    from AEIC.missions import BoundingBox, Filter

    if fd is None:
        return None
    kw = {}
    for k, v in fd.items():
        if k.endswith('bounding_box'):
            kw[k] = BoundingBox(min_latitude=v[0], max_latitude=v[1], min_longitude=v[2], max_longitude=v[3])
        else:
            kw[k] = list(v) if isinstance(v, list) else v
    return Filter(**kw)


def _date(n):
    return None if n is None else date.fromordinal(EPOCH_ORD + n)


def make_query(q):
    from AEIC.missions import CountQuery, FrequentFlightQuery, Query

    kw = {'filter': make_filter(q.get('filter')), 'start_date': _date(q.get('start')),
          'end_date': _date(q.get('end'))}
    if q['type'] == 'query':
        return Query(every_nth=q.get('every_nth'), sample=q.get('sample'), limit=q.get('limit'),
                     offset=q.get('offset'), **kw)
    if q['type'] == 'count':
        return CountQuery(**kw)
    if q.get('limit') is not None:
        return FrequentFlightQuery(limit=q['limit'], **kw)
    return FrequentFlightQuery(**kw)


WHERE = {'query': 'Query.to_sql', 'count': 'CountQuery.to_sql', 'freq': 'FrequentFlightQuery.to_sql'}


class Failure:
    def __init__(self, clause, kind, where, detail, fixed_disc=None):
        self.clause, self.kind, self.where, self.detail, self.fixed_disc = clause, kind, where, detail, fixed_disc

    def key(self):
        return (self.clause, self.kind, self.where)


def _materialise(r):
    return r if isinstance(r, int) else list(r)


class _ParamsRewritten(Exception):
    pass


def execute(db, qobj, q):
    """Run the query object as the mode says.  Returns (results, exception)."""
    out = []
    try:
        mode = q.get('mode', 'once')
        if mode == 'rerun':
            for _ in range(q['k']):
                out.append(_materialise(db(qobj)))
        elif mode == 'tosql':
            held = []
            for _ in range(q['k']):
                sql, params = qobj.to_sql()
                held.append((params, list(params)))
            # what to_sql() handed out earlier belongs to the caller: a later build (also of an edited query) must not
            # rewrite it
            import copy as _copy

            other = _copy.copy(qobj)
            try:
                other.start_date, other.end_date = _date(17900), _date(17901)
                other.to_sql()
            except Exception:  # noqa: BLE001  (an edited copy that cannot be built says nothing about the original)
                pass
            for params, snap in held:
                if list(params) != snap:
                    raise _ParamsRewritten(f'the parameter list returned by to_sql() was {snap} and became {list(params)} '
                                           f'after a later build')
            out.append(_materialise(db(qobj)))
        elif mode == 'interleaved':
            r1 = db(qobj)
            r2 = db(qobj)
            out.append(_materialise(r1))
            out.append(_materialise(r2))
        elif mode == 'lockstep':
            # two results of the same database consumed alternately, row by row
            r1 = db(qobj)
            r2 = db(qobj)
            if isinstance(r1, int) or isinstance(r2, int):
                out.append(_materialise(r1))
                out.append(_materialise(r2))
            else:
                a, b, i1, i2 = [], [], iter(r1), iter(r2)
                live1 = live2 = True
                while live1 or live2:
                    if live1:
                        try:
                            a.append(next(i1))
                        except StopIteration:
                            live1 = False
                    if live2:
                        try:
                            b.append(next(i2))
                        except StopIteration:
                            live2 = False
                out.append(a)
                out.append(b)
        elif mode == 'nested':
            # the same query run to completion while an earlier result is only partly consumed
            r1 = db(qobj)
            if isinstance(r1, int):
                out.append(r1)
                out.append(_materialise(db(qobj)))
            else:
                a, i1 = [], iter(r1)
                try:
                    a.append(next(i1))
                except StopIteration:
                    pass
                inner = _materialise(db(qobj))
                a.extend(i1)
                out.append(a)
                out.append(inner)
        else:
            out.append(_materialise(db(qobj)))
    except core.PASS_THROUGH:
        raise
    except Exception as e:  # noqa: BLE001
        return out, e
    return out, None


def check_rows(ref: RefDB, q, exp, res, run: int) -> list[Failure]:
    """One execution of a Query against the expected instance list."""
    fails = []
    where = WHERE['query']
    tag = f'run {run + 1}'
    exp_by_id = {i[1]: i for i in exp}
    ids = [r.id for r in res]
    ts = [r.departure.value // 10**9 for r in res]
    if any(b < a for a, b in zip(ts, ts[1:])):
        fails.append(Failure('rows.order', 'mismatch', where, f'{tag}: departures not non-decreasing'))
    if len(set(ids)) != len(ids):
        fails.append(Failure('rows.set', 'mismatch', where, f'{tag}: duplicate instance ids in the result'))
    extra = [i for i in ids if i not in exp_by_id]
    if extra:
        known = {x[1]: x for x in ref.inst}
        shown = ref.row(known[extra[0]]) if extra[0] in known else '(no such schedule id)'
        fails.append(Failure('rows.set', 'mismatch', where,
                             f'{tag}: {len(extra)} returned instances do not satisfy the conditions, '
                             f'e.g. id {extra[0]}: {shown}'))
    limit, offset, sample = q.get('limit'), q.get('offset') or 0, q.get('sample')
    if sample is None:
        want = [i[0] for i in exp]
        if limit is not None:
            want = want[offset:offset + limit]
        if not extra and ts != want:
            if limit is None:
                missing = sorted(set(exp_by_id) - set(ids))
                fails.append(Failure('rows.set', 'mismatch', where,
                                     f'{tag}: {len(res)} rows returned, {len(exp)} expected; '
                                     f'{len(missing)} matching instances missing'
                                     + (f', e.g. {ref.row(exp_by_id[missing[0]])}' if missing else '')))
            else:
                fails.append(Failure('rows.page', 'mismatch', where,
                                     f'{tag}: limit={limit} offset={q.get("offset")}: departures of the page differ from '
                                     f'the slice of the ordered answer (got {len(ts)} rows {ts[:3]}.., want {len(want)} rows {want[:3]}..)'))
    else:
        lo, hi = binom_bounds(len(exp), sample)
        if limit is not None:
            lo = min(limit, max(0, lo - offset))
            hi = min(limit, max(0, hi - offset))
        if not (lo <= len(res) <= hi):
            fails.append(Failure('sample.size', 'mismatch', where,
                                 f'{tag}: sample={sample} of {len(exp)} matching instances (limit={limit}, offset={q.get("offset")}) '
                                 f'returned {len(res)} rows; exact binomial acceptance interval (tail {TAIL}) is [{lo}, {hi}]',
                                 fixed_disc='first-build' if run == 0 and q.get('mode') != 'tosql' else 'after-earlier-to_sql'))
    for r in res:
        inst = exp_by_id.get(r.id)
        if inst is None:
            continue
        want = ref.row(inst)
        got = {k: getattr(r, k) for k in want if k not in ('departure', 'arrival')}
        got['departure'] = r.departure.value // 10**9
        got['arrival'] = r.arrival.value // 10**9
        bad = sorted(k for k in want if got[k] != want[k] or (want[k] is None) != (got[k] is None))
        if bad:
            fails.append(Failure('rows.fields', 'mismatch', 'QueryResult.from_row',
                                 f'{tag}: instance {r.id}: fields {bad} differ: got {[got[k] for k in bad]}, '
                                 f'table says {[want[k] for k in bad]}', fixed_disc=bad[0]))
            break
    return fails


def check_freq(ref: RefDB, q, exp, res, run: int) -> list[Failure]:
    fails = []
    where = WHERE['freq']
    tag = f'run {run + 1}'
    counts = ref.pair_counts(exp)
    limit = q.get('limit') if q.get('limit') is not None else 20
    keys = [(min(r.airport1, r.airport2), max(r.airport1, r.airport2)) for r in res]
    ns = [r.number_of_flights for r in res]
    if len(set(keys)) != len(keys):
        dup = [k for k, c in Counter(keys).items() if c > 1][0]
        fails.append(Failure('freq.pairs', 'mismatch', where,
                             f'{tag}: airport pair {dup} is reported more than once (not direction-independent)'))
    wrong = [(k, n, counts.get(k, 0)) for k, n in zip(keys, ns) if counts.get(k, 0) != n]
    if wrong:
        fails.append(Failure('freq.counts', 'mismatch', where,
                             f'{tag}: pair {wrong[0][0]} reported with {wrong[0][1]} flights, true count {wrong[0][2]}'))
    if any(b > a for a, b in zip(ns, ns[1:])):
        fails.append(Failure('freq.order', 'mismatch', where, f'{tag}: counts not in descending order: {ns[:8]}'))
    top = sorted(counts.values(), reverse=True)[:limit]
    if sorted(ns, reverse=True) != top:
        fails.append(Failure('freq.top', 'mismatch', where,
                             f'{tag}: limit={limit}: returned counts {sorted(ns, reverse=True)[:8]}.. are not the '
                             f'{len(top)} largest true counts {top[:8]}..'))
    return fails


def evaluate(ref: RefDB, db, q) -> list[Failure]:
    """All discrepancies for one query description (fresh objects every call)."""
    filt = q.get('filter')
    if not spatial_legal(filt):
        pattern = illegal_pattern(filt)
        for attempt in range(2):
            qobj = make_query(q)
            try:
                _materialise(db(qobj))
            except core.PASS_THROUGH:
                raise
            except ValueError:
                continue
            except Exception as e:  # noqa: BLE001
                return [Failure('spatial.illegal', type(e).__name__, core.aeic_frame(e),
                                f'illegal spatial mix {sorted(filt)} raised {e!r} instead of ValueError',
                                fixed_disc=pattern)]
            return [Failure('spatial.illegal', 'accepted', 'Filter._normalize',
                            f'illegal spatial mix {sorted(filt)} was accepted', fixed_disc=pattern)]
        return []

    qobj = make_query(q)
    if q.get('mode') == 'mutated' and isinstance(filt, dict):
        # The query classes are plain mutable dataclasses normalised when the SQL is built: a query that was run
        # and then edited in place must answer for its current field values.
        simple = ['min_distance', 'max_distance', 'min_seat_capacity', 'max_seat_capacity', 'service_type', 'aircraft_type']
        q0 = dict(q, filter={k: v for k, v in filt.items() if k not in simple}, start=None, end=None)
        target = qobj
        qobj = make_query(q0)
        try:
            _materialise(db(qobj))
        except core.PASS_THROUGH:
            raise
        except Exception:  # noqa: BLE001  (judged when the stripped query is generated as a case of its own)
            qobj = target
        else:
            for k in simple:
                setattr(qobj.filter, k, getattr(target.filter, k))
            qobj.start_date, qobj.end_date = target.start_date, target.end_date
    results, exc = execute(db, qobj, q)
    fails: list[Failure] = []
    exp = ref.select(q)
    for run, res in enumerate(results):
        if q['type'] == 'query':
            fails += check_rows(ref, q, exp, res, run)
        elif q['type'] == 'count':
            if res != len(exp):
                fails.append(Failure('count', 'mismatch', WHERE['count'],
                                     f'run {run + 1}: count query returned {res}, {len(exp)} instances match'))
        else:
            fails += check_freq(ref, q, exp, res, run)
    if exc is not None:
        import traceback

        tb = ''.join(traceback.format_exception(type(exc), exc, exc.__traceback__)[-5:])
        fails.append(Failure('exec', type(exc).__name__, core.aeic_frame(exc),
                             f'execution {len(results) + 1} of a legal query raised {exc!r}\n{tb}'))
    elif q.get('mode') == 'shared' and not fails:
        # the same Filter object used by a second query of another type
        from AEIC.missions import CountQuery

        try:
            got = db(CountQuery(filter=qobj.filter, start_date=qobj.start_date, end_date=qobj.end_date))
        except core.PASS_THROUGH:
            raise
        except Exception as e:  # noqa: BLE001
            fails.append(Failure('shared_filter', type(e).__name__, core.aeic_frame(e),
                                 f'count query re-using the Filter object raised {e!r}'))
        else:
            want = len(ref.select(q, with_nth=False))
            if got != want:
                fails.append(Failure('shared_filter', 'mismatch', WHERE['count'],
                                     f'count query re-using the Filter object returned {got}, expected {want}'))
    # one failure per family, by priority: a wrong answer set also breaks the
    # page, an unordered answer also breaks the page, a directional route table
    # also has wrong counts -- the first is the informative one
    best: dict = {}
    for f in fails:
        fam = f.clause.split('.')[0] if f.clause.split('.')[0] in ('rows', 'freq') else f.clause
        rank = PRIORITY.index(f.clause) if f.clause in PRIORITY else 0
        if fam not in best or rank < best[fam][0]:
            best[fam] = (rank, f)
    return [f for _, f in best.values()]


PRIORITY = ['rows.set', 'rows.order', 'rows.page', 'rows.fields', 'freq.pairs', 'freq.counts', 'freq.order', 'freq.top']


# --------------------------------------------------------------------------
# minimisation of a failing query: the discriminator is the smallest set of
# options with which the same (clause, kind, where) still fails


def options_of(q) -> list[str]:
    opts = []
    if q.get('filter') is not None:
        opts += sorted(q['filter']) if q['filter'] else ['empty_filter']
    for k in ('start', 'end', 'every_nth', 'sample', 'offset', 'limit'):
        if q.get(k) is not None:
            opts.append(k)
    return opts


def without(q, opt):
    q = copy.deepcopy(q)
    if opt == 'empty_filter':
        q['filter'] = None
    elif opt in ('start', 'end', 'every_nth', 'sample', 'offset'):
        q[opt] = None
    elif opt == 'limit':
        q['limit'] = None
        if q['type'] == 'query':
            q['offset'] = None  # offset needs a limit
    else:
        del q['filter'][opt]
        if not q['filter']:
            q['filter'] = None
    return q


def minimise(ref, db, q, fail: Failure):
    def still(q2):
        if q2 is None:
            return False
        try:
            return any(f.key() == fail.key() for f in evaluate(ref, db, q2))
        except core.PASS_THROUGH:
            raise
        except Exception:  # noqa: BLE001
            return False

    q = copy.deepcopy(q)
    # randomness out first: everything after is deterministic if it still fails
    if q.get('sample') is not None:
        q2 = without(q, 'sample')
        if still(q2) and still(q2):
            q = q2
    mode_matters = False
    if q.get('mode', 'once') != 'once':
        q2 = copy.deepcopy(q)
        q2['mode'], q2['k'] = 'once', 1
        if still(q2):
            q = q2
        else:
            mode_matters = True
    if mode_matters:
        # the execution history is the trigger; the remaining options are
        # reduced but not part of the root-cause key
        for opt in options_of(q):
            q2 = without(q, opt)
            if still(q2):
                q = q2
        return q, f'mode={q["mode"]}'
    changed = True
    while changed:
        changed = False
        for opt in options_of(q):
            q2 = without(q, opt)
            if still(q2):
                q, changed = q2, True
    # scalars instead of lists where that still fails
    if q.get('filter'):
        for k, v in list(q['filter'].items()):
            if isinstance(v, list) and not k.endswith('bounding_box') and len(v) > 1:
                for item in v:
                    q2 = copy.deepcopy(q)
                    q2['filter'][k] = item
                    if still(q2):
                        q = q2
                        break
    return q, '+'.join(options_of(q)) or 'no-options'


# --------------------------------------------------------------------------
# per-process state


class State:
    def __init__(self, ctx):
        self.ctx = ctx
        self.dir = ctx.fresh_dir()
        self.n = 0
        self.ship_path = None
        self.ship_ref = None
        self.ship_db = None
        self.ship_vals = None
        self.sticky: dict = {}

    def shipped(self):
        from AEIC.missions import Database

        if self.ship_ref is None:
            src = core.TEST_DATA / 'missions' / 'oag-2019-test-subset.sqlite'
            self.ship_path = self.dir / 'shipped.sqlite'
            shutil.copyfile(src, self.ship_path)
            self.ship_ref = RefDB(self.ship_path)
            self.ship_vals = self.ship_ref.values()
            self.ship_db = Database(str(self.ship_path))
        return self.ship_ref, self.ship_db

    def open(self, dbd):
        """(ref, db, closer) for a database description."""
        from AEIC.missions import Database

        if dbd['kind'] == 'shipped':
            ref, db = self.shipped()
            return ref, db, lambda: None
        self.n += 1
        path = str(self.dir / f'g{self.n}.sqlite')
        build_generated(dbd, path)
        ref = RefDB(path)
        db = Database(path)

        def closer():
            db.close()
            try:
                os.remove(path)
            except OSError:
                pass

        return ref, db, closer

    def close(self):
        if self.ship_db is not None:
            self.ship_db.close()


def classify(ctx, ref, q, dbkind):
    """Labels and the non-trivial rule (needs only the oracle)."""
    filt = q.get('filter')
    ctx.label(f'db:{dbkind}', f'type:{q["type"]}', f'mode:{q.get("mode")}')
    if filt is None:
        ctx.label('filter:none')
    elif not filt:
        ctx.label('filter:empty')
    legal = spatial_legal(filt)
    two_sided = False
    if filt:
        if not legal:
            ctx.label('spatial:illegal', 'spatial:illegal:' + illegal_pattern(filt))
        else:
            comb = [k for k in filt if k in SPATIAL_KINDS]
            o = [k for k in filt if k.startswith('origin_')]
            d = [k for k in filt if k.startswith('destination_')]
            if comb:
                ctx.label('spatial:combined', 'spatial:kind:' + comb[0])
            elif o and d:
                two_sided = True
                ctx.label('spatial:origin+destination')
                if o[0][7:] != d[0][12:]:
                    ctx.label('spatial:origin+destination:different-kinds')
            elif o or d:
                ctx.label('spatial:one-sided')
            else:
                ctx.label('spatial:none')
            for k in o + d:
                ctx.label('spatial:kind:' + k.split('_', 1)[1])
        for k, v in filt.items():
            if isinstance(v, list) and not k.endswith('bounding_box'):
                ctx.label('value:list')
                break
        for k in ('min_distance', 'max_distance', 'min_seat_capacity', 'max_seat_capacity', 'service_type',
                  'aircraft_type'):
            if k in filt:
                ctx.label('cond:' + k)
    for k in ('start', 'end', 'every_nth', 'sample', 'limit', 'offset'):
        if q.get(k) is not None:
            ctx.label('opt:' + k)
    if not legal:
        return False
    exp = ref.select(q)
    n = len(exp)
    total = len(ref.inst)
    size = 'empty' if n == 0 else ('all' if n == total else 'proper-subset')
    ctx.label('answer:' + size)
    if q.get('end') is not None and any(i[0] == (q['end'] + 1) * 86400 for i in ref.inst):
        ctx.label('boundary:instance-at-midnight-after-end')
    if q.get('start') is not None and any(i[0] == q['start'] * 86400 for i in ref.inst):
        ctx.label('boundary:instance-at-midnight-of-start')
    if q['type'] == 'query' and q.get('limit') is not None and q.get('sample') is None:
        off = q.get('offset') or 0
        if off >= n and n > 0:
            ctx.label('page:beyond-end')
        cut = off + q['limit']
        if 0 < cut < n and exp[cut - 1][0] == exp[cut][0]:
            ctx.label('page:tie-at-cut')
    if q['type'] == 'query' and len({i[0] for i in exp}) < n:
        ctx.label('order:ties-in-answer')
    if q['type'] == 'freq':
        pairs = ref.pair_counts(exp)
        dirs = {(ref.flights[i[3]]['origin'], ref.flights[i[3]]['destination']) for i in exp}
        if any((b, a) in dirs for a, b in dirs):
            ctx.label('freq:both-directions-present')
        lim = q.get('limit') if q.get('limit') is not None else 20
        if len(pairs) > lim:
            ctx.label('freq:truncated-by-limit')
    if q.get('sample') is not None and q.get('mode') in ('rerun', 'interleaved', 'lockstep', 'nested'):
        ctx.label('sample:re-executed')
    return size == 'proper-subset' or q.get('mode') in ('rerun', 'interleaved', 'lockstep', 'nested', 'tosql', 'mutated') or two_sided


def check_case(ctx, st_, ref, db, dbd, q):
    """One query = one case."""
    case = {'db': dbd, 'q': q}
    ctx.case(case)
    if classify(ctx, ref, q, dbd['kind']):
        ctx.mark_nontrivial({'db': core.short_hash(dbd), 'q': q})
    if ctx.evaluations % 40 == 1:
        ctx.sample({'db': 'shipped' if dbd['kind'] == 'shipped' else
                    f'generated: {len(dbd["airports"])} airports, {len(dbd["flights"])} flights, '
                    f'{len(ref.inst)} instances', 'q': q})
    ckey = core.short_hash(case)
    if ckey not in st_.sticky:
        found, keys = [], set()
        for f in evaluate(ref, db, q):
            if f.fixed_disc is not None:
                item = (f, q, f.fixed_disc, dbd)
            else:
                f, q0 = canonical(ref, db, q, f)
                qmin, disc = minimise(ref, db, q0, f)
                item = (f, qmin, disc, None)
            if (item[0].key(), item[2]) not in keys:
                keys.add((item[0].key(), item[2]))
                found.append(item)
        if not found:
            return
        # sampling verdicts depend on SQLite's unseeded random(): an observed
        # failure is remembered so that a replay of the same case reports it again
        st_.sticky[ckey] = found
    for n, (f, qmin, disc, dbmin) in enumerate(st_.sticky[ckey]):
        sig = f'{ctx.pid}:{f.clause}:{f.kind}:{f.where}:{disc}'
        if sig in ctx.session_seen:
            continue  # already reported in this run; keep exploring
        if dbmin is None:
            dbmin = dbd if sig in ctx.known else reduce_db(st_, dbd, qmin, f)
            st_.sticky[ckey][n] = (f, qmin, disc, dbmin)
        ctx.fail(f.clause, f.kind, f.where, disc, f.detail + f'\nminimised query: {qmin}',
                 case={'db': dbmin, 'q': qmin})


ANSWER_CLAUSES = {'rows.set', 'rows.page', 'count', 'freq.counts', 'freq.top', 'shared_filter'}


def canonical(ref, db, q, f: Failure):
    """A wrong page, count or route table is usually a wrong answer *set*
    (filter or date condition).  If the plain Query with the same filter,
    dates and every-nth also returns a wrong set, report that instead, so that
    one root cause has one signature whatever the query type that met it."""
    if f.clause not in ANSWER_CLAUSES or f.kind != 'mismatch':
        return f, q
    q2 = {'type': 'query', 'filter': copy.deepcopy(q.get('filter')), 'start': q.get('start'), 'end': q.get('end'),
          'every_nth': q.get('every_nth') if q['type'] == 'query' else None, 'sample': None, 'limit': None,
          'offset': None, 'mode': 'once', 'k': 1}
    try:
        for f2 in evaluate(ref, db, q2):
            if f2.clause == 'rows.set':
                return f2, q2
    except core.PASS_THROUGH:
        raise
    except Exception:  # noqa: BLE001
        pass
    return f, q


def reduce_db(st_, dbd, q, f: Failure, budget: int = 60):
    """Greedy removal of flights from a generated database while the same
    failure persists (the shipped database is left alone)."""
    if dbd['kind'] != 'gen':
        return dbd
    spent = 0

    def still(d2):
        nonlocal spent
        spent += 1
        try:
            ref, db, closer = st_.open(d2)
        except core.PASS_THROUGH:
            raise
        except Exception:  # noqa: BLE001
            return False
        try:
            return any(x.key() == f.key() for x in evaluate(ref, db, q))
        except core.PASS_THROUGH:
            raise
        except Exception:  # noqa: BLE001
            return False
        finally:
            closer()

    cur = copy.deepcopy(dbd)
    chunk = max(1, len(cur['flights']) // 2)
    while chunk >= 1 and spent < budget:
        i, progressed = 0, False
        while i < len(cur['flights']) and spent < budget:
            d2 = dict(cur, flights=cur['flights'][:i] + cur['flights'][i + chunk:])
            if still(d2):
                cur, progressed = d2, True
            else:
                i += chunk
        if chunk == 1 and not progressed:
            break
        chunk = chunk // 2 if chunk > 1 else (1 if progressed else 0)
    return cur


# --------------------------------------------------------------------------
# self-tests of the oracle


def self_test(st_: State):
    # binomial interval: hand-derived values.  n=50, p=1/2: P(X<=1) = 51/2^50 = 4.5e-14 <= 1e-12 and
    # P(X<=2) = 1276/2^50 = 1.13e-12 > 1e-12, so lo = 2 and by symmetry hi = 48.
    if binom_bounds(50, 0.5) != (2, 48):
        raise core.HarnessError(f'binom_bounds(50, .5) = {binom_bounds(50, 0.5)}')
    if binom_bounds(10, 0.5) != (0, 10) or binom_bounds(7, 1.0) != (7, 7) or binom_bounds(0, 0.3) != (0, 0):
        raise core.HarnessError('binom_bounds small cases')
    # n=40, p=0.1: P(X=40)=1e-40, ..., P(X>=k) first exceeds 1e-12 going down; check against exact rationals
    from fractions import Fraction

    for n, p in ((40, Fraction(1, 10)), (200, Fraction(1, 2)), (300, Fraction(9, 10)), (1197, Fraction(1, 4))):
        pm = [Fraction(math.comb(n, k)) * p**k * (1 - p) ** (n - k) for k in range(n + 1)]
        acc, lo = Fraction(0), n
        for k in range(n + 1):
            acc += pm[k]
            if acc > Fraction(1, 10**12):
                lo = k
                break
        acc, hi = Fraction(0), 0
        for k in range(n, -1, -1):
            acc += pm[k]
            if acc > Fraction(1, 10**12):
                hi = k
                break
        got = binom_bounds(n, float(p))
        if got != (lo, hi):
            raise core.HarnessError(f'binom_bounds({n}, {p}) = {got}, exact {(lo, hi)}')
    # date arithmetic: 2019-03-01 00:00 UTC is 1551398400 (value used in the repository's tests)
    if (date(2019, 3, 1).toordinal() - EPOCH_ORD) * 86400 != 1551398400 or _date(17956) != date(2019, 3, 1):
        raise core.HarnessError('day-number arithmetic')
    # weekday convention of the generator
    if date.fromordinal(EPOCH_ORD + DAY0).weekday() != (DAY0 + 3) % 7:
        raise core.HarnessError('weekday arithmetic')
    # reference executor against the hand-counted answers in tests/test_mission_db.py
    ref, _ = st_.shipped()
    base = {'type': 'query', 'start': None, 'end': None}
    checks = [
        (None, 1197),
        ({'min_distance': 3000}, 99),
        ({'country': 'IT'}, 36),
        ({'max_distance': 3000, 'country': ['US', 'CA']}, 307),
    ]
    for filt, want in checks:
        got = len(ref.select(dict(base, filter=filt)))
        if got != want:
            raise core.HarnessError(f'reference executor: filter {filt} selects {got}, hand count is {want}')
    pc = ref.pair_counts(ref.select(dict(base, filter={'airport': 'DTW'})))
    if sum(pc.values()) != 13 or not all('DTW' in k for k in pc):
        raise core.HarnessError('reference executor: DTW frequent-route total is not 13')


# --------------------------------------------------------------------------
# entry points


RULE = (
    'A Hypothesis example = one database (2 of 3 generated: repository schema via WritableDatabase, rows inserted by the '
    'harness: 4-22 airports, 2-10 countries on 2-5 continents, 3-45 flights with weekly schedule patterns (a quarter of them: 12-30 daily flights over 40 days, indexed) giving ties and '
    'instances exactly at 00:00:00/23:59:59 UTC; 1 of 3 a copy of the shipped oag-2019-test-subset) plus 8-20 query '
    'descriptions drawn from the database\'s own value sets and absent values (Query/CountQuery/FrequentFlightQuery; '
    'filter None / Filter() / any subset of range, type and spatial conditions in every legal mix and 6 illegal patterns; '
    'start/end dates around instance days; every_nth 1-10; sample; limit/offset incl. beyond the end; execution history '
    'once / re-run 2-3x / to_sql 1-2x then run / two generators created before either is consumed / Filter object shared '
    'with a second query). evaluations = queries; each is compared with a Python evaluation of the predicate over SELECT * '
    'of the tables. Non-trivial = answer neither empty nor the whole table, or a re-executed/re-built query, or a legal '
    'origin+destination spatial mix; distinct = hash of (database, query description).'
)


@st.composite
def example(draw, st_: State, nq_max: int):
    if draw(st.integers(0, 2)) == 0:
        st_.shipped()
        dbd = {'kind': 'shipped'}
        vals = st_.ship_vals
    else:
        dbd = draw(gen_db())
        vals = values_of_gen(dbd)
    # unique: Hypothesis likes to duplicate list elements, a repeated query adds nothing
    qs = draw(st.lists(gen_query(vals), min_size=8, max_size=nq_max, unique_by=lambda q: core.short_hash(q)))
    return {'db': dbd, 'qs': qs}


SAMPLE_FRACTIONS = [0.003, 0.005, 0.0125, 0.0375, 0.105, 0.333]


def sampling_rate_check(ctx: core.Ctx, repeats: int):
    """The size of one sample says little about the sampling rate when the expected size is small.  Here the same
    unfiltered sampled query is executed `repeats` times on the shipped database (independent draws) and the TOTAL
    number of instances returned must lie within the exact binomial bounds (tail 1e-12) for repeats*N trials - a
    rate that is off by a factor of two at a fraction like 0.005 becomes visible."""
    import sqlite3

    from AEIC.missions import Database, Query

    path = core.TEST_DATA / 'missions' / 'oag-2019-test-subset.sqlite'
    con = sqlite3.connect(f'file:{path}?mode=ro', uri=True)
    n = con.execute('SELECT COUNT(*) FROM schedules').fetchone()[0]
    con.close()
    db = Database(str(path))
    for p in SAMPLE_FRACTIONS:
        case = {'kind': 'sampling_rate', 'sample': p, 'repeats': repeats}
        ctx.case(case)
        total = 0
        try:
            for _ in range(repeats):
                total += sum(1 for _ in db(Query(sample=p)))
        except core.PASS_THROUGH:
            raise
        except Exception as e:  # noqa: BLE001
            ctx.fail_exc('sample.rate', e, '', case)
            continue
        lo, hi = binom_bounds(repeats * n, p)
        ctx.label('sampling_rate_aggregate')
        ctx.mark_nontrivial(f'sampling_rate:{p}')
        if not lo <= total <= hi:
            ctx.fail('sample.rate', 'mismatch', 'Query.to_sql', 'aggregate',
                     f'{repeats} executions of Query(sample={p}) on {n} instances returned {total} instances in total; '
                     f'the binomial interval (tail 1e-12) for a rate of {p} is [{lo}, {hi}]', case)


def run(ctx: core.Ctx):
    ctx.level = 'exploration'
    ctx.rule = RULE
    ctx.assumptions = [
        'schedules.day is the UTC day number of the departure (as the importer writes it; verified on every database)',
        'every_nth without a start date counts from the smallest day in the whole schedules table (implementation '
        'choice the property is silent about)',
        'bounding-box edges are at least 1e-3 deg (generated: 0.125 deg) from every airport coordinate, min <= max '
        '(R*Tree float32 rounding and antimeridian-crossing boxes are outside the property)',
        'empty lists as filter values, invalid limit/offset/sample/every_nth values and airports with non-3-letter '
        'codes are not generated',
        'sampling is bounded, not decided: size within the exact binomial interval of tail 1e-12 per side, result an '
        'ordered subset of the matching instances',
    ]
    st_ = State(ctx)
    try:
        self_test(st_)

        def body(ex):
            ref, db, closer = st_.open(ex['db'])
            try:
                for q in ex['qs']:
                    check_case(ctx, st_, ref, db, ex['db'], q)
            finally:
                closer()

        core.run_given(ctx, example(st_, 20), body, max_examples=ctx.n(200, 1500), shrink=False)
        if ctx.shard == 0:
            try:
                sampling_rate_check(ctx, 40 if ctx.quick else 400)
            except core.Violation:
                ctx.record_violation()
    finally:
        st_.close()


def replay(ctx: core.Ctx, case):
    if case.get('kind') == 'sampling_rate':
        global SAMPLE_FRACTIONS
        saved, SAMPLE_FRACTIONS = SAMPLE_FRACTIONS, [case['sample']]
        try:
            return sampling_rate_check(ctx, case['repeats'])
        finally:
            SAMPLE_FRACTIONS = saved
    st_ = State(ctx)
    try:
        ref, db, closer = st_.open(case['db'])
        try:
            # SQLite's random() cannot be seeded: a sampling case is shown up to
            # 25 times (tail 25e-12), any other case once
            for _ in range(25 if case['q'].get('sample') is not None else 1):
                st_.sticky.clear()
                check_case(ctx, st_, ref, db, case['db'], case['q'])
        finally:
            closer()
    finally:
        st_.close()
