"""Shared pieces of the C02 / C17 checks: synthetic airports, performance-table
construction from JSON descriptions, Hypothesis strategies for tables, routes
and options, and small numeric references (WGS-84 forward point via pyproj,
hand-written linear interpolation).

Everything a case needs is plain JSON; `build_pm`, `make_mission`,
`make_builder` turn the description into AEIC objects.
"""

from __future__ import annotations

import math
import tomllib
from contextlib import contextmanager

from hypothesis import strategies as st

from .. import core

FT = 0.3048  # feet -> metres (exact by definition; AEIC.units.FEET_TO_METERS)
DEP = '2024-09-01T12:00:00'
ARR = '2024-09-01T18:00:00'

_GEOD = None


def geod():
    """Own pyproj geodesic object (trusted base), never AEIC.utils.GEOD."""
    global _GEOD
    if _GEOD is None:
        from pyproj import Geod

        _GEOD = Geod(ellps='WGS84')
    return _GEOD


# --------------------------------------------------------------------------
# start-up self-tests of the references


def selftest():
    g = geod()
    # One degree of longitude along the equator = a*pi/180; one degree of
    # latitude northwards from the equator = 110574.3886 m (WGS-84 constants,
    # e.g. Rapp, Geometric Geodesy, table of meridian arcs).
    lon, lat, _ = g.fwd(0.0, 0.0, 90.0, 6378137.0 * math.pi / 180.0)
    if abs(lon - 1.0) > 1e-9 or abs(lat) > 1e-9:
        raise core.HarnessError(f'geodesic self-test (equator) failed: {lon}, {lat}')
    lon, lat, _ = g.fwd(0.0, 0.0, 0.0, 110574.38855780)
    if abs(lat - 1.0) > 1e-8 or abs(lon) > 1e-9:
        raise core.HarnessError(f'geodesic self-test (meridian) failed: {lon}, {lat}')
    # Antimeridian: 2 degrees eastwards along the equator from 179E is 179W.
    lon, lat, _ = g.fwd(179.0, 0.0, 90.0, 2 * 6378137.0 * math.pi / 180.0)
    if abs(((lon + 180.0) % 360.0 - 180.0) + 179.0) > 1e-9:
        raise core.HarnessError(f'geodesic self-test (antimeridian) failed: {lon}')
    if geo_dist_m(179.0, 0.0, -179.0, 0.0) > 222640 or geo_dist_m(10.0, 5.0, 370.0, 5.0) > 1e-6:
        raise core.HarnessError('geo_dist_m self-test failed')
    # linear interpolation reference against hand values
    if lin_interp(2.5, 2.0, 3.0, 10.0, 20.0) != 15.0 or lin_interp(2.0, 2.0, 4.0, -1.0, 1.0) != -1.0:
        raise core.HarnessError('lin_interp self-test failed')


def geo_dist_m(lon1, lat1, lon2, lat2) -> float:
    """Geodesic distance between two points (longitudes modulo 360)."""
    return float(geod().inv(lon1, lat1, lon2, lat2)[2])


def lin_interp(t, t0, t1, v0, v1):
    """Linear interpolation written out by hand (t0 < t1)."""
    return v0 + (t - t0) / (t1 - t0) * (v1 - v0)


# --------------------------------------------------------------------------
# airports


class Registry:
    """Same lookup interface as AEIC.utils.airports.AirportsData: indexing by
    IATA code returns an Airport or None."""

    def __init__(self, airports: dict):
        self._airports = dict(airports)

    def __getitem__(self, code):
        return self._airports.get(code)


def make_airport(code, lat, lon, elev):
    from AEIC.utils.airports import Airport

    return Airport(iata_code=code, name=f'synthetic {code}', latitude=float(lat), longitude=float(lon),
                   elevation=float(elev), country='ZZ', municipality=None)


@contextmanager
def airports(table: dict):
    """Install synthetic airports {code: (lat, lon, elev_m)} for the duration
    of the block; the previous registry object is restored afterwards."""
    import AEIC.utils.airports as ap

    saved = ap._airports
    ap._airports = Registry({c: make_airport(c, *v) for c, v in table.items()})
    try:
        yield
    finally:
        ap._airports = saved


def make_mission(m: dict, origin='OOO', destination='DDD', departure=None):
    from AEIC.missions import Mission
    from AEIC.missions.mission import iso_to_timestamp

    return Mission(
        origin=origin, destination=destination,
        departure=iso_to_timestamp(departure or m.get('dep', DEP)), arrival=iso_to_timestamp(ARR),
        load_factor=m['lf'], aircraft_type='738', flight_id=m.get('fid'),
    )


def mission_airports(m: dict) -> dict:
    return {'OOO': tuple(m['o']), 'DDD': tuple(m['d'])}


# --------------------------------------------------------------------------
# performance tables

_BASE = None
_PM_CACHE: dict = {}


def base_model_dict() -> dict:
    global _BASE
    if _BASE is None:
        p = core.REPO / 'src' / 'AEIC' / 'data' / 'performance' / 'sample_performance_model.toml'
        d = tomllib.loads(p.read_text())
        d.pop('APU_name', None)  # optional; avoids the APU database lookup
        cols = [c.lower() for c in d['flight_performance']['cols']]
        idx = [cols.index(c) for c in ('fuel_flow', 'fl', 'tas', 'rocd', 'mass')]
        rows = [[float(r[i]) for i in idx] for r in d['flight_performance']['data']]
        _BASE = (d, rows)
    return _BASE


def _smooth(s, fl, flmax):
    return s[0] * (1.0 + s[1] * fl / flmax)


def table_rows(t: dict) -> list[list[float]]:
    """Rows [fuel_flow, fl, tas, rocd, mass] for a table description."""
    if t['kind'] == 'sample':
        _, rows = base_model_dict()
        flmax = 410.0
        drop_all = set(t.get('drop_fl', []))
        drop_crz = set(t.get('drop_cruise_fl', []))
        out = []
        for ff, fl, tas, rocd, mass in rows:
            if fl in drop_all or (rocd == 0.0 and fl in drop_crz):
                continue
            out.append([
                ff * _smooth(t['s_ff'], fl, flmax), fl, tas * _smooth(t['s_tas'], fl, flmax),
                rocd * _smooth(t['s_rocd'], fl, flmax), mass * t['m_scale'] + t['m_shift'],
            ])
    elif t['kind'] == 'synth':
        fls = [float(f) for f in t['fls']]
        flmax = max(fls)
        lo, nom, hi = (float(x) for x in t['masses'])
        out = []

        def tas(fl):
            return t['tas0'] + t['tas1'] * fl

        for fl in fls:
            for m in (lo, nom, hi):
                out.append([t['ffc'] * (1 - 0.3 * fl / flmax), fl, tas(fl),
                            t['roc0'] * (1 - 0.6 * fl / flmax) * (1 - t['roc_m'] * (m - nom) / nom), m])
            if fl >= t['crz_fl_min']:
                for m in (lo, nom, hi):
                    out.append([t['ffz'] * (m / nom) * (1 - 0.2 * fl / flmax), fl, tas(fl) * 0.97, 0.0, m])
            out.append([t['ffd'], fl, tas(fl) * 0.95, -t['rod'] * (1 + 0.5 * fl / flmax), nom])
    else:
        raise core.HarnessError(f'unknown table kind {t["kind"]}')
    order = t.get('order', 'asis')
    if order == 'reversed':
        out.reverse()
    elif order == 'rot':
        k = len(out) // 3
        out = out[k:] + out[:k]
    elif order == 'by_section':
        out.sort(key=lambda r: (0 if r[3] > 0 else 1 if r[3] == 0 else 2, r[4], r[1]))
    elif order == 'interleave':
        out = out[::2] + out[1::2]
    for r in out:
        if not (r[2] > 1.05 * abs(r[3]) and r[0] > 0 and r[4] > 0):
            raise core.HarnessError(f'generator produced a physically invalid row {r} from {t}')
    return out


def table_info(t: dict) -> dict:
    rows = table_rows(t)
    masses = sorted({r[4] for r in rows})
    crz = sorted({r[1] for r in rows if r[3] == 0.0})
    return {
        'm_lo': masses[0], 'm_hi': masses[-1], 'crz_fl_min': crz[0], 'crz_fl_max': crz[-1],
        'fl_max': max(r[1] for r in rows), 'fl_min': min(r[1] for r in rows),
        'ceiling_m': t['max_alt_ft'] * FT,
    }


def build_pm(t: dict, max_alt_ft=None):
    """LegacyPerformanceModel for a table description (cached).  A failure to
    load is a generator bug (the descriptions are valid by construction)."""
    from AEIC.performance.models import PerformanceModel

    key = core.short_hash([t, max_alt_ft])
    if key in _PM_CACHE:
        return _PM_CACHE[key]
    d, _ = base_model_dict()
    d = {k: v for k, v in d.items() if k != 'flight_performance'}
    d['maximum_altitude_ft'] = int(max_alt_ft if max_alt_ft is not None else t['max_alt_ft'])
    d['maximum_payload_kg'] = int(t['payload'])
    d['flight_performance'] = {'cols': ['fuel_flow', 'fl', 'tas', 'rocd', 'mass'], 'data': table_rows(t)}
    try:
        pm = PerformanceModel.from_data(d)
    except Exception as e:  # noqa: BLE001
        raise core.HarnessError(f'valid-by-construction table rejected: {e!r} for {t}') from e
    if len(_PM_CACHE) > 64:
        _PM_CACHE.clear()
    _PM_CACHE[key] = pm
    return pm


SAMPLE_FLS = [0, 5, 10, 15, 20, 30, 40, 60, 80, 100, 120, 140, 160, 180, 200, 220, 240, 260, 280, 290, 310, 330,
              350, 370, 390, 410]


def _scale(lo, hi):
    return st.tuples(st.floats(lo, hi), st.floats(-0.1, 0.1)).map(list)


@st.composite
def sample_table(draw, weather_ok=False, dist_km=3000.0):
    """The shipped B738 table perturbed: smooth per-column multiplicative
    factors (functions of FL only, so the PTF structure rules are preserved),
    sub-sampled flight levels, shifted/scaled mass triple, other ceilings and
    payloads, other row orders.  `dist_km` caps the fuel-flow factor so that
    long routes have a chance to fit between the lowest and highest mass."""
    ff_cap = min(1.2, 5000.0 / max(dist_km, 1.0))
    plain = ff_cap >= 1.0 and draw(st.sampled_from([True, False, False, False]))
    t = {'kind': 'sample'}
    t['s_ff'] = [1.0, 0.0] if plain else draw(_scale(max(0.05, 0.4 * ff_cap), ff_cap))
    t['s_tas'] = [1.0, 0.0] if plain else draw(_scale(0.9, 1.2))
    t['s_rocd'] = [1.0, 0.0] if plain else draw(_scale(0.6, 1.15))
    t['m_scale'] = 1.0 if plain else draw(st.floats(0.8, 1.3))
    t['m_shift'] = 0.0 if plain else draw(st.floats(-3000.0, 8000.0))
    inner = SAMPLE_FLS[1:-1]
    t['drop_fl'] = [] if plain else sorted(draw(st.sets(st.sampled_from(inner), max_size=10)))
    t['drop_cruise_fl'] = [] if plain else sorted(draw(st.sets(st.sampled_from([60, 80, 100, 390, 410]), max_size=2)))
    if weather_ok:
        t['max_alt_ft'] = draw(st.sampled_from([25000, 31000, 37000, 41000]))
    else:
        t['max_alt_ft'] = draw(st.one_of(
            st.sampled_from([41000, 41000, 39000, 37000, 45000, 47999]),
            st.integers(20000, 47000),
            st.integers(13000, 48000),
        ))
    t['payload'] = draw(st.sampled_from([22422, 22422, 15000, 30000, 8000]))
    t['order'] = draw(st.sampled_from(['asis', 'asis', 'reversed', 'rot', 'by_section', 'interleave']))
    return t


@st.composite
def synth_table(draw, dist_km=3000.0):
    """Fully synthetic analytic table with the PTF structure (TAS, climb fuel
    flow, descent ROCD/fuel flow functions of FL only; three masses; descent
    rows at the nominal mass only)."""
    n = draw(st.integers(4, 14))
    step = draw(st.sampled_from([20, 25, 30, 40, 50]))
    fls = [0] + [30 + i * step for i in range(n)]
    nom = draw(st.floats(20000.0, 250000.0))
    lo = nom * draw(st.floats(0.6, 0.85))
    hi = nom * draw(st.floats(1.15, 1.5))
    top = fls[-1]
    alt_lo = max(13000, (top - 150) * 100)
    alt_hi = max(alt_lo + 1000, top * 100 + 3000)
    # cruise fuel flow such that the trip burn stays well inside [lo, hi]
    ffz_cap = min(1.5, 0.35 * (hi - lo) * 150.0 / (max(dist_km, 1.0) * 1000.0))
    t = {
        'kind': 'synth', 'fls': fls, 'masses': [lo, nom, hi],
        'crz_fl_min': fls[draw(st.integers(1, max(1, n // 3)))],
        'tas0': draw(st.floats(80.0, 120.0)), 'tas1': draw(st.floats(0.2, 0.4)),
        'roc0': draw(st.floats(5.0, 25.0)), 'roc_m': draw(st.floats(0.0, 0.8)),
        'ffc': draw(st.floats(0.2, 3.0)), 'ffz': ffz_cap * draw(st.floats(0.1, 1.0)), 'ffd': draw(st.floats(0.01, 0.5)),
        'rod': draw(st.floats(3.0, 14.0)),
        'max_alt_ft': draw(st.integers(alt_lo, alt_hi)),
        'payload': int(nom * draw(st.floats(0.1, 0.4))),
        'order': draw(st.sampled_from(['asis', 'reversed', 'by_section', 'interleave'])),
    }
    return t


def tables(weather_ok=False, dist_km=3000.0):
    if weather_ok:
        return sample_table(weather_ok=True, dist_km=dist_km)
    return st.one_of(sample_table(dist_km=dist_km), sample_table(dist_km=dist_km), synth_table(dist_km=dist_km))


# --------------------------------------------------------------------------
# routes / missions

ROUTE_CLASSES = ['any', 'any', 'any', 'any', 'any', 'antimeridian', 'antimeridian', 'polar', 'polar', 'antipodal',
                 'short']


@st.composite
def route(draw):
    """Origin anywhere, destination = WGS-84 forward point at a drawn azimuth
    and distance (computed here with pyproj so that the case shows both ends)."""
    cls = draw(st.sampled_from(ROUTE_CLASSES))
    if cls == 'antimeridian':
        olat = draw(st.floats(-70.0, 70.0))
        olon = draw(st.sampled_from([-1.0, 1.0])) * draw(st.floats(170.0, 180.0))
        az = (90.0 if olon > 0 else 270.0) + draw(st.floats(-60.0, 60.0))
        dist = draw(st.floats(1200.0, 6000.0))
    elif cls == 'polar':
        olat = draw(st.sampled_from([-1.0, 1.0])) * draw(st.floats(80.0, 89.9))
        olon = draw(st.floats(-180.0, 180.0))
        az = draw(st.floats(0.0, 360.0))
        dist = draw(st.floats(500.0, 6000.0))
    elif cls == 'antipodal':
        olat = draw(st.floats(-89.0, 89.0))
        olon = draw(st.floats(-180.0, 180.0))
        az = draw(st.floats(0.0, 360.0))
        dist = draw(st.floats(17000.0, 20003.0))
    elif cls == 'short':
        olat = draw(st.floats(-80.0, 80.0))
        olon = draw(st.floats(-180.0, 180.0))
        az = draw(st.floats(0.0, 360.0))
        dist = draw(st.floats(1.0, 600.0))
    else:
        olat = draw(st.floats(-89.9, 89.9))
        olon = draw(st.floats(-180.0, 180.0))
        az = draw(st.floats(0.0, 360.0))
        dist = draw(st.one_of(st.floats(400.0, 3000.0), st.floats(400.0, 3000.0), st.floats(3000.0, 16000.0)))
    dlon, dlat, _ = geod().fwd(olon, olat, az, dist * 1000.0)
    dlat = max(-89.9, min(89.9, float(dlat)))
    return {'cls': cls, 'o': [olat, olon], 'd': [dlat, float(dlon)], 'dist_km': dist}


@st.composite
def mission(draw, rt=None, max_alt_ft=41000, above=True):
    """Mission description for a route: elevations (mostly below the level at
    which '+3000 ft' still fits under the cruise level ceiling-7000 ft, some up
    to 4500 m regardless, a few far above any cruise level), load factor,
    optional flight id."""
    if rt is None:
        rt = draw(route())
    fit = max(0.0, min(4500.0, (max_alt_ft - 10000) * FT - 30.0))

    def elev():
        kind = draw(st.sampled_from(['zero', 'low', 'low', 'fit', 'fit', 'fit', 'any', 'above', 'below_sea'] if above else
                                    ['zero', 'low', 'low', 'fit', 'fit', 'fit', 'below_sea']))
        if kind == 'zero':
            return 0.0
        if kind == 'below_sea':
            # airports below sea level exist (Amsterdam -3 m, Dead Sea region -380 m)
            return draw(st.one_of(st.floats(-430.0, 0.0), st.sampled_from([-3.4, -378.0])))
        if kind == 'low':
            return draw(st.floats(0.0, min(500.0, fit)))
        if kind == 'fit':
            return draw(st.floats(0.0, fit))
        if kind == 'any':
            return draw(st.floats(0.0, 4500.0))
        return draw(st.sampled_from([0.0, 0.0, 0.0, 1.0])) * draw(st.floats(9000.0, 15000.0))

    oel, del_ = elev(), elev()
    lf = draw(st.one_of(st.floats(0.35, 1.0), st.floats(0.35, 1.0), st.floats(0.35, 1.0), st.floats(0.0, 1.0), st.just(1.0)))
    fid = draw(st.one_of(st.none(), st.integers(1, 10**9)))
    return {'o': rt['o'] + [oel], 'd': rt['d'] + [del_], 'lf': lf, 'fid': fid, 'cls': rt['cls']}


# --------------------------------------------------------------------------
# options


def frac_step(max_n=150):
    """Step fractions: 1/n and arbitrary floats; phase sizes int(1/frac) are
    mostly not multiples of the container's 50-point blocks."""
    return st.one_of(
        st.integers(2, 40).map(lambda n: 1.0 / n),
        st.integers(2, max_n).map(lambda n: 1.0 / n),
        st.sampled_from([0.01, 0.02, 0.03, 0.04, 0.013]),
        st.floats(max(0.005, 1.0 / max_n), 0.5),
    )


@st.composite
def options(draw, max_n=150):
    o = {
        'clm': draw(frac_step(max_n)), 'crz': draw(frac_step(max_n)), 'des': draw(frac_step(max_n)),
        'iterate': draw(st.booleans()),
        'max_iters': draw(st.integers(1, 8)),
        'reltol': draw(st.sampled_from([1e-4, 1e-3, 1e-2, 1e-2, 0.05, 0.2])),
    }
    return o


def phase_sizes(o: dict):
    """Points per phase exactly as the builder's documented discretisation
    (int(1/frac) for climb and cruise, int(1/frac + 1) for descent)."""
    return int(1 / o['clm']), int(1 / o['crz']), int(1 / o['des'] + 1)


def make_builder(o: dict, use_weather=False):
    import AEIC.trajectories.builders as tb

    return tb.LegacyBuilder(
        options=tb.Options(iterate_mass=o['iterate'], use_weather=use_weather, max_mass_iters=o['max_iters'],
                           mass_iter_reltol=o['reltol']),
        legacy_options=tb.LegacyOptions(frac_step_clm=o['clm'], frac_step_crz=o['crz'], frac_step_des=o['des']),
    )


POINT_FIELDS = ['fuel_flow', 'aircraft_mass', 'fuel_mass', 'ground_distance', 'altitude', 'flight_level',
                'rate_of_climb', 'flight_time', 'latitude', 'longitude', 'azimuth', 'heading', 'true_airspeed',
                'ground_speed']
META_FIELDS = ['starting_mass', 'total_fuel_mass', 'n_climb', 'n_cruise', 'n_descent', 'flight_id', 'name']

INTERNAL_ERRORS = (AttributeError, KeyError, TypeError, UnboundLocalError, NameError, IndexError, AssertionError)
