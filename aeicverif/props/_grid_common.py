"""Shared pieces of C04/C05 (trajectory gridding): case generator, independent
reference for segment/grid intersection, brute-force cross-check of that
reference, and the code-under-test driver.

Grid convention (derived from AEIC/gridding/grid.py, there is no documentation):
edges are ascending *lower* cell edges, a coordinate x lies in cell
`searchsorted(edges, x, 'left') - 1`, i.e. cell k = (e[k], e[k+1]], the last
cell is unbounded above, and x <= e[0] is outside the grid.  Angles in radians.

Reference (plain Python floats + pyproj for lengths): the straight map line of
a leg is P(t) = P0 + t (P1 - P0).  Grid-line crossings are t = (e - x0)/dx.  A
cell's extent on the leg is obtained by slab clipping.  The cumulative
great-circle length G(t) is the chord sum over the crossing partition.  None
of this uses slopes/intercepts, searchsorted on computed midpoints or numpy
sorting, which is what the implementation does.
"""

from __future__ import annotations

import bisect
import math

from hypothesis import strategies as st

from .. import core

PI = math.pi
HALF_PI = math.pi / 2
INF = float('inf')

TINY = 1e-12   # a piece with a share <= TINY "receives nothing"
DELTA = 1e-9   # rad: geometric slack on cell extents (6 mm)
NEAR = 1e-6    # rad: generated non-zero coordinate differences are >= NEAR, except in the jitter templates
POLE_GAP = 1e-9  # rad: generated points keep this distance from the poles (see ASSUMPTIONS)
LAT_MAX = HALF_PI - POLE_GAP
NSUB = 256     # uniform subdivision for the upper envelope of the excess
NBRUTE = 20000

W_FRACTIONS = '_cell_idxs_touched_by_trajectory_with_state_and_integrated_vars'
W_HORIZONTAL = '_trajectory_intersection_points_and_cells_horizontal'
W_DATELINE = '_grid_trajectory_with_dateline_crossing'

_GEOD = None


def geod():
    global _GEOD
    if _GEOD is None:
        from pyproj import Geod

        _GEOD = Geod(ellps='WGS84')
    return _GEOD


def gc_many(la1, lo1, la2, lo2):
    """Geodesic (WGS-84) lengths in metres between paired points (lists, radians)."""
    if not la1:
        return []
    out = geod().inv(list(lo1), list(la1), list(lo2), list(la2), radians=True)[2]
    return [float(x) for x in out]


def gc_one(p, q):
    return gc_many([p[0]], [p[1]], [q[0]], [q[1]])[0]


def chain_length(pts):
    if len(pts) < 2:
        return 0.0
    return math.fsum(
        gc_many([p[0] for p in pts[:-1]], [p[1] for p in pts[:-1]], [p[0] for p in pts[1:]], [p[1] for p in pts[1:]])
    )


def cell_of(edges, x):
    """Cell index under the (e[k], e[k+1]] convention; -1 = at/below the first edge."""
    return bisect.bisect_left(edges, x) - 1


def _clip(x0, dx, lo, hi):
    """t-range in [0,1] with lo <= x0 + t dx <= hi, or None."""
    if dx == 0:
        return (0.0, 1.0) if lo <= x0 <= hi else None
    ta = (lo - x0) / dx
    tb = (hi - x0) / dx
    if ta > tb:
        ta, tb = tb, ta
    ta = max(ta, 0.0)
    tb = min(tb, 1.0)
    if ta > tb:
        return None
    return (ta, tb)


class Leg:
    """One straight map-line leg P0 -> P1 against a horizontal grid."""

    def __init__(self, glat, glon, p0, p1):
        self.glat, self.glon = glat, glon
        self.p0, self.p1 = p0, p1
        self.la0, self.lo0 = p0
        self.la1, self.lo1 = p1
        self.dla = self.la1 - self.la0
        self.dlo = self.lo1 - self.lo0
        self.lrad = math.hypot(self.dla, self.dlo)
        a, b = min(self.la0, self.la1), max(self.la0, self.la1)
        # lines separating the start cell from the end cell: a <= e < b
        self.nlat = bisect.bisect_left(glat, b) - bisect.bisect_left(glat, a)
        a, b = min(self.lo0, self.lo1), max(self.lo0, self.lo1)
        self.nlon = bisect.bisect_left(glon, b) - bisect.bisect_left(glon, a)
        self.count = 1 + self.nlat + self.nlon
        self.illcond = (0 < abs(self.dla) < NEAR and self.nlat > 0) or (0 < abs(self.dlo) < NEAR and self.nlon > 0)
        self._T = None

    # ---- geometry
    def point(self, t):
        if t <= 0.0:
            return self.p0
        if t >= 1.0:
            return self.p1
        return (self.la0 + t * self.dla, self.lo0 + t * self.dlo)

    def partition(self):
        """Sorted distinct crossing parameters (0 and 1 included) and their points."""
        if self._T is None:
            pts = {0.0: self.p0, 1.0: self.p1}
            if self.dla != 0:
                a, b = min(self.la0, self.la1), max(self.la0, self.la1)
                for e in self.glat[bisect.bisect_left(self.glat, a): bisect.bisect_right(self.glat, b)]:
                    t = min(1.0, max(0.0, (e - self.la0) / self.dla))
                    pts.setdefault(t, (e, self.lo0 + t * self.dlo))
            if self.dlo != 0:
                a, b = min(self.lo0, self.lo1), max(self.lo0, self.lo1)
                for e in self.glon[bisect.bisect_left(self.glon, a): bisect.bisect_right(self.glon, b)]:
                    t = min(1.0, max(0.0, (e - self.lo0) / self.dlo))
                    pts.setdefault(t, (self.la0 + t * self.dla, e))
            T = sorted(pts)
            P = [pts[t] for t in T]
            lens = gc_many([p[0] for p in P[:-1]], [p[1] for p in P[:-1]], [p[0] for p in P[1:]], [p[1] for p in P[1:]])
            C = [0.0]
            for x in lens:
                C.append(C[-1] + x)
            self._T, self._P, self._C = T, P, C
        return self._T, self._P, self._C

    def pieces_length(self):
        return self.partition()[2][-1]

    def G(self, ts):
        """Cumulative chord length (metres) along the crossing partition at each t."""
        T, P, C = self.partition()
        idx, q = [], []
        for t in ts:
            t = min(1.0, max(0.0, t))
            i = min(bisect.bisect_right(T, t) - 1, len(T) - 2)
            idx.append(i)
            q.append(self.point(t))
        d = gc_many([P[i][0] for i in idx], [P[i][1] for i in idx], [p[0] for p in q], [p[1] for p in q])
        return [C[i] + x for i, x in zip(idx, d)]

    def extent(self, i, j, delta):
        """t-interval on which the leg is inside the closed cell (i, j) widened by delta, or None."""
        glat, glon = self.glat, self.glon
        lo = glat[i] - delta
        hi = glat[i + 1] + delta if i + 1 < len(glat) else INF
        r1 = _clip(self.la0, self.dla, lo, hi)
        if r1 is None:
            return None
        lo = glon[j] - delta
        hi = glon[j + 1] + delta if j + 1 < len(glon) else INF
        r2 = _clip(self.lo0, self.dlo, lo, hi)
        if r2 is None:
            return None
        ta, tb = max(r1[0], r2[0]), min(r1[1], r2[1])
        if ta > tb:
            return None
        return (ta, tb)

    def union_length(self, nsub=NSUB):
        """Chord sum over crossing partition U uniform nsub-fold subdivision (metres): an upper
        envelope for the chord sum over the crossing partition alone (triangle inequality)."""
        T = set(self.partition()[0])
        T.update(k / nsub for k in range(nsub + 1))
        return chain_length([self.point(t) for t in sorted(T)])


class SegRef:
    """Reference description of one trajectory segment."""

    def __init__(self, glat, glon, p0, p1):
        self.p0, self.p1 = p0, p1
        diff = p1[1] - p0[1]
        self.am = abs(diff) > PI
        if self.am:
            # the construction named by the property/anchors: along the start latitude to the
            # antimeridian, then from the other side (still at the start latitude) to the end point
            first_end = PI if diff < 0 else -PI
            self.legs = [Leg(glat, glon, p0, (p0[0], first_end)), Leg(glat, glon, (p0[0], -first_end), p1)]
            self.D = gc_one(self.legs[0].p0, self.legs[0].p1) + gc_one(self.legs[1].p0, self.legs[1].p1)
        else:
            self.legs = [Leg(glat, glon, p0, p1)]
            self.D = gc_one(p0, p1)
        self.count = sum(leg.count for leg in self.legs)
        self.zero = self.D == 0.0
        self.illcond = any(leg.illcond for leg in self.legs)
        self.ncross = sum(leg.nlat + leg.nlon for leg in self.legs)
        self.on_line = any(
            bisect.bisect_left(glat, p[0]) < len(glat) and glat[bisect.bisect_left(glat, p[0])] == p[0]
            or bisect.bisect_left(glon, p[1]) < len(glon) and glon[bisect.bisect_left(glon, p[1])] == p[1]
            for p in (p0, p1)
        )
        self._upper = None

    def upper(self):
        """Upper envelope of sum(pieces)/value for this segment (>= 1)."""
        if self._upper is None:
            self._upper = sum(leg.union_length() for leg in self.legs) / self.D
        return self._upper

    def disc(self):
        if self.zero:
            return 'zero_length_antimeridian_segment' if self.am else 'zero_length_segment'
        if self.illcond:
            return 'illcond_near_axis_crossing'
        if self.am:
            return 'antimeridian'
        if self.on_line:
            return 'point_on_gridline'
        return 'generic'

    def where(self):
        if self.zero:
            return W_DATELINE if self.am else W_FRACTIONS
        return W_HORIZONTAL


# --------------------------------------------------------------------------
# brute force cross-check of the reference (never a VIOLATION)


def brute_check_leg(leg: Leg, n=NBRUTE):
    glat, glon = leg.glat, leg.glon
    T, P, C = leg.partition()
    ts = [(k + 0.5) / n for k in range(n)]
    cells = []
    for t in ts:
        la = leg.la0 + t * leg.dla
        lo = leg.lo0 + t * leg.dlo
        cells.append((cell_of(glat, la), cell_of(glon, lo)))
    # (1) every sample lies inside the reference extent of the cell it was binned to
    ext_cache = {}
    for t, c in zip(ts, cells):
        if c[0] < 0 or c[1] < 0:
            continue
        if c not in ext_cache:
            ext_cache[c] = leg.extent(c[0], c[1], 1e-12)  # 1e-12 rad absorbs the rounding of the sample positions
        e = ext_cache[c]
        if e is None or not (e[0] - 1e-9 <= t <= e[1] + 1e-9):
            raise core.HarnessError(f'reference extent disagrees with dense sampling: t={t} cell={c} extent={e} leg={leg.p0}->{leg.p1}')
    # (2) between consecutive crossing parameters the samples stay in one cell (meaningless when a coordinate
    # changes by a few ulps only: the sample positions themselves are quantised)
    quantised = 0 < abs(leg.dla) < NEAR or 0 < abs(leg.dlo) < NEAR
    k = 0
    for a, b in zip(T[:-1], T[1:]):
        if quantised:
            break
        seen = set()
        while k < n and ts[k] < b:
            if ts[k] > a + 1e-12 and ts[k] < b - 1e-12:
                seen.add(cells[k])
            k += 1
        if len(seen) > 1:
            raise core.HarnessError(f'reference partition misses a crossing in ({a},{b}): cells {sorted(seen)} leg={leg.p0}->{leg.p1}')
    # (3) number of cell changes seen by sampling never exceeds the reference count
    changes = sum(1 for x, y in zip(cells[:-1], cells[1:]) if x != y)
    if leg.lrad > 0 and not quantised and changes > leg.count - 1:
        raise core.HarnessError(f'reference count {leg.count} < sampled cell changes {changes} leg={leg.p0}->{leg.p1}')
    # (4) lengths: direct <= pieces <= union <= dense (all chains on the same map line)
    direct = gc_one(leg.p0, leg.p1)
    pieces = leg.pieces_length()
    union = leg.union_length()
    dense = chain_length([leg.p0] + [leg.point(t) for t in ts[:: max(1, n // 4000)]] + [leg.p1])
    slack = 1e-9 * max(direct, 1.0) + 1e-6
    if not (direct - slack <= pieces <= union + slack):
        raise core.HarnessError(f'reference lengths not ordered: direct={direct} pieces={pieces} union={union}')
    # two fine partitions of the same curve agree to second order in the turning angle per piece (which is
    # far from uniform next to a pole, hence the loose bound; this only guards against gross errors)
    if abs(union - dense) > 1e-3 * max(dense, 1.0) + 1e-3 and leg.lrad > 0:
        raise core.HarnessError(f'reference union length {union} vs dense {dense}')
    # cumulative length: 0 at the start, the chord sum at the end, and continuous across every crossing (inside a
    # piece it is the chord from the last crossing, which need not be monotone on a map line circling a pole)
    probe = [0.0, 1.0]
    for t in T[1:-1]:
        probe.extend([max(0.0, t - 1e-9), t, min(1.0, t + 1e-9)])
    g = leg.G(probe)
    jump = 1e-9 * 6.4e6 * max(1.0, leg.lrad) * 4 + slack
    if abs(g[0]) > slack or abs(g[1] - pieces) > slack or any(
        abs(g[k] - g[k + 1]) > jump or abs(g[k + 2] - g[k + 1]) > jump or abs(g[k + 1] - C[1 + (k - 2) // 3]) > slack
        for k in range(2, len(g), 3)
    ):
        raise core.HarnessError(f'reference cumulative length is inconsistent: {g[:8]} C={C[:4]}')


_SELF_TESTED = False


def self_test():
    """Reference against hand-computed values (not produced by the reference)."""
    global _SELF_TESTED
    if _SELF_TESTED:
        return
    glat = [0.0, 0.1, 0.2]
    glon = [0.0, 0.1, 0.2, 0.3]
    leg = Leg(glat, glon, (0.05, 0.05), (0.15, 0.25))
    T = leg.partition()[0]
    want = [0.0, 0.25, 0.5, 0.75, 1.0]
    if len(T) != 5 or any(abs(a - b) > 1e-12 for a, b in zip(T, want)) or leg.count != 4:
        raise core.HarnessError(f'self-test: partition {T} count {leg.count}')
    for cell, (a, b) in {(0, 0): (0, .25), (0, 1): (.25, .5), (1, 1): (.5, .75), (1, 2): (.75, 1)}.items():
        e = leg.extent(cell[0], cell[1], 0.0)
        if e is None or abs(e[0] - a) > 1e-12 or abs(e[1] - b) > 1e-12:
            raise core.HarnessError(f'self-test: extent {cell} = {e}')
    if leg.extent(1, 0, 0.0) is not None and leg.extent(1, 0, 0.0)[1] - leg.extent(1, 0, 0.0)[0] > 1e-12:
        raise core.HarnessError('self-test: cell (1,0) should only be touched at a point or not at all')
    if leg.extent(0, 2, 0.0) is not None:
        raise core.HarnessError('self-test: cell (0,2) is not entered')
    # cell convention
    if [cell_of(glat, x) for x in (0.0, 1e-9, 0.1, 0.1000001, 0.2, 5.0)] != [-1, 0, 0, 1, 1, 2]:
        raise core.HarnessError('self-test: cell_of')
    # southward/westward leg through a corner, on-line end point
    leg = Leg(glat, glon, (0.15, 0.15), (0.1, 0.05))
    if leg.nlat != 1 or leg.nlon != 1 or leg.count != 3:
        raise core.HarnessError(f'self-test: south-west leg counts {leg.nlat} {leg.nlon}')
    # lengths: one degree of longitude on the equator = a*pi/180; quarter meridian = 10001965.729 m
    d = gc_one((0.0, 0.0), (0.0, math.radians(1.0)))
    if abs(d - 6378137.0 * math.pi / 180) > 1e-6:
        raise core.HarnessError(f'self-test: equatorial degree {d}')
    d = gc_one((0.0, 0.3), (HALF_PI, 0.3))
    if abs(d - 10001965.729) > 1e-2:
        raise core.HarnessError(f'self-test: quarter meridian {d}')
    # antimeridian construction: (5N,175E)->(15N,175W): legs along 5N to 180, then from -180 to the end
    s = SegRef([math.radians(x) for x in range(-90, 90, 10)], [math.radians(x) for x in range(-180, 180, 10)],
               (math.radians(5), math.radians(175)), (math.radians(15), math.radians(-175)))
    if not s.am or s.legs[0].p1 != (math.radians(5), PI) or s.legs[1].p0 != (math.radians(5), -PI) or s.count != 1 + 3:
        raise core.HarnessError('self-test: antimeridian legs')
    for lg in (Leg(glat, glon, (0.05, 0.05), (0.15, 0.25)), Leg(glat, glon, (0.19, 0.3), (0.01, 0.02)),
               Leg(glat, glon, (0.1, 0.05), (0.1, 0.35)), Leg(glat, glon, (0.3, 0.1), (0.05, 0.1)),
               Leg(glat, glon, (0.1, 0.1), (0.2, 0.2)), s.legs[0], s.legs[1]):
        brute_check_leg(lg, 4000)
    _SELF_TESTED = True


# --------------------------------------------------------------------------
# generator


def _frac(draw, n=1 << 16):
    """A fraction in (0, 1] on a 1/n lattice (never tiny, never 0)."""
    return (draw(st.integers(0, n - 1)) + 1) / n


def _rad(deg):
    return -PI if deg == -180.0 else math.radians(deg)


@st.composite
def _grid(draw, need_global_lon: bool):
    kinds = ['global_regular', 'irregular_global'] if need_global_lon else ['global_regular', 'regional_regular', 'irregular', 'regional_regular', 'irregular_global']
    kind = draw(st.sampled_from(kinds))
    if kind == 'global_regular':
        dlat, dlon = draw(st.sampled_from([(5, 5), (10, 10), (4, 5), (15, 30), (30, 30), (10, 20), (45, 90), (90, 180)]))
        glat = [_rad(-90.0 + dlat * k) for k in range(int(180 // dlat))]
        shifted = draw(st.integers(0, 3)) == 0  # cell-centred convention: first edge west of -180
        start = -180.0 - (dlon / 2 if shifted else 0.0)
        glon = [_rad(start + dlon * k) for k in range(int(360 // dlon))]
    elif kind == 'regional_regular':
        step = draw(st.sampled_from([0.25, 0.5, 1.0, 2.0, 2.5, 5.0, 10.0]))
        nlat = draw(st.integers(2, 24))
        nlon = draw(st.integers(2, 24))
        lat0 = float(draw(st.integers(-88, 80)))
        lon0 = float(draw(st.integers(-178, 170)))
        nlat = max(2, min(nlat, int((89.0 - lat0) / step) + 1))
        nlon = max(2, min(nlon, int((179.0 - lon0) / step) + 1))
        glat = [math.radians(lat0 + step * k) for k in range(nlat)]
        glon = [math.radians(lon0 + step * k) for k in range(nlon)]
    else:
        nla = draw(st.integers(2, 14))
        nlo = draw(st.integers(2, 14))
        ks = sorted(draw(st.lists(st.integers(0, 4096), min_size=nla, max_size=nla, unique=True)))
        glat = [-1.55 + 3.1 * k / 4096 for k in ks]
        ks = sorted(draw(st.lists(st.integers(1, 4096), min_size=nlo - 1, max_size=nlo - 1, unique=True)))
        if kind == 'irregular_global':
            first = -PI if draw(st.booleans()) else -PI - 0.04
            glon = [first] + [-3.1 + 6.2 * k / 4096 for k in ks]
        else:
            glon = [-3.1 + 6.2 * k / 4096 for k in [0] + ks]
    galt = gtime = None
    if draw(st.booleans()):
        n = draw(st.integers(2, 12))
        incs = draw(st.lists(st.integers(1, 30), min_size=n - 1, max_size=n - 1))
        galt = [float(draw(st.sampled_from([0, 0, -100, 500])))]
        for i in incs:
            galt.append(galt[-1] + 100.0 * i)
    if draw(st.booleans()):
        n = draw(st.integers(2, 12))
        incs = draw(st.lists(st.integers(1, 1440), min_size=n - 1, max_size=n - 1))
        gtime = [float(draw(st.sampled_from([0, 1700000000, -3600])))]
        for i in incs:
            gtime.append(gtime[-1] + 60.0 * i)
    return {'kind': kind, 'glat': glat, 'glon': glon, 'galt': galt, 'gtime': gtime}


def _lines_in(edges, lo_excl, hi_incl):
    """Grid lines (not the first edge) inside (lo_excl, hi_incl]."""
    return [e for e in edges[1:] if lo_excl < e <= hi_incl]


def _gap(x, prev):
    """Generated non-zero differences are >= NEAR (else snapped to zero)."""
    if prev is not None and 0 < abs(x - prev) < NEAR:
        return prev
    return x


_JITTER = [0, 0, 1, -1, 2, -2, 3, -4, 1e-15, -1e-15, 1e-13, -1e-13, 1e-11, -1e-11, 1e-9, -1e-9]


def _jittered(draw, e):
    j = draw(st.sampled_from(_JITTER))
    if isinstance(j, int):
        if abs(e) < 1e-3:
            return e + j * 2.0 ** -56  # rounding noise next to zero is absolute (~1e-17), not subnormal
        x = e
        for _ in range(abs(j)):
            x = math.nextafter(x, INF if j > 0 else -INF)
        return x
    return e + j


@st.composite
def cases(draw):
    tmpl = draw(st.sampled_from(['mixed', 'mixed', 'mixed', 'antimeridian', 'antimeridian', 'jitter_parallel', 'jitter_meridian', 'long']))
    if tmpl == 'long' and draw(st.integers(0, 9)) != 0:
        tmpl = 'mixed'
    grid = draw(_grid(tmpl == 'antimeridian'))
    glat, glon = grid['glat'], grid['glon']
    wlat = glat[-1] - glat[-2]
    wlon = glon[-1] - glon[-2]
    lat_lo, lat_hi = glat[0], min(LAT_MAX, glat[-1] + wlat)
    n = draw(st.sampled_from([2, 2, 3, 3, 4, 5, 6, 8, 12, 25]))
    if tmpl == 'long':
        # hundreds of points (a real trajectory has that many): sizes around multiples of 256 points / segments
        n = draw(st.sampled_from([257, 258, 300, 513, 514, 515, 600]))
    lats, lons = [], []

    def rand_lat():
        return min(lat_hi, lat_lo + (lat_hi - lat_lo) * _frac(draw))

    lat_lines = _lines_in(glat, lat_lo, lat_hi)

    if tmpl == 'antimeridian':
        k = draw(st.integers(0, n - 2))          # crossing segment index
        east_first = draw(st.booleans())         # True: lon ~ +pi first, then ~ -pi (eastward crossing)
        allow_minus_pi = glon[0] < -PI
        # the same physical point written as +pi and then -pi (or vice versa): a repeated point on the antimeridian
        wrap_repeat = allow_minus_pi and draw(st.integers(0, 5)) == 0
        prev = None
        # points of the crossing segment stay within 1.0 rad of the antimeridian (so |dlon| > pi there); in one third of
        # the cases the other points may lie up to 1.9 rad away, so that a long track's first and last longitudes
        # can be less than pi apart although it crosses the antimeridian (a trans-Pacific flight)
        far = draw(st.integers(0, 2)) == 0
        for i in range(n):
            east = (i <= k) == east_first
            W = 1.0 if i in (k, k + 1) else (1.9 if far else 1.5)
            kind = draw(st.sampled_from(['rand', 'rand', 'latline', 'lonline', 'corner', 'same', 'meridian', 'parallel', 'edge',
                                         'edge']))
            if wrap_repeat and i in (k, k + 1):
                kind = 'edge'
            la = rand_lat()
            if kind in ('latline', 'corner') and lat_lines:
                la = draw(st.sampled_from(lat_lines))
            if kind in ('parallel', 'same') and prev is not None:
                la = prev[0]
            if east:
                band = _lines_in(glon, PI - W, PI)
                lo = PI - W * (_frac(draw) if not (far and i in (0, n - 1) and W > 1.0) else 0.85 + 0.15 * _frac(draw))
                if kind in ('lonline', 'corner') and band:
                    lo = draw(st.sampled_from(band))
                if kind == 'edge':
                    lo = PI
            else:
                band = _lines_in(glon, -PI, -PI + W)
                lo = -PI + W * (_frac(draw) if not (far and i in (0, n - 1) and W > 1.0) else 0.85 + 0.15 * _frac(draw))
                if kind in ('lonline', 'corner') and band:
                    lo = draw(st.sampled_from(band))
                if kind == 'edge' and allow_minus_pi:
                    lo = -PI
            if kind in ('meridian', 'same') and prev is not None and (i != k + 1) and not (i == k and abs(abs(prev[1]) - PI) > 1.0):
                lo = prev[1]
            if wrap_repeat and i == k + 1:
                la = prev[0]
            if prev is not None:
                la = _gap(la, prev[0])
                if i != k + 1:
                    lo = _gap(lo, prev[1])
            # distance from the antimeridian is 0 or >= NEAR
            if 0 < PI - lo < NEAR:
                lo = PI
            if 0 < lo + PI < NEAR:
                lo = -PI + NEAR
            if lo == -PI and not allow_minus_pi:
                lo = -PI + NEAR
            lats.append(la)
            lons.append(lo)
            prev = (la, lo)
    else:
        # longitude window narrower than pi so that no segment is an antimeridian crossing
        lon_lo_all, lon_hi_all = max(glon[0], -PI), min(PI, glon[-1] + wlon)
        width = min(3.1, lon_hi_all - lon_lo_all)
        lon_lo = lon_lo_all + (lon_hi_all - lon_lo_all - width) * (draw(st.integers(0, 16)) / 16)
        lon_hi = min(lon_lo + width, lon_hi_all)
        lon_lines = _lines_in(glon, lon_lo, lon_hi)

        def rand_lon():
            return min(lon_hi, lon_lo + width * _frac(draw))

        if tmpl.startswith('jitter') and (lat_lines if tmpl == 'jitter_parallel' else lon_lines):
            # a flight along a parallel/meridian that coincides with a grid line up to rounding noise
            e = draw(st.sampled_from(lat_lines if tmpl == 'jitter_parallel' else lon_lines))
            prev = None
            for i in range(n):
                if tmpl == 'jitter_parallel':
                    la = min(lat_hi, _jittered(draw, e))
                    lo = rand_lon() if not (lon_lines and draw(st.integers(0, 3)) == 0) else draw(st.sampled_from(lon_lines))
                    if prev is not None:
                        lo = _gap(lo, prev[1])
                else:
                    lo = min(lon_hi, _jittered(draw, e))
                    la = rand_lat() if not (lat_lines and draw(st.integers(0, 3)) == 0) else draw(st.sampled_from(lat_lines))
                    if prev is not None:
                        la = _gap(la, prev[0])
                lats.append(la)
                lons.append(lo)
                prev = (la, lo)
        elif tmpl == 'long':
            # a straight map line from one random point to another, sampled at n points
            la0, lo0, la1, lo1 = rand_lat(), rand_lon(), rand_lat(), rand_lon()
            if la1 == la0 and lo1 == lo0:
                lo1 = lon_lo if lo0 != lon_lo else lon_hi
            for i in range(n):
                la = la0 + (la1 - la0) * (i / (n - 1))
                lo = lo0 + (lo1 - lo0) * (i / (n - 1))
                if lats:
                    la, lo = _gap(la, lats[-1]), _gap(lo, lons[-1])
                lats.append(min(max(la, lat_lo + NEAR), lat_hi))
                lons.append(min(max(lo, lon_lo + NEAR), lon_hi))
        else:
            tmpl = 'mixed'
            prev = None
            for i in range(n):
                kind = draw(st.sampled_from(['rand', 'rand', 'latline', 'lonline', 'corner', 'same', 'meridian', 'parallel',
                                             'near', 'near', 'meridian_line', 'parallel_line', 'corner']))
                la, lo = rand_lat(), rand_lon()
                if kind in ('latline', 'corner', 'meridian_line') and lat_lines:
                    la = draw(st.sampled_from(lat_lines))
                if kind in ('lonline', 'corner', 'parallel_line') and lon_lines:
                    lo = draw(st.sampled_from(lon_lines))
                if prev is not None:
                    if kind == 'same':
                        la, lo = prev
                    elif kind in ('meridian', 'meridian_line'):
                        lo = prev[1]
                    elif kind in ('parallel', 'parallel_line'):
                        la = prev[0]
                    elif kind == 'near':
                        ci = max(0, min(cell_of(glat, prev[0]), len(glat) - 2))
                        cj = max(0, min(cell_of(glon, prev[1]), len(glon) - 2))
                        sa = (draw(st.integers(-64, 64)) / 64) * 1.2 * (glat[ci + 1] - glat[ci])
                        so = (draw(st.integers(-64, 64)) / 64) * 1.2 * (glon[cj + 1] - glon[cj])
                        la, lo = prev[0] + sa, prev[1] + so
                        if not (lat_lo + NEAR < la <= lat_hi):
                            la = prev[0]
                        if not (lon_lo + NEAR < lo <= lon_hi):
                            lo = prev[1]
                    la = _gap(la, prev[0])
                    lo = _gap(lo, prev[1])
                lats.append(la)
                lons.append(lo)
                prev = (la, lo)

    # altitude / time inputs
    alt = tim = None
    if grid['galt'] is not None and draw(st.integers(0, 5)) != 0:
        g = grid['galt']
        alt = []
        for _ in range(n):
            if draw(st.integers(0, 3)) == 0:
                alt.append(draw(st.sampled_from(g[1:])))
            else:
                alt.append(g[0] + (g[-1] + 1000.0 - g[0]) * _frac(draw, 1 << 12))
    if grid['gtime'] is not None and draw(st.integers(0, 5)) != 0:
        g = grid['gtime']
        tim = []
        for _ in range(n):
            if draw(st.integers(0, 3)) == 0:
                tim.append(draw(st.sampled_from(g[1:])))
            else:
                tim.append(g[0] + (g[-1] + 3600.0 - g[0]) * _frac(draw, 1 << 12))
        tim.sort()
    val = st.one_of(
        st.integers(-1000, 100000).map(float),
        st.floats(-1e6, 1e6, allow_nan=False, allow_infinity=False, allow_subnormal=False, width=64),
    )
    pos = st.one_of(
        st.integers(1, 100000).map(float),
        st.floats(1e-3, 1e6, allow_nan=False, allow_infinity=False, allow_subnormal=False, width=64),
        st.just(0.0),
    )
    nstate = draw(st.integers(0, 3))
    ninteg = draw(st.integers(0, 3))
    state = [draw(st.lists(val, min_size=n, max_size=n)) for _ in range(nstate)]
    integ = []
    for _ in range(ninteg):
        integ.append(draw(st.lists(pos if draw(st.integers(0, 2)) else val, min_size=n - 1, max_size=n - 1)))
    int_vars = (nstate or ninteg) and draw(st.integers(0, 5)) == 0
    if int_vars:
        # whole-number variables handed over in integer arrays (counts, phase numbers)
        state = [[float(round(x)) for x in v] for v in state]
        integ = [[float(round(x)) for x in v] for v in integ]
    return {
        'tmpl': tmpl, 'gkind': grid['kind'],
        'glat': glat, 'glon': glon, 'galt': grid['galt'], 'gtime': grid['gtime'],
        'lat': lats, 'lon': lons, 'alt': alt, 'time': tim, 'state': state, 'integ': integ,
        'int_vars': bool(int_vars),
    }


# --------------------------------------------------------------------------
# case -> objects, domain validation, reference, labels


def validate(case):
    """The generator must only emit inputs inside the documented domain (else exit 2)."""
    for k in ('glat', 'glon', 'galt', 'gtime'):
        g = case[k]
        if g is None:
            continue
        if len(g) < 2 or any(b <= a for a, b in zip(g[:-1], g[1:])):
            raise core.HarnessError(f'generator: {k} not strictly ascending')
    n = len(case['lat'])
    if n < 2 or len(case['lon']) != n:
        raise core.HarnessError('generator: need >= 2 points')
    for la, lo in zip(case['lat'], case['lon']):
        if not (case['glat'][0] < la <= LAT_MAX and la >= -LAT_MAX and case['glon'][0] < lo <= PI and lo >= -PI):
            raise core.HarnessError(f'generator: point ({la},{lo}) outside the grid')
    ncross = sum(1 for a, b in zip(case['lon'][:-1], case['lon'][1:]) if abs(b - a) > PI)
    if ncross > 1:
        raise core.HarnessError('generator: more than one antimeridian crossing')
    for key, g in (('alt', 'galt'), ('time', 'gtime')):
        if case[key] is not None:
            if case[g] is None or len(case[key]) != n or any(x <= case[g][0] for x in case[key]):
                raise core.HarnessError(f'generator: {key} outside the grid')
    if any(len(v) != n for v in case['state']) or any(len(v) != n - 1 for v in case['integ']):
        raise core.HarnessError('generator: variable lengths')


def build_reference(case):
    glat, glon = case['glat'], case['glon']
    pts = list(zip(case['lat'], case['lon']))
    return [SegRef(glat, glon, p, q) for p, q in zip(pts[:-1], pts[1:])]


def call_gridder(case, with_vars=True):
    """Run the code under test.  State variable 0 is the harness tag arange(n); integrated variable 0 is
    the harness unit variable (its pieces are the shares)."""
    import numpy as np
    from AEIC.gridding.grid import Gridder

    n = len(case['lat'])
    g = Gridder(
        np.array(case['glat'], dtype=float),
        np.array(case['glon'], dtype=float),
        None if case['galt'] is None else np.array(case['galt'], dtype=float),
        None if case['gtime'] is None else np.array(case['gtime'], dtype=float),
    )
    if with_vars:
        vt = np.int64 if case.get('int_vars') else float
        state = (np.arange(n, dtype=float),) + tuple(np.array(v, dtype=float).astype(vt) for v in case['state'])
        integ = (np.ones(n - 1),) + tuple(np.array(v, dtype=float).astype(vt) for v in case['integ'])
    else:
        state, integ = (), ()
    args = [
        np.array(case['lat'], dtype=float),
        np.array(case['lon'], dtype=float),
        None if case['alt'] is None else np.array(case['alt'], dtype=float),
        None if case['time'] is None else np.array(case['time'], dtype=float),
    ]
    before = [None if a is None else a.copy() for a in args] + [v.copy() for v in state] + [v.copy() for v in integ]
    out = g.grid_trajectory(*args, state, integ)
    # the caller's arrays are inputs: gridding the same trajectory again (or summing it) afterwards must see the same data
    after = args + list(state) + list(integ)
    names = ['latitudes', 'longitudes', 'altitudes', 'times'] + [f'state[{i}]' for i in range(len(state))] + \
        [f'integrated[{i}]' for i in range(len(integ))]
    for nm, b, a in zip(names, before, after):
        if b is not None and (b.shape != a.shape or b.tobytes() != a.tobytes()):
            raise InputMutated(nm)
    return out


class InputMutated(Exception):
    """grid_trajectory changed one of the arrays it was given."""


def _am_cells(glat, glon, legs):
    cells = set()
    for leg in legs:
        T = leg.partition()[0]
        for a, b in zip(T[:-1], T[1:]):
            if b - a > 1e-9:
                la, lo = leg.point((a + b) / 2)
                cells.add((cell_of(glat, la), max(cell_of(glon, lo), 0)))
    return cells


def _straight_am_legs(glat, glon, seg):
    """The straight line through the unwrapped map, cut at the antimeridian."""
    (la0, lo0), (la1, lo1) = seg.p0, seg.p1
    east = lo1 < lo0  # lon ~ +pi -> ~ -pi
    edge = PI if east else -PI
    span = (lo1 + (2 * PI if east else -2 * PI)) - lo0
    t = (edge - lo0) / span if span != 0 else 0.0
    la = la0 + t * (la1 - la0)
    return [Leg(glat, glon, seg.p0, (la, edge)), Leg(glat, glon, (la, -edge), seg.p1)]


def classify(ctx, case, segs):
    """Labels + the non-trivial rule.  Returns True when the case is non-trivial."""
    glat, glon = case['glat'], case['glon']
    flags = set()
    flags.add('tmpl.' + case['tmpl'])
    if case['tmpl'] == 'antimeridian' and abs(case['lon'][-1] - case['lon'][0]) <= PI and len(case['lon']) > 2:
        flags.add('antimeridian_track_with_end_longitudes_within_pi')
    flags.add('grid.' + case['gkind'])
    if case.get('int_vars'):
        flags.add('vars.integer_dtype')
    flags.add('axes.alt' if case['alt'] is not None else 'axes.no_alt')
    flags.add('axes.time' if case['time'] is not None else 'axes.no_time')
    flags.add(f'vars.state{len(case["state"])}')
    flags.add(f'vars.integ{len(case["integ"])}')
    nontrivial = False
    for s, seg in enumerate(segs):
        if seg.zero:
            flags.add('seg.zero_length')
            nontrivial = True  # the harness unit variable is always non-zero
            continue
        if seg.am:
            flags.add('seg.antimeridian_east' if seg.p1[1] < seg.p0[1] else 'seg.antimeridian_west')
            nontrivial = True
            if _am_cells(glat, glon, seg.legs) != _am_cells(glat, glon, _straight_am_legs(glat, glon, seg)):
                # the two-leg construction named by the property visits other cells than the straight line through
                # the unwrapped map would (informational: how often the choice of reference geometry matters)
                flags.add('seg.antimeridian_construction_differs_from_straight_line')
        if seg.illcond:
            flags.add('seg.near_axis_crossing')
        if seg.ncross >= 2:
            flags.add('seg.cross_ge2')
            nontrivial = True
        if seg.ncross >= 8:
            flags.add('seg.cross_ge8')
        if seg.ncross == 0:
            flags.add('seg.inside_one_cell')
        if seg.on_line:
            flags.add('seg.endpoint_on_gridline')
            nontrivial = True
        for p in (seg.p0, seg.p1):
            i = bisect.bisect_left(glat, p[0])
            j = bisect.bisect_left(glon, p[1])
            if i < len(glat) and glat[i] == p[0] and j < len(glon) and glon[j] == p[1]:
                flags.add('seg.endpoint_on_corner')
        if not seg.am:
            dla, dlo = seg.p1[0] - seg.p0[0], seg.p1[1] - seg.p0[1]
            if dla == 0:
                flags.add('seg.along_parallel')
                i = bisect.bisect_left(glat, seg.p0[0])
                if i < len(glat) and glat[i] == seg.p0[0]:
                    flags.add('seg.along_lat_gridline')
            if dlo == 0:
                flags.add('seg.along_meridian')
                j = bisect.bisect_left(glon, seg.p0[1])
                if j < len(glon) and glon[j] == seg.p0[1]:
                    flags.add('seg.along_lon_gridline')
            if dla < 0:
                flags.add('seg.southward')
            if dlo < 0:
                flags.add('seg.westward')
            if abs(seg.p0[0]) > 1.4 or abs(seg.p1[0]) > 1.4:
                flags.add('seg.polar')
    ctx.label(*sorted(flags))
    if nontrivial:
        ctx.mark_nontrivial({'g': [case['glat'][:3], case['glon'][:3], len(case['glat']), len(case['glon'])],
                             'p': [case['lat'], case['lon']]})
    return nontrivial


def maybe_brute(case, segs):
    """Cross-check the reference by dense sampling on ~5 % of the cases (deterministic choice)."""
    h = int(core.short_hash([case['lat'], case['lon']]), 16)
    if h % 20 != 0:
        return False
    for seg in segs:
        for leg in seg.legs:
            if leg.lrad > 0:
                brute_check_leg(leg)
    return True


RULE = (
    'Hypothesis composite: a grid (global regular incl. cell-centred first edge west of -180, regional regular 0.25-10 deg, '
    'irregular; optional altitude/time axes) and 2-25 points built by construction from classes (interior, exactly on a '
    'latitude/longitude grid line, on a corner, repeated point, along a meridian/parallel on or off a grid line, short '
    'hops around the previous point, polar), four templates: mixed, antimeridian (exactly one |dlon|>pi segment, either '
    'direction, any position, start exactly at +pi), jitter_parallel / jitter_meridian (a leg hugging a grid line within '
    '0..4 ulp or 1e-15..1e-9 rad). 0-3 state and 0-3 integrated variables plus the harness tag/unit variables. A case is '
    'non-trivial when some segment crosses >= 2 grid lines, has an end point exactly on a grid line, is zero-length, or '
    'crosses the antimeridian; distinct = hash of (grid head, points).'
)

ASSUMPTIONS = [
    'grid convention read from the code: ascending lower edges, cell k = (e[k], e[k+1]], last cell unbounded above; '
    'points are strictly above the first edge on every axis used ("within the grid")',
    'an antimeridian crossing is a segment with |dlon| > pi (the code\'s definition); at most one per trajectory; its '
    'reference geometry is the two-leg construction named in the property anchors (along the start latitude to +-pi, '
    'then from -+pi at the start latitude to the end point), shares = piece length / (leg1 + leg2)',
    'lengths are WGS-84 geodesic lengths from pyproj (the measure the code and the property use)',
    'generated non-zero coordinate differences are >= 1e-6 rad except in the jitter templates; tolerances: shares '
    '1e-7 + 1e-13/len_rad, cell extents widened by 1e-9 rad, pieces with share <= 1e-12 count as "nothing"',
    'points keep 1e-9 rad away from the exact poles (at a pole every longitude is the same point and a rounding error '
    'of one ulp puts a computed crossing beyond 90 deg, which pyproj answers with NaN)',
    'altitude/time arrays are passed only when the grid has that axis (otherwise the code refuses by ValueError)',
]


def fail(ctx, clause, kind, where, disc, detail):
    """ctx.fail, except that a signature already reported in this run is not re-raised as a Hypothesis
    rejection (a defect hit by every case would otherwise make the search Unsatisfiable): it is treated like a
    listed known finding -- returns a truthy value and the caller stops checking that part."""
    sig = f'{ctx.pid}:{clause}:{kind}:{where}:{disc}'
    if sig in ctx.session_seen and sig not in ctx.known:
        return sig
    return ctx.fail(clause, kind, where, disc, detail)


def fail_exc(ctx, clause, exc, disc):
    if isinstance(exc, core.PASS_THROUGH):
        raise exc
    sig = f'{ctx.pid}:{clause}:{type(exc).__name__}:{core.aeic_frame(exc)}:{disc}'
    if sig in ctx.session_seen and sig not in ctx.known:
        return sig
    return ctx.fail_exc(clause, exc, disc)


def case_disc(segs):
    """Case-level root-cause class (for failures that cannot be tied to one segment)."""
    for want in ('zero_length_antimeridian_segment', 'zero_length_segment', 'illcond_near_axis_crossing', 'antimeridian'):
        if any(seg.disc() == want for seg in segs):
            return want
    return 'generic'


def compact(case):
    return {
        'tmpl': case['tmpl'], 'grid': case['gkind'], 'n_glat': len(case['glat']), 'n_glon': len(case['glon']),
        'glat_head_deg': [round(math.degrees(x), 6) for x in case['glat'][:3]],
        'glon_head_deg': [round(math.degrees(x), 6) for x in case['glon'][:3]],
        'galt': case['galt'], 'gtime': None if case['gtime'] is None else len(case['gtime']),
        'lat_deg': [round(math.degrees(x), 9) for x in case['lat']],
        'lon_deg': [round(math.degrees(x), 9) for x in case['lon']],
        'alt': case['alt'], 'n_state': len(case['state']), 'integ': case['integ'],
    }


def prepare(ctx, case):
    """Common front half of both checks: bookkeeping, domain validation, reference, labels,
    reference cross-check, call of the code under test.  Returns (segs, out) or None."""
    ctx.case(case)
    validate(case)
    segs = build_reference(case)
    if classify(ctx, case, segs):
        ctx.sample(compact(case))
    if maybe_brute(case, segs):
        ctx.extra['reference_bruteforce_checked_cases'] = ctx.extra.get('reference_bruteforce_checked_cases', 0) + 1
    try:
        out = call_gridder(case)
    except core.PASS_THROUGH:
        raise
    except InputMutated as e:
        fail(ctx, 'inputs.mutated', 'mismatch', 'Gridder.grid_trajectory', case_disc(segs),
             f'grid_trajectory modified its input array {e} in place (gridding or summing the same trajectory again gives other totals)')
        return None
    except Exception as e:  # noqa: BLE001
        fail_exc(ctx, 'call', e, case_disc(segs))
        return None
    return segs, out
