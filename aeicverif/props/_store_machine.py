"""Rule-based state machine over one trajectory store file (C07, C08, C10a).

Reference model: a Python list of trajectory descriptions (insertion order)
and a dict flight-id -> position.  Every rule logs itself (replayable)."""

from __future__ import annotations

import os

import numpy as np
from hypothesis import strategies as st
from hypothesis.stateful import invariant, precondition, rule

from .. import core
from . import _store_common as sc

LoggedMachine = core.logged_machine_base()

# A field set whose *estimated* size (FieldMetadata.nbytes counts all 16
# species) is large while the real data is small: 4 TSP fields + 1 TS field.
BULK = {
    'fields': [
        {'dims': 'TSP', 'type': 'f8', 'required': True},
        {'dims': 'TSP', 'type': 'f8', 'required': True},
        {'dims': 'TSP', 'type': 'f8', 'required': True},
        {'dims': 'TSP', 'type': 'f8', 'required': True},
        {'dims': 'TS', 'type': 'f8', 'required': True},
        {'dims': 'T', 'type': 'i4', 'required': False},
    ],
    'tag': 77,
}
OTHER = {'fields': [{'dims': 'TP', 'type': 'f4', 'required': True}], 'tag': 78}
# an additional field set with one required per-trajectory scalar (no default), values derived from the trajectory seed
REQ = {'fields': [{'dims': 'T', 'type': 'f8', 'required': True}], 'tag': 79, 'auto': True}
# The order of a trajectory's fields follows the iteration order of a *set* of field-set names (string hashes;
# PYTHONHASHSEED=0 here).  Of these two variants the first sorts before the base field set, the second after it, so that
# an unset required value is met both before and after the unset optional base fields (name, flight_id).
REQ2 = {'fields': [{'dims': 'T', 'type': 'f8', 'required': True}], 'tag': 83, 'auto': True}
REQS = [REQ, REQ2]
FILE_SPECIES = ['CO2', 'H2O']


def _bulk_values(draw_seed: int, species):
    return [
        {'sseed': {s: draw_seed + k for s in species}} for k in range(4)
    ] + [{'s': {s: float(draw_seed % 997) + 0.5 for s in species}}, {'v': draw_seed % 1000}]


@st.composite
def desc_strategy(draw, with_bulk: bool):
    bulky = with_bulk and draw(st.integers(0, 2)) > 0
    n = draw(st.integers(400, 600)) if bulky else draw(st.integers(1, 70))
    d = {
        'n': n,
        'seed': draw(st.integers(0, 2**31)),
        'name': draw(st.one_of(st.none(), st.sampled_from(['a', 'bb', 'traj']))),
        'flight_id': None,
        'extras': {},
    }
    if with_bulk:
        sp = FILE_SPECIES if draw(st.booleans()) else FILE_SPECIES[:1]
        d['extras'][sc.fs_name(BULK)] = _bulk_values(draw(st.integers(0, 2**30)), sp)
    return d


INVALID_KINDS = ['required_none', 'missing_fieldset', 'extra_fieldset', 'id_mismatch', 'species_outside']


class StoreMachine(LoggedMachine):
    # knobs set by subclasses
    ENABLE_LOOKUP = False
    ENABLE_FAULTS = False
    ENABLE_MERGE = False
    ENABLE_BLOCKED_FIRST = False  # a refused first addition (file name taken) followed by continued use
    ALWAYS_IDENTIFIED = False

    def __init__(self):
        super().__init__()
        from AEIC.trajectories import TrajectoryStore

        sc.register_fieldset(BULK)
        sc.register_fieldset(OTHER)
        sc.register_fieldset(REQ)
        sc.register_fieldset(REQ2)
        TrajectoryStore.active_in_thread = None
        self.TS = TrajectoryStore
        self.dir = self.ctx.fresh_dir()
        self.path = self.dir / 'store.nc'
        self.store = None
        self.mode = None  # 'w', 'a', 'r', 'mem'
        self.model: list[dict] = []
        self.ids: dict[int, int] = {}
        self.identified = None
        self.with_bulk = None
        self.with_req = False
        self.session_start = 0
        self.cache_mb = None
        self.finished = False
        self.flags: set[str] = set()
        self.nsteps = 0
        self.reopens = 0
        self.rejected_then_added = 0  # 0 none, 1 rejected seen, 2 then added, 3 then reopened

    # ------------------------------------------------------------ helpers
    @property
    def fdefs(self):
        return ([BULK] if self.with_bulk else []) + ([REQS[int(self.with_req) - 1]] if self.with_req else [])

    def _unlog(self):
        if isinstance(self.log, list) and self.log:
            self.log.pop()

    def _fail(self, clause, detail, disc=''):
        self.ctx.fail(clause, 'mismatch', 'TrajectoryStore', disc, detail, self.log)

    def _close_quietly(self):
        if self.store is not None:
            try:
                self.store.close()
            except Exception:  # noqa: BLE001
                pass
            self.store = None
        self.TS.active_in_thread = None

    def teardown(self):
        try:
            self._final_scan()
        except core.AlreadyReported:
            pass
        except Exception as e:  # noqa: BLE001
            # Hypothesis cannot take a reject() during teardown (the example is already frozen)
            if type(e).__name__ != 'UnsatisfiedAssumption':
                raise
        finally:
            self._close_quietly()
            for f in self.flags:
                self.ctx.label(f)
            if self.flags & self.NONTRIVIAL_FLAGS:
                self.ctx.mark_nontrivial({'log': self.log})
            if len(self.log) >= 6 and (self.flags & self.NONTRIVIAL_FLAGS):
                self.ctx.sample([f"{s['op']}({','.join(f'{k}={str(v)[:30]}' for k, v in s['args'].items())})" for s in self.log[:25]])

    NONTRIVIAL_FLAGS = {'old_read_after_add_in_append', 'reload_after_eviction', 'two_reopens'}

    def _final_scan(self):
        """Close, reopen read-only, compare everything with the model."""
        if self.finished or self.mode == 'mem' or not self.model:
            return
        if self.store is not None:
            try:
                self.store.close()
            except core.PASS_THROUGH:
                raise
            except Exception as e:  # noqa: BLE001
                self.ctx.fail_exc('close', e, '', self.log)
                return
            self.store = None
        if not self.path.exists():
            self.ctx.fail('close.file_missing', 'mismatch', 'TrajectoryStore.close', 'final',
                          f'a file-backed store with {len(self.model)} successful additions was closed but {self.path.name} '
                          f'does not exist', self.log)
            return
        try:
            self.store = self.TS.open(base_file=self.path)
        except core.PASS_THROUGH:
            raise
        except Exception as e:  # noqa: BLE001
            self.ctx.fail_exc('final.open', e, '', self.log)
            return
        self.mode = 'r'
        self._check_len('final')
        for i in range(len(self.model)):
            self._check_item(i, 'final')
        self._check_ids('final', all_ids=True)

    def _check_len(self, stage):
        got = len(self.store)
        if got != len(self.model):
            self._fail('len', f'{stage}: len(store) = {got}, model has {len(self.model)} (mode {self.mode})', self.mode_class())

    def mode_class(self):
        return {'w': 'create', 'a': 'append', 'r': 'read', 'mem': 'memory'}.get(self.mode, 'none')

    def _check_item(self, i, stage):
        try:
            # positions computed with NumPy (argsort, arange, random draws) are integers too
            t = self.store[np.int64(i) if i % 2 else i]
        except core.PASS_THROUGH:
            raise
        except Exception as e:  # noqa: BLE001
            self.ctx.fail_exc(f'getitem.{self.mode_class()}', e, '', self.log)
            return
        diffs = sc.compare_traj(t, self.model[i], self.fdefs)
        if diffs:
            name, dims, typ, kind, detail = diffs[0]
            if kind == 'unset_not_none' and typ == 'str':
                return  # C03's recorded finding (unset string reads as ''), not an ordering problem
            # does the item equal some other model entry? (ordering defect)
            other = [j for j in range(len(self.model)) if j != i and not [
                d for d in sc.compare_traj(t, self.model[j], self.fdefs) if not (d[3] == 'unset_not_none' and d[2] == 'str')]]
            what = f'store[{i}] equals the trajectory added at position {other[0]}' if other else f'field {name}: {detail}'
            self._fail('item', f'{stage}: {what} (mode {self.mode}, session started at length {self.session_start}, len {len(self.model)})',
                       self.mode_class())

    def _check_ids(self, stage, all_ids=False):
        if not self.model:
            return
        if not self.identified:
            try:
                self.store.get_flight(1)
            except RuntimeError:
                return
            except core.PASS_THROUGH:
                raise
            except Exception as e:  # noqa: BLE001
                self.ctx.fail_exc('get_flight.unidentified', e, '', self.log)
                return
            self._fail('get_flight.unidentified', f'{stage}: get_flight on an unidentified store did not refuse')
            return
        ids = list(self.ids)
        if not all_ids:
            ids = ids[:1] + ids[-1:]
        for fid in ids:
            self._lookup(fid, stage)

    def _lookup(self, fid, stage):
        try:
            t = self.store.get_flight(fid)
        except core.PASS_THROUGH:
            raise
        except Exception as e:  # noqa: BLE001
            self.ctx.fail_exc(f'get_flight.{self.mode_class()}', e, '', self.log)
            return
        if fid in self.ids:
            if t is None:
                self._fail('get_flight.lost', f'{stage}: id {fid} (position {self.ids[fid]}) not found (mode {self.mode})', self.mode_class())
                return
            diffs = [d for d in sc.compare_traj(t, self.model[self.ids[fid]], self.fdefs)
                     if not (d[3] == 'unset_not_none' and d[2] == 'str')]
            if diffs:
                self._fail('get_flight.wrong', f'{stage}: id {fid} returned a different trajectory: {diffs[0][0]}: {diffs[0][4]} (mode {self.mode})',
                           self.mode_class())
        elif t is not None:
            self._fail('get_flight.invented', f'{stage}: id {fid} was never added but get_flight returned a trajectory')

    def _fresh_id(self, raw):
        fid = raw
        while fid in self.ids:
            fid += 1
        return fid

    # ------------------------------------------------------------ rules
    @precondition(lambda self: not self.finished and self.store is None and not self.path.exists() and not self.model)
    @rule(cache_mb=st.sampled_from([1, 1, 2, 2048]), identified=st.booleans(), with_bulk=st.booleans(),
          memory=st.booleans(), with_req=st.integers(0, 2))
    def create(self, cache_mb, identified, with_bulk, memory, with_req=False):
        self.op('create', cache_mb=cache_mb, identified=identified, with_bulk=with_bulk, memory=memory, with_req=with_req)
        self.ctx.evaluations += 1
        self.identified = True if self.ALWAYS_IDENTIFIED else identified
        self.with_bulk = with_bulk
        self.with_req = int(with_req)
        self.cache_mb = cache_mb
        self.TS.active_in_thread = None
        if memory:
            self.store = self.TS.create(cache_size_mb=cache_mb)
            self.mode = 'mem'
        else:
            self.store = self.TS.create(base_file=self.path, cache_size_mb=cache_mb)
            self.mode = 'w'
        self.session_start = 0

    @precondition(lambda self: not self.finished and self.store is not None and self.mode in ('w', 'a', 'mem'))
    @rule(data=st.data(), raw_id=st.one_of(st.integers(0, 50), st.integers(0, 2**62), st.integers(2**31 - 3, 2**31 + 3)))
    def add(self, data, raw_id, _desc=None):
        desc = _desc if _desc is not None else data.draw(desc_strategy(self.with_bulk))
        if self.identified:
            desc['flight_id'] = self._fresh_id(raw_id) if _desc is None else desc['flight_id']
        if self.with_bulk and not self.model and _desc is None:
            # the first trajectory fixes the file's species dimension: give it every species used later
            desc['extras'][sc.fs_name(BULK)] = _bulk_values(desc['seed'] % 1000, FILE_SPECIES)
        self.op('add', data=None, raw_id=raw_id, _desc=desc)
        self.ctx.evaluations += 1
        t = sc.build_traj(desc, self.fdefs)
        cache = self.store._trajectories
        would_evict = cache.currsize + t.nbytes > cache.maxsize
        try:
            idx = self.store.add(t)
        except self.TS_eviction() as e:
            if self.mode == 'mem' and would_evict:
                self.flags.add('memory_eviction_refused')
                return
            self.ctx.fail_exc('add.eviction', e, self.mode_class(), self.log)
            return
        except core.PASS_THROUGH:
            raise
        except Exception as e:  # noqa: BLE001
            self.ctx.fail_exc(f'add.{self.mode_class()}', e, '', self.log)
            return
        if self.mode == 'mem' and would_evict:
            self._fail('add.memory_overflow', 'in-memory store accepted an addition that needs an eviction')
        if idx != len(self.model):
            self._fail('add.index', f'add returned {idx}, expected {len(self.model)} (mode {self.mode})', self.mode_class())
        self.model.append(desc)
        if self.identified:
            self.ids[desc['flight_id']] = len(self.model) - 1
            if len(self.ids) >= 2:
                vals = list(self.ids)
                if vals != sorted(vals):
                    self.flags.add('ids_not_ascending')
        if self.mode == 'a':
            self.flags.add('added_in_append')
        if self.rejected_then_added == 1:
            self.rejected_then_added = 2

    @precondition(lambda self: not self.finished and self.store is not None and self.mode in ('w', 'a') and self.with_bulk)
    @rule(k=st.integers(4, 6), seed=st.integers(0, 2**20), raw_id=sc.FLIGHT_ID)
    def burst_add(self, k, seed, raw_id):
        """Several bulky additions in a row (more than a 1 MB cache holds), then a read of every index."""
        self.op('burst_add', k=k, seed=seed, raw_id=raw_id)
        for j in range(k):
            d = {'n': 450 + 10 * j, 'seed': seed + j, 'name': None, 'flight_id': None,
                 'extras': {sc.fs_name(BULK): _bulk_values(seed + j, FILE_SPECIES if not self.model else FILE_SPECIES[: 1 + (seed + j) % 2])}}
            if self.identified:
                d['flight_id'] = self._fresh_id(raw_id + 13 * j)
            self.add(None, 0, _desc=d)
            self._unlog()  # the inner add is part of this logged step
        evicted = [i for i in range(len(self.model)) if i not in self.store._trajectories]
        if any(i >= self.session_start for i in evicted):
            self.flags.add('reload_after_eviction')
        if self.mode == 'a' and any(i < self.session_start for i in range(len(self.model))) and len(self.model) > self.session_start:
            self.flags.add('old_read_after_add_in_append')
        for i in range(len(self.model)):
            self._check_item(i, 'burst')

    @precondition(lambda self: not self.finished and self.store is not None and self.mode in ('w', 'a', 'mem')
                  and self.cache_mb == 1 and self.model)
    @rule(seed=st.integers(0, 2**20), raw_id=sc.FLIGHT_ID)
    def add_oversize(self, seed, raw_id):
        """A trajectory whose estimated size exceeds the whole 1 MB cache: it is either stored (and then reads back) or
        refused with the store unchanged - never half-added."""
        self.op('add_oversize', seed=seed, raw_id=raw_id)
        self.ctx.evaluations += 1
        n = 2200 if self.with_bulk else 12000
        d = {'n': n, 'seed': seed, 'name': None, 'flight_id': None, 'extras': {}}
        if self.with_bulk:
            d['extras'][sc.fs_name(BULK)] = _bulk_values(seed, FILE_SPECIES[:1])
        if self.identified:
            d['flight_id'] = self._fresh_id(raw_id)
        t = sc.build_traj(d, self.fdefs)
        if t.nbytes <= self.store._trajectories.maxsize:
            return
        try:
            idx = self.store.add(t)
        except core.PASS_THROUGH:
            raise
        except Exception:  # noqa: BLE001  refusal: the invariant checks that nothing changed
            self.flags.add('oversize_refused')
            return
        self.flags.add('oversize_accepted')
        if idx != len(self.model):
            self._fail('add.index', f'oversize add returned {idx}, expected {len(self.model)}', self.mode_class())
        self.model.append(d)
        if self.identified:
            self.ids[d['flight_id']] = len(self.model) - 1

    @precondition(lambda self: (self.ENABLE_FAULTS or self.ENABLE_BLOCKED_FIRST) and not self.finished
                  and self.store is not None and self.mode == 'w' and not self.model and not self.path.exists())
    @rule(seed=st.integers(0, 2**20), raw_id=sc.FLIGHT_ID)
    def first_add_blocked_then_retry(self, seed, raw_id):
        """The file name is taken by something else when the first trajectory arrives: the add is refused; once the
        cause is removed the same store object accepts the trajectory as number 0 and persists it."""
        self.op('first_add_blocked_then_retry', seed=seed, raw_id=raw_id)
        self.ctx.evaluations += 1
        d = {'n': 6, 'seed': seed, 'name': None, 'flight_id': None, 'extras': {}}
        if self.with_bulk:
            d['extras'][sc.fs_name(BULK)] = _bulk_values(seed, FILE_SPECIES)
        if self.identified:
            d['flight_id'] = self._fresh_id(raw_id)
        self.path.write_text('somebody else was quicker')
        try:
            self.store.add(sc.build_traj(d, self.fdefs))
        except core.PASS_THROUGH:
            raise
        except Exception:  # noqa: BLE001  (refusal expected: the output file exists)
            pass
        else:
            self.path.unlink(missing_ok=True)
            self._fail('add.blocked_accepted', 'first add succeeded although the base file name was taken')
            return
        self.path.unlink()
        self.flags.add('first_add_blocked_then_retry')
        self.add(None, 0, _desc=d)
        self._unlog()

    def TS_eviction(self):
        from AEIC.trajectories.store import TrajectoryCache

        return TrajectoryCache.EvictionOccurred

    @precondition(lambda self: not self.finished and self.store is not None and self.mode == 'mem'
                  and 'memory_eviction_refused' in self.flags)
    @rule(n=st.integers(1, 20), seed=st.integers(0, 2**20), raw_id=sc.FLIGHT_ID)
    def add_small_after_refusal(self, n, seed, raw_id):
        """After an in-memory store refused an addition, a trajectory that still fits must get the next index."""
        self.op('add_small_after_refusal', n=n, seed=seed, raw_id=raw_id)
        d = {'n': n, 'seed': seed, 'name': None, 'flight_id': None, 'extras': {}}
        if self.with_bulk:
            d['extras'][sc.fs_name(BULK)] = _bulk_values(seed, FILE_SPECIES[:1] if self.model else FILE_SPECIES)
        if self.identified:
            d['flight_id'] = self._fresh_id(raw_id)
        self.flags.add('small_add_after_memory_refusal')
        self.add(None, 0, _desc=d)
        self._unlog()

    @precondition(lambda self: not self.finished and self.store is not None and self.model)
    @rule(k=st.integers(0, 10**6), which=st.sampled_from(['any', 'old', 'newest', 'oldest']))
    def read(self, k, which):
        self.op('read', k=k, which=which)
        self.ctx.evaluations += 1
        n = len(self.model)
        if which == 'old' and self.session_start > 0:
            i = k % self.session_start
        elif which == 'newest':
            i = n - 1
        elif which == 'oldest':
            i = 0
        else:
            i = k % n
        in_cache = i in self.store._trajectories
        if not in_cache and i >= self.session_start and self.mode in ('w', 'a'):
            self.flags.add('reload_after_eviction')
        if self.mode == 'a' and i < self.session_start and n > self.session_start:
            self.flags.add('old_read_after_add_in_append')
        self._check_item(i, 'read')

    @precondition(lambda self: not self.finished and self.store is not None)
    @rule(beyond=st.sampled_from([0, 1, 2, 50, 10**6]))
    def read_out_of_range(self, beyond):
        self.op('read_out_of_range', beyond=beyond)
        self.ctx.evaluations += 1
        i = len(self.model) + beyond
        try:
            self.store[i]
        except IndexError:
            return
        except core.PASS_THROUGH:
            raise
        except Exception as e:  # noqa: BLE001
            self.ctx.fail_exc('out_of_range', e, self.mode_class(), self.log)
            return
        self._fail('out_of_range', f'store[{i}] with len {len(self.model)} did not raise IndexError', self.mode_class())

    @precondition(lambda self: not self.finished and self.store is not None and self.model)
    @rule()
    def iterate(self):
        self.op('iterate')
        self.ctx.evaluations += 1
        try:
            items = list(self.store)
        except core.PASS_THROUGH:
            raise
        except Exception as e:  # noqa: BLE001
            self.ctx.fail_exc(f'iterate.{self.mode_class()}', e, '', self.log)
            return
        if len(items) != len(self.model):
            self._fail('iterate.len', f'iteration yielded {len(items)} items, model has {len(self.model)}', self.mode_class())
            return
        for i, t in enumerate(items):
            diffs = [d for d in sc.compare_traj(t, self.model[i], self.fdefs) if not (d[3] == 'unset_not_none' and d[2] == 'str')]
            if diffs:
                self._fail('iterate.item', f'iteration item {i}: {diffs[0][0]}: {diffs[0][4]}', self.mode_class())
                return

    @precondition(lambda self: not self.finished and self.store is not None and self.mode in ('w', 'a') and self.model)
    @rule(after=st.integers(0, 3), seed=st.integers(0, 2**20), raw_id=sc.FLIGHT_ID)
    def iterate_across_add(self, after, seed, raw_id):
        """An iteration that is under way when a trajectory is added behaves like iteration over a Python list that is
        appended to: it goes on to yield the new trajectory."""
        self.op('iterate_across_add', after=after, seed=seed, raw_id=raw_id)
        self.ctx.evaluations += 1
        it = iter(self.store)
        got = []
        try:
            for _ in range(min(after, len(self.model))):
                got.append(next(it))
            d = {'n': 4, 'seed': seed, 'name': None, 'flight_id': None, 'extras': {}}
            if self.with_bulk:
                d['extras'][sc.fs_name(BULK)] = _bulk_values(seed, FILE_SPECIES[:1])
            if self.identified:
                d['flight_id'] = self._fresh_id(raw_id)
            n_before = len(self.model)
            self.add(None, 0, _desc=d)
            self._unlog()
            if len(self.model) == n_before:
                return
            got.extend(it)
        except core.PASS_THROUGH:
            raise
        except Exception as e:  # noqa: BLE001
            self.ctx.fail_exc(f'iterate.{self.mode_class()}', e, 'across_add', self.log)
            return
        self.flags.add('iterate_across_add')
        if len(got) != len(self.model):
            self._fail('iterate.across_add', f'an iteration started before an add yielded {len(got)} trajectories, the store (and a list) has {len(self.model)}',
                       self.mode_class())

    @precondition(lambda self: not self.finished and self.store is not None and self.mode in ('w', 'a', 'mem'))
    @rule()
    def sync(self):
        self.op('sync')
        self.ctx.evaluations += 1
        try:
            self.store.sync()
        except core.PASS_THROUGH:
            raise
        except Exception as e:  # noqa: BLE001
            self.ctx.fail_exc('sync', e, self.mode_class(), self.log)

    @precondition(lambda self: not self.finished and self.store is not None)
    @rule()
    def close(self):
        self.op('close')
        self.ctx.evaluations += 1
        try:
            self.store.close()
        except core.PASS_THROUGH:
            raise
        except Exception as e:  # noqa: BLE001
            self.store = None
            self.ctx.fail_exc('close', e, self.mode_class(), self.log)
            return
        self.store = None
        if self.mode == 'mem':
            # an in-memory store that was never saved is gone
            self.model = []
            self.ids = {}
        elif self.model and not self.path.exists():
            self.ctx.fail('close.file_missing', 'mismatch', 'TrajectoryStore.close', self.mode_class(),
                          f'a file-backed store with {len(self.model)} successful additions was closed but {self.path.name} '
                          f'does not exist', self.log)
            self.model, self.ids = [], {}
        self.mode = None

    @precondition(lambda self: not self.finished and self.store is None and self.path.exists())
    @rule(append=st.booleans(), cache_mb=st.sampled_from([1, 1, 2, 2048]))
    def reopen(self, append, cache_mb):
        self.op('reopen', append=append, cache_mb=cache_mb)
        self.ctx.evaluations += 1
        self.TS.active_in_thread = None
        try:
            if append:
                self.store = self.TS.append(base_file=self.path, cache_size_mb=cache_mb)
                self.mode = 'a'
            else:
                self.store = self.TS.open(base_file=self.path, cache_size_mb=cache_mb)
                self.mode = 'r'
        except core.PASS_THROUGH:
            raise
        except Exception as e:  # noqa: BLE001
            self.ctx.fail_exc('reopen', e, 'append' if append else 'read', self.log)
            return
        self.cache_mb = cache_mb
        self.session_start = len(self.model)
        self.reopens += 1
        self.flags.add('append_session' if append else 'read_session')
        if self.reopens >= 2:
            self.flags.add('two_reopens')
        if self.rejected_then_added == 2:
            self.rejected_then_added = 3
            self.flags.add('rejected_then_added_then_reopened')

    @precondition(lambda self: self.ENABLE_FAULTS and not self.finished and self.store is None and self.path.exists()
                  and bool(self.model))
    @rule(seed=st.integers(0, 2**20), raw_id=sc.FLIGHT_ID, k=st.integers(1, 2))
    def with_block_escaping_rejection(self, seed, raw_id, k=1):
        """The documented way of using a store is a `with` block.  k successful additions in an append session, then a
        rejected one whose error leaves the block: the store is closed by the context manager; afterwards the file holds
        exactly the successful additions, retrievable by index and by flight id."""
        self.op('with_block_escaping_rejection', seed=seed, raw_id=raw_id, k=k)
        self.ctx.evaluations += 1
        self.TS.active_in_thread = None
        added = []
        escaped = False
        try:
            with self.TS.append(base_file=self.path, cache_size_mb=2048) as s:
                for j in range(k):
                    d = {'n': 4 + j, 'seed': seed + j, 'name': None, 'flight_id': None, 'extras': {}}
                    if self.with_bulk:
                        d['extras'][sc.fs_name(BULK)] = _bulk_values(seed + j, FILE_SPECIES[:1])
                    if self.identified:
                        d['flight_id'] = self._fresh_id(raw_id + 17 * j)
                    s.add(sc.build_traj(d, self.fdefs))
                    self.model.append(d)
                    if self.identified:
                        self.ids[d['flight_id']] = len(self.model) - 1
                    added.append(d)
                bad = dict(added[-1], flight_id=(self._fresh_id(raw_id + 999) if self.identified else None))
                t = sc.build_traj(bad, self.fdefs)
                t._data['starting_mass'] = None
                escaped = True
                s.add(t)  # refused: the ValueError leaves the with block
                escaped = False
        except core.PASS_THROUGH:
            raise
        except Exception as e:  # noqa: BLE001
            if not escaped:
                self.ctx.fail_exc('with_block.valid_add', e, self.mode_class(), self.log)
                return
        else:
            self._fail('add.invalid_accepted', 'invalid trajectory (required_none) was accepted inside a with block', 'required_none/with')
            return
        self.flags.add('with_block_escaping_rejection')
        self.TS.active_in_thread = None
        try:
            self.store = self.TS.open(base_file=self.path)
        except core.PASS_THROUGH:
            raise
        except Exception as e:  # noqa: BLE001
            self.ctx.fail_exc('reopen', e, 'after_with_block', self.log)
            return
        self.mode = 'r'
        self.session_start = len(self.model)
        self._check_len('after_with_block')
        for i in range(max(0, len(self.model) - k - 1), len(self.model)):
            self._check_item(i, 'after_with_block')
        if self.ENABLE_LOOKUP:
            self._check_ids('after_with_block', all_ids=True)

    @precondition(lambda self: not self.finished and self.store is not None and self.mode == 'mem' and self.model)
    @rule()
    def save(self):
        self.op('save')
        self.ctx.evaluations += 1
        try:
            self.store.save(self.path)
        except core.PASS_THROUGH:
            raise
        except Exception as e:  # noqa: BLE001
            self.ctx.fail_exc('save', e, '', self.log)
            return
        self.mode = 'w'
        self.flags.add('saved_from_memory')

    @precondition(lambda self: not self.finished and self.store is not None and self.mode == 'mem' and self.model)
    @rule()
    def save_refused(self):
        """Saving an in-memory store under a name that is taken is refused; the store stays the in-memory store it
        was (same length, same items, additions that do not fit still refused - the invariant and `add` check that)."""
        self.op('save_refused')
        self.ctx.evaluations += 1
        taken = self.path.with_name('taken_' + self.path.name)
        taken.write_text('somebody else\'s file')
        try:
            self.store.save(taken)
        except core.PASS_THROUGH:
            raise
        except Exception:  # noqa: BLE001  (the refusal)
            self.flags.add('save_refused')
            if taken.read_text() != 'somebody else\'s file':
                self._fail('save_refused.overwrote', 'a refused save changed the file that was in the way')
            return
        finally:
            if taken.is_file() and taken.stat().st_size < 64:
                taken.unlink()
        self._fail('save_refused.accepted', 'save() onto an existing file was accepted')

    @precondition(lambda self: not self.finished and self.store is not None and self.mode == 'r')
    @rule(data=st.data())
    def add_readonly(self, data, _desc=None):
        desc = _desc if _desc is not None else data.draw(desc_strategy(self.with_bulk))
        if self.identified:
            desc['flight_id'] = self._fresh_id(7)
        self.op('add_readonly', data=None, _desc=desc)
        self.ctx.evaluations += 1
        try:
            self.store.add(sc.build_traj(desc, self.fdefs))
        except core.PASS_THROUGH:
            raise
        except Exception:  # noqa: BLE001  (refusal)
            self.flags.add('add_refused_readonly')
            return
        self._fail('add.readonly_accepted', 'add on a read-only store was accepted')

    # ---- lookups (C08)
    @precondition(lambda self: self.ENABLE_LOOKUP and not self.finished and self.store is not None and self.identified and self.ids)
    @rule(k=st.integers(0, 10**6), newest=st.booleans())
    def lookup_present(self, k, newest):
        self.op('lookup_present', k=k, newest=newest)
        self.ctx.evaluations += 1
        ids = list(self.ids)
        fid = ids[-1] if newest else ids[k % len(ids)]
        if self.mode in ('w', 'a', 'mem') and getattr(self.store, 'index_stale', False):
            self.flags.add('lookup_while_stale')
        if self.mode == 'a':
            self.flags.add('lookup_in_append')
        if self.mode == 'mem':
            return self._lookup_mem(fid)
        self._lookup(fid, 'lookup_present')

    def _lookup_mem(self, fid):
        # an in-memory store has no index group yet; the property is about
        # stores, the documentation does not promise lookup before save:
        # either outcome that is not a wrong trajectory is accepted.
        try:
            t = self.store.get_flight(fid)
        except core.PASS_THROUGH:
            raise
        except Exception:  # noqa: BLE001
            return
        if t is not None:
            diffs = sc.compare_traj(t, self.model[self.ids[fid]], self.fdefs)
            diffs = [d for d in diffs if not (d[3] == 'unset_not_none' and d[2] == 'str')]
            if diffs:
                self._fail('get_flight.wrong', f'in-memory lookup of id {fid} returned a different trajectory', 'memory')

    @precondition(lambda self: self.ENABLE_LOOKUP and not self.finished and self.store is not None and self.identified
                  and self.ids and self.mode != 'mem')
    @rule(raw=st.one_of(st.integers(0, 60), st.integers(0, 2**62)), rel=st.sampled_from(['raw', 'below', 'above', 'between']))
    def lookup_absent(self, raw, rel):
        self.op('lookup_absent', raw=raw, rel=rel)
        self.ctx.evaluations += 1
        ids = sorted(self.ids)
        if rel == 'below':
            fid = ids[0] - 1
        elif rel == 'above':
            fid = ids[-1] + 1
        elif rel == 'between' and len(ids) >= 2:
            fid = (ids[0] + ids[-1]) // 2
        else:
            fid = raw
        while fid in self.ids:
            fid += 1
        if fid < 0:
            return
        self.flags.add('lookup_absent')
        self._lookup(fid, 'lookup_absent')

    # ---- rejected additions (C10a)
    @precondition(lambda self: self.ENABLE_FAULTS and not self.finished and self.store is not None and self.mode in ('w', 'a', 'mem'))
    @rule(data=st.data(), kind=st.sampled_from(INVALID_KINDS), flip_id=st.booleans())
    def add_invalid(self, data, kind, _desc=None, flip_id=False):
        desc = _desc if _desc is not None else data.draw(desc_strategy(self.with_bulk))
        if self.identified:
            desc['flight_id'] = self._fresh_id(11)
        # applicability
        if kind == 'id_mismatch' and not self.model:
            kind = 'required_none'
        if kind == 'species_outside' and (not self.with_bulk or not self.model or self.mode == 'mem'):
            kind = 'required_none'
        self.op('add_invalid', data=None, kind=kind, _desc=desc, flip_id=flip_id)
        self.ctx.evaluations += 1
        if flip_id and not self.model and kind == 'required_none':
            # nothing was ever added: a rejected first trajectory may use flight ids either way; whether the
            # store is identified is decided by the first *successful* addition
            desc = dict(desc, flight_id=(None if desc['flight_id'] is not None else 31337))
            self.flags.add('rejected_first_add_other_id_kind')
        fdefs = self.fdefs
        if kind == 'missing_fieldset':
            if self.with_bulk:
                fdefs = []
                desc = dict(desc, extras={})
            else:
                kind = 'extra_fieldset'
        if kind == 'extra_fieldset':
            fdefs = self.fdefs + [OTHER]
            desc = dict(desc, extras=dict(desc['extras'], **{sc.fs_name(OTHER): [{'seed': 5}]}))
        if kind == 'id_mismatch':
            desc = dict(desc, flight_id=(None if self.identified else 123456))
        if kind == 'species_outside':
            vals = [dict(v) for v in desc['extras'][sc.fs_name(BULK)]]
            vals[0] = {'sseed': dict(vals[0]['sseed'], NOx=99)}
            desc = dict(desc, extras={sc.fs_name(BULK): vals})
        late = kind == 'required_none' and desc['seed'] % 2 == 0 and (
            self.with_req or (self.with_bulk and sc.fs_name(BULK) in desc['extras']))
        if late:
            # the missing required value sits in the additional field set, behind unset optional base fields (no name)
            desc = dict(desc, name=None)
        t = sc.build_traj(desc, fdefs)
        if kind == 'required_none':
            # what a never-assigned required value holds
            t._data[(sc.field_names(REQS[self.with_req - 1])[0] if self.with_req else sc.field_names(BULK)[4]) if late else 'starting_mass'] = None
            if late:
                self.flags.add('rejected_required_none_in_additional_fieldset')
        if kind in ('missing_fieldset', 'extra_fieldset') and not self.model and self.mode != 'a':
            # the first trajectory of a new store defines the schema: it is valid
            self._unlog()
            self.ctx.evaluations -= 1
            return
        first = not self.model
        try:
            self.store.add(t)
        except core.PASS_THROUGH:
            raise
        except Exception:  # noqa: BLE001  (the refusal)
            self.flags.add(f'rejected_{kind}')
            self.flags.add('rejected_first_add' if first else 'rejected_later_add')
            if self.mode == 'a':
                self.flags.add('rejected_in_append')
            if self.rejected_then_added == 0:
                self.rejected_then_added = 1
            # a rejected addition leaves the store exactly as it was - checked here and now, because the next
            # successful addition may paper over a half-written record
            got = len(self.store)
            if got != len(self.model):
                self._fail('rejected.len_changed', f'rejected addition ({kind}) changed len(store) from {len(self.model)} to {got} '
                           f'(mode {self.mode})', f'{kind}/{self.mode_class()}')
            if self.model:
                self._check_item(len(self.model) - 1, 'after_rejection')
            return
        self._fail('add.invalid_accepted', f'invalid trajectory ({kind}) was accepted (mode {self.mode})', f'{kind}/{self.mode_class()}')
        # keep the model consistent with what the store did so later steps stay meaningful
        self.model.append(desc)

    # ---- "all or none" across merged inputs (C08)
    @precondition(lambda self: self.ENABLE_MERGE and not self.finished and self.store is None and self.path.exists()
                  and self.model)
    @rule(other_first=st.booleans(), n=st.integers(1, 3))
    def merge_mixed_refused(self, other_first, n):
        """Merging this store with one of the opposite kind (identified vs not) must be refused and move nothing."""
        self.op('merge_mixed_refused', other_first=other_first, n=n)
        self.ctx.evaluations += 1
        self.TS.active_in_thread = None
        k = sum(1 for s in self.log if s['op'] == 'merge_mixed_refused') if isinstance(self.log, list) else 0
        p = self.dir / f'mixed{k}_{int(other_first)}.nc'
        out = self.dir / f'mixed{k}_{int(other_first)}.aeic-store'
        if p.exists() or out.exists():
            return
        with self.TS.create(base_file=p) as s:
            for j in range(n):
                d = {'n': 2 + j, 'seed': 77 + j, 'name': None, 'flight_id': (None if self.identified else 900000 + j), 'extras': {}}
                if self.with_bulk:
                    d['extras'][sc.fs_name(BULK)] = _bulk_values(j, FILE_SPECIES[:1])
                s.add(sc.build_traj(d, self.fdefs))
        inputs = [p, self.path] if other_first else [self.path, p]
        try:
            self.TS.merge(output_store=out, input_stores=inputs)
        except core.PASS_THROUGH:
            raise
        except Exception:  # noqa: BLE001  (the refusal)
            self.flags.add('mixed_merge_refused')
            if not self.path.exists() or not p.exists():
                self._fail('merge_mixed.moved', 'a refused merge of identified and unidentified stores moved an input file')
            return
        self._fail('merge_mixed.accepted', f'merge of an identified with an unidentified store was accepted (unidentified first: {other_first == self.identified})',
                   'other_first' if other_first else 'other_last')
        self.finished = True

    # ---- terminal merge with lookups (C08)
    @precondition(lambda self: self.ENABLE_MERGE and not self.finished and self.store is None and self.path.exists()
                  and self.identified and self.model)
    @rule(extra_sizes=st.lists(st.integers(1, 3), min_size=1, max_size=2), first=st.booleans(), big=st.booleans())
    def merge_and_lookup(self, extra_sizes, first, big=False):
        self.op('merge_and_lookup', extra_sizes=extra_sizes, first=first, big=big)
        self.ctx.evaluations += 1
        self.TS.active_in_thread = None
        parts = []
        fid = max(self.ids) + 1000 if first else 0
        if big:
            # identifiers that neither 32 bits nor a float64 hold exactly
            fid = max(max(self.ids), 2**53) + 1001
        for k, size in enumerate(extra_sizes):
            p = self.dir / f'extra{k}.nc'
            descs = []
            with self.TS.create(base_file=p) as s:
                for j in range(size):
                    while fid in self.ids or any(fid == d['flight_id'] for ds in parts for d in ds[1]) or any(fid == d['flight_id'] for d in descs):
                        fid += 1
                    d = {'n': 3 + j, 'seed': 1000 * k + j, 'name': None, 'flight_id': fid, 'extras': {}}
                    if self.with_bulk:
                        d['extras'][sc.fs_name(BULK)] = _bulk_values(k * 10 + j, FILE_SPECIES[:1])
                    s.add(sc.build_traj(d, self.fdefs))
                    descs.append(d)
                    fid += 7 if first else -3 if fid > 3 else 5
            parts.append((p, descs))
        order = [(self.path, list(self.model))] + parts if first else parts + [(self.path, list(self.model))]
        out = self.dir / 'merged.aeic-store'
        try:
            self.TS.merge(output_store=out, input_stores=[p for p, _ in order])
            self.store = self.TS.open(base_file=out)
        except core.PASS_THROUGH:
            raise
        except Exception as e:  # noqa: BLE001
            self.ctx.fail_exc('merge', e, '', self.log)
            self.finished = True
            return
        self.mode = 'r'
        self.model = [d for _, ds in order for d in ds]
        self.ids = {d['flight_id']: i for i, d in enumerate(self.model)}
        self.flags.add('merged_lookup')
        self._check_len('merged')
        self._check_ids('merged', all_ids=True)
        self._lookup(max(self.ids) + 1, 'merged_absent')
        self._close_quietly()
        self.finished = True

    @precondition(lambda self: self.finished or (self.store is None and self.path.exists() is False and bool(self.model)))
    @rule()
    def idle(self):
        """Keeps Hypothesis going once a history has ended (terminal merge)."""

    # ------------------------------------------------------------ invariant
    @invariant()
    def inv(self):
        if self.finished or self.store is None:
            return
        self.nsteps += 1
        self._check_len('invariant')
        n = len(self.model)
        if n:
            for i in {0, n - 1, (self.nsteps * 7) % n}:
                self._check_item(i, 'invariant')


# ----------------------------------------------------------------------------
# structured histories ("plans"): sessions of targeted operations, executed
# through the same machine methods (so the oracle and the replay format are
# shared).  Built so that the risk classes occur by construction: several
# bulky additions under a 1 MB cache, append sessions that read old and new
# indices, repeated reopening, refusals followed by additions.


FLIGHT_ID_SMALL_OR_BIG = st.one_of(st.integers(0, 40), sc.FLIGHT_ID)


@st.composite
def plan_strategy(draw, lookups=False, faults=False):
    template = draw(st.sampled_from(['free', 'free', 'free', 'mem_overflow', 'append_evict'] + (['append_first_invalid'] if faults else [])))
    if template == 'append_first_invalid':
        # the very first operation of an append session (nothing read, nothing cached yet) is an addition that has to be
        # refused; then ordinary use
        def small():
            return {'op': 'add_small', 'n': draw(st.integers(1, 20)), 'seed': draw(st.integers(0, 2**20)), 'raw_id': draw(FLIGHT_ID_SMALL_OR_BIG)}
        inv = {'op': 'add_invalid', 'kind': draw(st.sampled_from(INVALID_KINDS)), 'n': draw(st.integers(1, 30)), 'seed': draw(st.integers(0, 2**20))}
        s0 = {'mode': 'w', 'cache': draw(st.sampled_from([1, 2048])), 'ops': [small() for _ in range(draw(st.integers(1, 3)))]}
        s1 = {'mode': 'a', 'cache': draw(st.sampled_from([1, 2048])), 'ops': [inv, small(), {'op': 'read_all', 'order': 'forward'}]}
        if lookups:
            s1['ops'].append({'op': 'lookup_all'})
        s2 = {'mode': 'r', 'cache': 1, 'ops': [{'op': 'read_all', 'order': 'backward'}] + ([{'op': 'lookup_all'}] if lookups else [])}
        if draw(st.booleans()):
            s1['ops'].append({'op': 'with_escape', 'seed': draw(st.integers(0, 2**20)), 'raw_id': draw(FLIGHT_ID_SMALL_OR_BIG), 'k': draw(st.integers(1, 2))})
        return {'plan': True, 'with_bulk': draw(st.booleans()), 'identified': draw(st.booleans()), 'with_req': draw(st.integers(0, 2)),
                'sessions': [s0, s1, s2]}
    if template == 'mem_overflow':
        # an in-memory store that has to refuse bulky additions, then accepts small ones
        ops = [{'op': 'burst', 'k': draw(st.integers(3, 5)), 'seed': draw(st.integers(0, 2**20)), 'raw_id': draw(sc.FLIGHT_ID)},
               {'op': 'add_small', 'n': draw(st.integers(1, 20)), 'seed': draw(st.integers(0, 2**20)), 'raw_id': draw(sc.FLIGHT_ID)},
               {'op': 'read_all', 'order': 'forward'}, {'op': 'iterate'}, {'op': 'sync'}, {'op': 'read_all', 'order': 'backward'},
               {'op': 'burst', 'k': 2, 'seed': draw(st.integers(0, 2**20)), 'raw_id': draw(sc.FLIGHT_ID)},
               {'op': 'add_small', 'n': draw(st.integers(1, 20)), 'seed': draw(st.integers(0, 2**20)), 'raw_id': draw(sc.FLIGHT_ID)},
               {'op': 'read_all', 'order': 'backward'}, {'op': 'oob'}]
        if lookups:
            ops.append({'op': 'lookup_all'})
        # a refused save before the second burst: the store must still be an in-memory store that refuses what does
        # not fit (the first burst sees the untouched store)
        ops.insert(6, {'op': 'save_refused'})
        return {'plan': True, 'with_bulk': True, 'identified': draw(st.booleans()),
                'sessions': [{'mode': 'mem', 'cache': 1, 'ops': ops}]}
    if template == 'append_evict':
        # an append session that adds more bulky trajectories than a 1 MB cache holds and reads old and new indices
        def burst(lo, hi):
            return {'op': 'burst', 'k': draw(st.integers(lo, hi)), 'seed': draw(st.integers(0, 2**20)), 'raw_id': draw(sc.FLIGHT_ID)}
        s0 = {'mode': 'w', 'cache': draw(st.sampled_from([1, 2048])), 'ops': [burst(2, 3)]}
        s1 = {'mode': 'a', 'cache': 1, 'ops': [burst(4, 5), {'op': 'read_all', 'order': draw(st.sampled_from(['forward', 'backward', 'new_first']))},
                                               {'op': 'sync'}, {'op': 'read_all', 'order': 'new_first'}, {'op': 'iterate'}, {'op': 'oob'}]}
        s2 = {'mode': 'a', 'cache': 1, 'ops': [{'op': 'add_small', 'n': 7, 'seed': draw(st.integers(0, 2**20)), 'raw_id': draw(sc.FLIGHT_ID)},
                                               {'op': 'read_all', 'order': 'backward'}]}
        if lookups:
            s1['ops'].append({'op': 'lookup_all'})
            s2['ops'].append({'op': 'lookup_all'})
        return {'plan': True, 'with_bulk': True, 'identified': draw(st.booleans()),
                'sessions': [s0, s1, s2, {'mode': 'r', 'cache': 1, 'ops': [{'op': 'read_all', 'order': 'forward'}]}]}
    if lookups and draw(st.integers(0, 4)) == 0:
        # lookups interleaved with additions and explicit syncs, in a create and an append session
        def small():
            return {'op': 'add_small', 'n': draw(st.integers(1, 20)), 'seed': draw(st.integers(0, 2**20)),
                    'raw_id': draw(st.one_of(st.integers(0, 40), st.integers(0, 2**62)))}
        def seq():
            out = [small() for _ in range(draw(st.integers(1, 3)))]
            out += [{'op': 'lookup_all'}, small(), {'op': draw(st.sampled_from(['sync', 'sync', 'iterate']))}, {'op': 'lookup_all'},
                    small(), {'op': 'lookup_all'}, {'op': 'lookup_absent', 'raw': draw(st.integers(0, 2**62)), 'rel': 'between'}]
            return out
        return {'plan': True, 'with_bulk': draw(st.booleans()), 'identified': True,
                'sessions': [{'mode': 'w', 'cache': draw(st.sampled_from([1, 2048])), 'ops': seq()},
                             {'mode': 'a', 'cache': draw(st.sampled_from([1, 2048])), 'ops': seq()},
                             {'mode': 'r', 'cache': 1, 'ops': [{'op': 'lookup_all'}]}]}
    memory_first = draw(st.integers(0, 4)) == 0
    sessions = []
    nsess = draw(st.integers(2, 4))
    for k in range(nsess):
        if k == 0:
            mode = 'mem' if memory_first else 'w'
        else:
            mode = draw(st.sampled_from(['a', 'a', 'r']))
        ops = []
        nops = draw(st.integers(1, 6))
        for _ in range(nops):
            choices = ['read_all', 'read_old', 'iterate', 'oob']
            if mode != 'r':
                choices += ['burst', 'burst', 'add_small', 'add_small', 'sync', 'oversize']
                if faults:
                    choices += ['add_invalid', 'add_invalid']
            else:
                choices += ['add_readonly']
            if lookups:
                choices += ['lookup_all', 'lookup_absent']
            kind = draw(st.sampled_from(choices))
            op = {'op': kind}
            if kind == 'burst':
                op.update(k=draw(st.integers(2, 5)), seed=draw(st.integers(0, 2**20)), raw_id=draw(sc.FLIGHT_ID))
            elif kind == 'oversize':
                op.update(seed=draw(st.integers(0, 2**20)), raw_id=draw(sc.FLIGHT_ID))
            elif kind == 'add_small':
                op.update(n=draw(st.integers(1, 60)), seed=draw(st.integers(0, 2**20)), raw_id=draw(st.one_of(st.integers(0, 40), st.integers(0, 2**62))))
            elif kind == 'read_all':
                op.update(order=draw(st.sampled_from(['forward', 'backward', 'new_first'])))
            elif kind == 'add_invalid':
                op.update(kind=draw(st.sampled_from(INVALID_KINDS)), n=draw(st.integers(1, 30)), seed=draw(st.integers(0, 2**20)))
            elif kind == 'lookup_absent':
                op.update(raw=draw(st.integers(0, 2**62)), rel=draw(st.sampled_from(['raw', 'below', 'above', 'between'])))
            ops.append(op)
        if mode in ('w', 'mem') and not any(o['op'] in ('burst', 'add_small') for o in ops):
            ops.insert(0, {'op': 'add_small', 'n': 5, 'seed': 1, 'raw_id': 3})
        sess = {'mode': mode, 'cache': draw(st.sampled_from([1, 1, 1, 2, 2048])), 'ops': ops}
        if mode == 'w' and draw(st.integers(0, 2)) == 0:
            # the very first addition is refused (file name taken), the cause is removed, the store is used on
            sess['blocked_first'] = {'seed': draw(st.integers(0, 2**20)), 'raw_id': draw(sc.FLIGHT_ID)}
        sessions.append(sess)
    return {'plan': True, 'with_bulk': draw(st.integers(0, 3)) > 0, 'identified': draw(st.booleans()), 'with_req': draw(st.integers(0, 2)),
            'sessions': sessions}


def run_plan(machine_cls, ctx: core.Ctx, plan: dict):
    machine_cls.ctx = ctx
    m = machine_cls()
    m.log = plan  # the replay case of a plan is the plan itself
    m.op = lambda *a, **k: None
    ctx.current_case = plan
    try:
        for k, sess in enumerate(plan['sessions']):
            if k == 0:
                StoreMachine.create(m, sess['cache'], plan['identified'], plan['with_bulk'], sess['mode'] == 'mem',
                                    int(plan.get('with_req') or 0))
            else:
                if m.store is not None:
                    StoreMachine.close(m)
                if m.mode == 'mem' or not m.path.exists():
                    break
                if m.store is None and m.path.exists():
                    StoreMachine.reopen(m, sess['mode'] == 'a', sess['cache'])
            if m.store is None:
                break
            bf = sess.get('blocked_first')
            if bf and (m.ENABLE_FAULTS or m.ENABLE_BLOCKED_FIRST) and m.mode == 'w' and not m.model and not m.path.exists():
                StoreMachine.first_add_blocked_then_retry(m, bf['seed'], bf['raw_id'])
            for op in sess['ops']:
                kind = op['op']
                if kind == 'burst' and m.mode in ('w', 'a') and m.with_bulk:
                    StoreMachine.burst_add(m, op['k'], op['seed'], op['raw_id'])
                elif kind == 'burst' and m.mode == 'mem' and m.with_bulk:
                    for j in range(op['k']):
                        d = {'n': 480 + j, 'seed': op['seed'] + j, 'name': None, 'flight_id': None,
                             'extras': {sc.fs_name(BULK): _bulk_values(op['seed'] + j, FILE_SPECIES)}}
                        if m.identified:
                            d['flight_id'] = m._fresh_id(op['raw_id'] + j)
                        StoreMachine.add(m, None, 0, _desc=d)
                elif kind in ('burst', 'add_small') and m.mode in ('w', 'a', 'mem'):
                    n = op.get('n', 30)
                    if m.mode == 'mem' and 'memory_eviction_refused' in m.flags:
                        m.flags.add('small_add_after_memory_refusal')
                    d = {'n': n, 'seed': op['seed'], 'name': None, 'flight_id': None, 'extras': {}}
                    if m.with_bulk:
                        d['extras'][sc.fs_name(BULK)] = _bulk_values(op['seed'], FILE_SPECIES if not m.model else FILE_SPECIES[: 1 + op['seed'] % 2])
                    if m.identified:
                        d['flight_id'] = m._fresh_id(op['raw_id'])
                    StoreMachine.add(m, None, 0, _desc=d)
                elif kind == 'oversize' and m.mode in ('w', 'a', 'mem') and m.cache_mb == 1 and m.model:
                    StoreMachine.add_oversize(m, op['seed'], op['raw_id'])
                elif kind == 'read_all' and m.model:
                    n = len(m.model)
                    idx = list(range(n))
                    if op['order'] == 'backward':
                        idx = idx[::-1]
                    elif op['order'] == 'new_first':
                        idx = idx[m.session_start:] + idx[: m.session_start]
                    for i in idx:
                        if i not in m.store._trajectories and i >= m.session_start and m.mode in ('w', 'a'):
                            m.flags.add('reload_after_eviction')
                        if m.mode == 'a' and i < m.session_start and n > m.session_start:
                            m.flags.add('old_read_after_add_in_append')
                        m._check_item(i, 'read_all')
                elif kind == 'read_old' and m.model:
                    StoreMachine.read(m, 0, 'old')
                elif kind == 'iterate' and m.model:
                    StoreMachine.iterate(m)
                elif kind == 'oob':
                    StoreMachine.read_out_of_range(m, 0)
                    StoreMachine.read_out_of_range(m, 3)
                elif kind == 'sync' and m.mode in ('w', 'a', 'mem'):
                    StoreMachine.sync(m)
                elif kind == 'save_refused' and m.mode == 'mem' and m.model:
                    StoreMachine.save_refused(m)
                elif kind == 'add_readonly' and m.mode == 'r':
                    StoreMachine.add_readonly(m, None, _desc={'n': 3, 'seed': 9, 'name': None, 'flight_id': None, 'extras': (
                        {sc.fs_name(BULK): _bulk_values(9, FILE_SPECIES[:1])} if m.with_bulk else {})})
                elif kind == 'add_invalid' and m.mode in ('w', 'a', 'mem'):
                    d = {'n': op['n'], 'seed': op['seed'], 'name': None, 'flight_id': None, 'extras': (
                        {sc.fs_name(BULK): _bulk_values(op['seed'], FILE_SPECIES[:1])} if m.with_bulk else {})}
                    StoreMachine.add_invalid(m, None, op['kind'], _desc=d, flip_id=bool(op['seed'] % 2))
                elif kind == 'lookup_all' and m.identified and m.ids and m.mode != 'mem':
                    if getattr(m.store, 'index_stale', False):
                        m.flags.add('lookup_while_stale')
                    if m.mode == 'a':
                        m.flags.add('lookup_in_append')
                    for fid in list(m.ids):
                        m._lookup(fid, 'lookup_all')
                elif kind == 'lookup_absent' and m.identified and m.ids and m.mode != 'mem':
                    StoreMachine.lookup_absent(m, op['raw'], op['rel'])
                elif kind == 'with_escape' and m.ENABLE_FAULTS and m.model and m.mode in ('w', 'a') and m.path.exists():
                    StoreMachine.close(m)
                    StoreMachine.with_block_escaping_rejection(m, op['seed'], op['raw_id'], op.get('k', 1))
                m.log = plan
                if m.store is not None:
                    m.inv()
        ctx.evaluations += 1
    finally:
        m.log = plan
        m.teardown()


def replay_any(machine_cls, ctx: core.Ctx, case):
    if isinstance(case, dict) and case.get('plan'):
        run_plan(machine_cls, ctx, case)
    else:
        core.replay_machine(machine_cls, ctx, case)
