"""C10 — rejected or interrupted store operations lose and corrupt nothing.

(a) rejected additions: the shared store state machine with fault rules;
(b) refused / interrupted merges: for every generated merge scenario the
    sequence of file-system effects of a clean merge is recorded and the merge
    is replayed once per (step, before|after) with an injected OSError — every
    crash point of the scenario — plus one refusal per validation rule."""

from __future__ import annotations

import builtins
import shutil
from pathlib import Path

from hypothesis import strategies as st

from .. import core
from . import _store_common as sc
from . import c09
from ._store_machine import BULK, OTHER, StoreMachine, plan_strategy, replay_any, run_plan

SHARDED = True


class C10Machine(StoreMachine):
    ENABLE_FAULTS = True
    ENABLE_LOOKUP = True
    NONTRIVIAL_FLAGS = {'rejected_then_added_then_reopened', 'rejected_in_append', 'rejected_first_add'}


# ----------------------------------------------------------------------------
# fault injection into AEIC.trajectories.store (module attributes only)


class Injected(OSError):
    pass


class _Proxy:
    def __init__(self, real, overrides):
        self._real = real
        self._over = overrides

    def __getattr__(self, name):
        if name in self._over:
            return self._over[name]
        return getattr(self._real, name)


class FaultPlan:
    """Counts file-system effects of TrajectoryStore.merge; raises Injected
    before or after effect number `at` (None = record only)."""

    def __init__(self, at=None, mode='before'):
        self.at = at
        self.mode = mode
        self.events: list[str] = []

    def step(self, label, do):
        k = len(self.events)
        self.events.append(label)
        if self.at == k and self.mode == 'before':
            raise Injected(f'injected before {label}')
        r = do()
        if self.at == k and self.mode == 'after':
            raise Injected(f'injected after {label}')
        return r


class inject:
    def __init__(self, plan: FaultPlan):
        self.plan = plan

    def __enter__(self):
        import AEIC.trajectories.store as store

        self.store = store
        self.saved = {k: store.__dict__.get(k, None) for k in ('os', 'json', 'nc4', 'open')}
        plan = self.plan
        real_os, real_json, real_nc4 = store.os, store.json, store.nc4

        def mkdir(p, *a, **k):
            return plan.step(f'mkdir {Path(p).name}', lambda: real_os.mkdir(p, *a, **k))

        def rename(a, b):
            return plan.step(f'rename {Path(a).name}', lambda: real_os.rename(a, b))

        def dump(obj, fp, *a, **k):
            return plan.step('json.dump metadata', lambda: real_json.dump(obj, fp, *a, **k))

        def dataset(path, mode='r', *a, **k):
            if mode == 'w' and Path(path).name == '_index.nc':
                ds = plan.step('create _index.nc', lambda: real_nc4.Dataset(path, mode, *a, **k))
                return _DatasetProxy(ds, plan)
            return real_nc4.Dataset(path, mode, *a, **k)

        def open_(path, mode='r', *a, **k):
            if 'w' in mode and Path(path).name == 'metadata.json':
                return plan.step('open metadata.json', lambda: builtins.open(path, mode, *a, **k))
            return builtins.open(path, mode, *a, **k)

        store.os = _Proxy(real_os, {'mkdir': mkdir, 'rename': rename})
        store.json = _Proxy(real_json, {'dump': dump})
        store.nc4 = _Proxy(real_nc4, {'Dataset': dataset})
        store.open = open_
        return self

    def __exit__(self, *exc):
        for k, v in self.saved.items():
            if v is None:
                self.store.__dict__.pop(k, None)
            else:
                setattr(self.store, k, v)
        return False


class _DatasetProxy:
    """Forwards to the real Dataset; closing it is a file-system effect."""

    def __init__(self, ds, plan):
        object.__setattr__(self, '_ds', ds)
        object.__setattr__(self, '_plan', plan)

    def __getattr__(self, name):
        if name == 'close':
            return lambda: self._plan.step('close _index.nc', self._ds.close)
        return getattr(self._ds, name)

    def __setattr__(self, name, value):
        setattr(self._ds, name, value)


# ----------------------------------------------------------------------------
# merge scenarios

REFUSALS = [
    'both_list_and_pattern', 'pattern_without_range', 'missing_input', 'input_not_nc', 'bad_output_suffix',
    'output_exists', 'fieldset_mismatch', 'identified_mix', 'fieldset_mismatch_first', 'identified_mix_first',
]


@st.composite
def scenario(draw):
    base = draw(c09.case_strategy())
    base['negative'] = None
    base['spread'] = False  # the crash-point scenarios copy one flat template directory
    base['inputs'] = base['inputs'][:4]
    if base['naming'] != 'explicit':
        pass
    return {'merge': base, 'refusals': list(REFUSALS)}


def _template(ctx, mc, TS):
    d = ctx.fresh_dir()
    t = d / 'template'
    t.mkdir()
    bases, _ = c09._make_inputs(dict(mc, spread=False), t, TS)
    return d, t, [p.name for p in bases]


def _merge_kwargs(mc, work: Path, names):
    if mc['naming'] == 'explicit':
        return {'input_stores': [work / n for n in names]}
    fmt = 'p_{index}.nc' if mc['naming'] == 'pattern' else 'p_{index:03d}.nc'
    return {'input_stores_pattern': work / fmt, 'input_stores_index_range': (mc['first'], mc['first'] + len(names) - 1)}


def _clean(x):
    return [d for d in x if not (d[3] == 'unset_not_none' and d[2] == 'str')]


class _Oracle:
    def __init__(self, ctx, case, mc, names, TS):
        self.ctx, self.case, self.mc, self.names, self.TS = ctx, case, mc, names, TS
        self.fdefs = [] if mc['layout'] == 'base' else [BULK]
        self.model = [t for inp in mc['inputs'] for t in inp['trajs']]

    def fail(self, clause, disc, detail):
        self.ctx.fail(clause, 'mismatch', 'TrajectoryStore.merge', disc, detail, self.case)

    def inputs_readable(self, work: Path, out: Path, stage: str, disc: str):
        """(i) every input trajectory readable from its original path or <out>/<name>."""
        for inp, name in zip(self.mc['inputs'], self.names):
            places = [p for p in (work / name, out / name) if p.exists()]
            if not places:
                self.fail('inputs.lost', disc, f'{stage}: input {name} exists neither at its original path nor in the output directory')
                continue
            assoc = None
            if self.mc['layout'] == 'assoc':
                assoc = [work / f'A_{name}']
            try:
                self.TS.active_in_thread = None
                with self.TS.open(base_file=places[0], associated_files=assoc) as s:
                    if len(s) != len(inp['trajs']):
                        self.fail('inputs.damaged', disc, f'{stage}: input {name} has {len(s)} trajectories, expected {len(inp["trajs"])}')
                    for i, desc in enumerate(inp['trajs']):
                        diffs = _clean(sc.compare_traj(s[i], desc, self.fdefs))
                        if diffs:
                            self.fail('inputs.damaged', disc, f'{stage}: input {name}[{i}] differs: {diffs[0][0]}: {diffs[0][4]}')
            except core.PASS_THROUGH:
                raise
            except Exception as e:  # noqa: BLE001
                self.fail('inputs.unreadable', disc, f'{stage}: input {name} at {places[0].parent.name}/ cannot be read: {e!r}')

    def complete_if_opens(self, out: Path, stage: str, disc: str):
        """(ii) a directory that opens as a store contains all parts, in order, with a complete id index."""
        if not out.exists():
            return 'absent'
        self.TS.active_in_thread = None
        try:
            s = self.TS.open(base_file=out)
        except Exception:  # noqa: BLE001  does not announce itself as complete
            return 'unopenable'
        try:
            self.check_merged(s, stage, disc)
        finally:
            s.close()
        return 'complete'

    def check_merged(self, s, stage, disc):
        if len(s) != len(self.model):
            self.fail('announced.incomplete', disc, f'{stage}: output opens as a store with {len(s)} of {len(self.model)} trajectories')
            return
        fdefs = [] if self.mc['layout'] == 'assoc' else self.fdefs
        absent = {sc.fs_name(BULK)} if self.mc['layout'] == 'assoc' else ()
        for i, desc in enumerate(self.model):
            try:
                t = s[i]
            except core.PASS_THROUGH:
                raise
            except Exception as e:  # noqa: BLE001
                self.fail('announced.unreadable', disc, f'{stage}: merged[{i}] raises {e!r}')
                return
            d2 = dict(desc, extras={} if self.mc['layout'] == 'assoc' else desc['extras'])
            diffs = _clean(sc.compare_traj(t, d2, fdefs, absent))
            if diffs:
                self.fail('announced.wrong', disc, f'{stage}: merged[{i}] differs: {diffs[0][0]}: {diffs[0][4]}')
                return
        if self.mc['identified']:
            for desc in self.model:
                try:
                    t = s.get_flight(desc['flight_id'])
                except core.PASS_THROUGH:
                    raise
                except Exception as e:  # noqa: BLE001
                    self.fail('announced.index', disc, f'{stage}: get_flight raises {e!r} in a directory that opens as a store')
                    return
                if t is None:
                    self.fail('announced.index', disc, f'{stage}: id {desc["flight_id"]} missing from the index of a directory that opens as a store')
                    return


def _fresh_work(d: Path, t: Path, n: int) -> Path:
    w = d / f'w{n}'
    shutil.copytree(t, w)
    return w


def body(ctx: core.Ctx, case: dict):
    from AEIC.trajectories import TrajectoryStore as TS

    sc.register_fieldset(BULK)
    sc.register_fieldset(OTHER)
    mc = case['merge']
    TS.active_in_thread = None
    d, tmpl, names = _template(ctx, mc, TS)
    orc = _Oracle(ctx, case, mc, names, TS)
    nwork = 0
    try:
        # --- record the effects of a clean merge
        nwork += 1
        w = _fresh_work(d, tmpl, nwork)
        out = w / 'merged.aeic-store'
        plan = FaultPlan()
        ctx.case(case)
        try:
            with inject(plan):
                TS.merge(output_store=out, **_merge_kwargs(mc, w, names))
        except core.PASS_THROUGH:
            raise
        except Exception as e:  # noqa: BLE001
            ctx.fail_exc('clean_merge', e, '', case)
            return
        if orc.complete_if_opens(out, 'clean merge', 'clean') != 'complete':
            orc.fail('clean_merge.incomplete', '', 'a clean merge did not produce an openable complete store')
        events = plan.events
        shutil.rmtree(w, ignore_errors=True)
        want_only = case.get('only')  # replay of a single crash point / refusal

        # --- every crash point
        for k, label in enumerate(events):
            for mode in ('before', 'after'):
                tag = f'{k}:{mode}'
                if want_only and want_only != tag:
                    continue
                kind = label.split()[0] + ('' if label.split()[0] not in ('create', 'close', 'open', 'json.dump') else ' ' + label.split()[1])
                disc = f'{kind}/{mode}'
                sub = dict(case, only=tag)
                ctx.case(sub)
                orc.case = sub
                nwork += 1
                w = _fresh_work(d, tmpl, nwork)
                out = w / 'merged.aeic-store'
                kw = _merge_kwargs(mc, w, names)
                plan = FaultPlan(at=k, mode=mode)
                raised = None
                try:
                    with inject(plan):
                        TS.merge(output_store=out, **kw)
                except Injected as e:
                    raised = repr(e)  # keep no traceback: its frames hold the stores merge() opened
                except core.PASS_THROUGH:
                    raise
                except Exception as e:  # noqa: BLE001
                    raised = repr(e)
                import gc

                gc.collect()
                if raised is None:
                    # the injected failure was swallowed: the merge must then be complete
                    if orc.complete_if_opens(out, f'crash {tag} ({label}) swallowed', disc) != 'complete':
                        orc.fail('interrupted.swallowed', disc, f'fault at {tag} ({label}) was swallowed and the output is not a complete store')
                    shutil.rmtree(w, ignore_errors=True)
                    continue
                orc.inputs_readable(w, out, f'after fault {tag} ({label})', disc)
                state = orc.complete_if_opens(out, f'after fault {tag} ({label})', disc)
                # (iii) operator-level recovery, then retry with the same arguments
                if out.exists():
                    for n in names:
                        if (out / n).exists() and not (w / n).exists():
                            shutil.move(str(out / n), str(w / n))
                    shutil.rmtree(out)
                try:
                    TS.active_in_thread = None
                    TS.merge(output_store=out, **kw)
                except core.PASS_THROUGH:
                    raise
                except Exception as e:  # noqa: BLE001
                    orc.fail('interrupted.retry', disc, f'retry after recovery from fault {tag} ({label}) failed: {e!r}')
                else:
                    if orc.complete_if_opens(out, f'retry after fault {tag}', disc) != 'complete':
                        orc.fail('interrupted.retry', disc, f'retry after fault {tag} ({label}) did not give a complete store')
                renames_done = sum(1 for ev in events[:k + (1 if mode == 'after' else 0)] if ev.startswith('rename'))
                ctx.label(f'crash_{kind.replace(" ", "_")}_{mode}', f'state_{state}')
                if renames_done >= 1:
                    ctx.mark_nontrivial({'sizes': [len(i['trajs']) for i in mc['inputs']], 'layout': mc['layout'],
                                         'id': mc['identified'], 'tag': tag, 'names': names})
                shutil.rmtree(w, ignore_errors=True)

        # --- refusals
        for kind in case['refusals']:
            tag = f'refuse:{kind}'
            if want_only and want_only != tag:
                continue
            if kind.startswith(('fieldset_mismatch', 'identified_mix')) and len(names) < 2:
                continue
            sub = dict(case, only=tag)
            ctx.case(sub)
            orc.case = sub
            nwork += 1
            w = _fresh_work(d, tmpl, nwork)
            _refusal(ctx, orc, kind, w, names, mc, TS, sub)
            ctx.label(f'refusal_{kind}')
            ctx.mark_nontrivial({'refusal': kind, 'sizes': [len(i['trajs']) for i in mc['inputs']], 'layout': mc['layout'], 'id': mc['identified']})
            shutil.rmtree(w, ignore_errors=True)
        ctx.sample({'layout': mc['layout'], 'identified': mc['identified'], 'inputs': names,
                    'sizes': [len(i['trajs']) for i in mc['inputs']], 'effects_of_clean_merge': events,
                    'crash_points': 2 * len(events), 'refusals': case['refusals']})
    finally:
        TS.active_in_thread = None
        shutil.rmtree(d, ignore_errors=True)


def _refusal(ctx, orc, kind, w: Path, names, mc, TS, case):
    out = w / 'merged.aeic-store'
    kw = _merge_kwargs(mc, w, names)
    good_kw = dict(kw)
    fix = None  # how the operator corrects the cause; afterwards merge(**retry_kw) must succeed
    retry_kw = None
    pre_existing = None
    if kind == 'both_list_and_pattern':
        kw = dict(input_stores=[w / n for n in names], input_stores_pattern=w / 'p_{index}.nc', input_stores_index_range=(0, 1))
        retry_kw = good_kw
    elif kind == 'pattern_without_range':
        kw = dict(input_stores_pattern=w / 'p_{index}.nc')
        retry_kw = good_kw
    elif kind == 'missing_input':
        moved = w / names[-1]
        hidden = w / 'hidden.tmp'
        moved.rename(hidden)
        fix = lambda: hidden.rename(moved)  # noqa: E731
        retry_kw = kw
    elif kind == 'input_not_nc':
        if mc['naming'] != 'explicit':
            return
        odd = w / 'odd.dat'
        (w / names[0]).rename(odd)
        kw = dict(input_stores=[odd] + [w / n for n in names[1:]])
        fix = lambda: odd.rename(w / names[0])  # noqa: E731
        retry_kw = good_kw
    elif kind == 'bad_output_suffix':
        out_bad = w / 'merged.store'
        try:
            TS.merge(output_store=out_bad, **kw)
        except core.PASS_THROUGH:
            raise
        except Exception:  # noqa: BLE001
            if out_bad.exists():
                orc.fail('refused.left_output', kind, 'refused merge (bad output suffix) left an output directory behind')
            orc.inputs_readable(w, out_bad, f'refusal {kind}', kind)
        else:
            orc.fail('refusal.accepted', kind, 'merge into a directory without .aeic-store suffix was accepted')
            return
        retry_kw = good_kw
        kw = None
    elif kind == 'output_exists':
        out.mkdir()
        (out / 'keep.txt').write_text('precious')
        pre_existing = out / 'keep.txt'
        fix = lambda: shutil.rmtree(out)  # noqa: E731
        retry_kw = kw
    elif kind.startswith(('fieldset_mismatch', 'identified_mix')):
        # replace the last (or first) input by an incompatible store at the same path; correcting = putting the good one back
        pos = 0 if kind.endswith('_first') else -1
        good = w / names[pos]
        keep = w / 'good.keep'
        good.rename(keep)
        desc = dict(mc['inputs'][pos]['trajs'][0])
        fd = [] if mc['layout'] == 'base' else [BULK]
        if kind.startswith('fieldset_mismatch'):
            fd = fd + [OTHER]
            desc = dict(desc, extras=dict(desc['extras'], **{sc.fs_name(OTHER): [{'seed': 1}]}))
        else:
            desc = dict(desc, flight_id=(None if mc['identified'] else 424242))
        kwc = {}
        if mc['layout'] == 'assoc':
            kwc['associated_files'] = [(w / 'A_bad.nc', [sc.fs_name(BULK)])]
        TS.active_in_thread = None
        with TS.create(base_file=good, **kwc) as s:
            s.add(sc.build_traj(desc, fd))

        def fix():
            good.unlink()
            keep.rename(good)

        retry_kw = kw
    if kw is not None:
        try:
            TS.active_in_thread = None
            TS.merge(output_store=out, **kw)
        except core.PASS_THROUGH:
            raise
        except Exception:  # noqa: BLE001  (the refusal)
            pass
        else:
            orc.fail('refusal.accepted', kind, f'merge that must be refused ({kind}) was accepted')
            return
        import gc

        gc.collect()
        if pre_existing is not None and (not pre_existing.exists() or pre_existing.read_text() != 'precious'):
            orc.fail('refused.damaged_existing', kind, 'refused merge damaged the already existing output directory')
        if kind.startswith(('fieldset_mismatch', 'identified_mix')):
            gone = [n for n in names if not (w / n).exists()]
            if gone:
                orc.fail('refused.moved_inputs', kind, f'a merge refused by a validation rule ({kind}) had already moved inputs {gone}')
                return
    if fix is not None:
        fix()
    # nothing lost (inputs at their original paths now that the cause is corrected)
    orc.inputs_readable(w, out, f'refusal {kind} (after correcting the cause)', kind)
    try:
        TS.active_in_thread = None
        TS.merge(output_store=out, **retry_kw)
    except core.PASS_THROUGH:
        raise
    except Exception as e:  # noqa: BLE001
        orc.fail('refused.retry', kind, f'after a refusal ({kind}) and correcting the cause, merge with the same arguments failed: {e!r}')
        return
    if orc.complete_if_opens(out, f'retry after refusal {kind}', kind) != 'complete':
        orc.fail('refused.retry', kind, f'retry after refusal {kind} did not give a complete store')


def run(ctx: core.Ctx):
    ctx.level = 'fault_enumeration'
    ctx.rule = (
        '(a) Hypothesis rule-based histories as in C07 plus rejected additions of five kinds (required value missing, field '
        'set missing, extra field set, identifier inconsistency, species outside the file) at any position incl. the first add '
        'and append sessions, and add on read-only stores: the call must raise and len/contents/ids/next index must be '
        'unchanged (invariant after every rule, full rescan after reopen at teardown). (b) For each generated merge scenario '
        '(<= 4 inputs, three layouts, identified or not, explicit/pattern naming) the file-system effects of a clean merge '
        '(mkdir, each rename, create/close of _index.nc, open and json.dump of metadata.json) are recorded and the merge is '
        're-run once per (effect, before|after) with an injected OSError: ALL crash points of the scenario; then one refusal '
        'for each of the 8 validation rules (the incompatible input first and last). Oracle: inputs readable from original path or output dir; an output dir that opens '
        'as a store is complete with full id index; retry succeeds (after operator recovery for interruptions, with the same '
        'arguments and no recovery for refusals). evaluations = rule executions + crash points + refusals. Non-trivial = '
        'history with a rejected add then add then reopen / rejected in append / rejected first add; crash point after >= 1 '
        'rename; any refusal. distinct = hash of log / (scenario shape, crash point).'
    )
    ctx.assumptions = [
        'crash model: a file-system call raises before or after taking effect (no torn writes)',
        'interrupted merges may be recovered by moving already-moved inputs back and removing the partial directory',
    ]
    core.run_machine(ctx, C10Machine, max_examples=ctx.n(20, 200), steps=40, salt=0)
    core.run_given(ctx, plan_strategy(lookups=True, faults=True), lambda p: run_plan(C10Machine, ctx, p), ctx.n(20, 250), salt=20)
    core.run_given(ctx, scenario(), lambda c: body(ctx, c), ctx.n(4, 40), salt=50, shrink=False)
    ctx.extra['crash_points_exhaustive_per_scenario'] = True


def replay(ctx: core.Ctx, case):
    if isinstance(case, list) or case.get('plan'):
        replay_any(C10Machine, ctx, case)
    else:
        body(ctx, case)
